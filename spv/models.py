"""Model values and external stubs for the abstract interpreter (spv.interp).

The stubs model *trusted* semantics only: CPython built-ins, a few pure stdlib modules (struct, bisect, operator,
math), ``warnings.warn`` / logging as events, and the reference CCSDS packer used to build model packets.
Repository code is never imported."""
from __future__ import annotations

import bisect
import math
import operator
import struct
from typing import Dict, List, Optional

from .interp import BytesObj, ClassRef, DictObj, ExcVal, FloatObj, IntObj, Interp, Obj, Raised, StrObj, Sym

PURE_STDLIB = {"struct": struct, "bisect": bisect, "operator": operator, "math": math}   # see interp._PURE_STDLIB

# CCSDS 133.0-B primary header (reference packer of the checker, independent of the repository's)
def ccsds_bytes(data: bytes, *, version=0, type=0, shf=0, apid=0, flags=3, count=0, length_field: Optional[int] = None) -> bytes:
    ln = (len(data) - 1) if length_field is None else length_field
    word = (version << 45) | (type << 44) | (shf << 43) | (apid << 32) | (flags << 30) | (count << 16) | (ln & 0xFFFF)
    return word.to_bytes(6, "big") + data


def raw_packet(data: bytes, **hdr) -> BytesObj:
    """Model RawPacketData with its header accessors pre-computed from the reference layout."""
    b = ccsds_bytes(data, **hdr)
    return BytesObj(b, cls="RawPacketData",
                    version_number=hdr.get("version", 0), type=hdr.get("type", 0),
                    secondary_header_flag=hdr.get("shf", 0), apid=hdr.get("apid", 0),
                    sequence_flags=hdr.get("flags", 3), sequence_count=hdr.get("count", 0),
                    data_length=len(data) - 1)


def new_raw(data=b"") -> BytesObj:
    if isinstance(data, BytesObj) and data.cls == "RawPacketData":
        # bytes(x) copy semantics: a fresh object with the class-level cursor, header accessors recomputed lazily
        return BytesObj(bytes(data), cls="RawPacketData")
    return BytesObj(bytes(data), cls="RawPacketData")


def new_packet(*a, raw_data=b"", **k) -> DictObj:
    d = DictObj(*a, cls="CCSDSPacket", raw_data=new_raw(raw_data))
    d.update(k)
    return d


def construct_packet(it, *a, **k) -> DictObj:
    """CCSDSPacket(...): the repository's own __init__ is interpreted on a fresh dict model (so that what it does
    with raw_data - copy or share - is what the checks see); falls back to the plain model if it has none."""
    d = DictObj(cls="CCSDSPacket")
    init = it.prog.resolve_method("CCSDSPacket", "__init__") if "CCSDSPacket" in it.prog.classes else None
    if init is None:
        return new_packet(*a, **k)
    it.call(init, [d] + list(a), dict(k))
    from .interp import pub
    if pub(d, "raw_data") is None:
        d.attrs["raw_data"] = new_raw(k.get("raw_data", b""))
    return d


def _super_init(selfv, *a, **k):
    from .interp import ExcVal
    if isinstance(selfv, dict):
        dict.update(selfv, *a, **k)
    elif isinstance(selfv, ExcVal):
        selfv.args = tuple(a)
    return None


def _param(base, clsname):
    def mk(value, raw_value=None):
        return base(value, cls=clsname, raw_value=(raw_value if raw_value is not None else value))
    return mk


VALUE_CLASSES = {
    "IntParameter": _param(IntObj, "IntParameter"),
    "FloatParameter": _param(FloatObj, "FloatParameter"),
    "StrParameter": _param(StrObj, "StrParameter"),
    "BinaryParameter": _param(BytesObj, "BinaryParameter"),
    "BoolParameter": _param(IntObj, "BoolParameter"),
}


def _noop(*a, **k):
    return None


def std_externals(it_holder: List[Interp]) -> Dict[str, object]:
    """Externals shared by all model evaluations.  ``it_holder[0]`` is set to the interpreter after creation so that
    stubs can record events."""
    def ev(*e):
        it_holder[0].event(*e)

    # logging: messages are events; `debug_logging` (set by a check through it.ext) switches the DEBUG level on, which makes
    # isEnabledFor(...) true and formats `msg % args` like a handler would (lazy arguments are rendered)
    def enabled(level=10):
        return bool(it_holder[0].ext.get("debug_logging")) or (isinstance(level, int) and level >= 30)

    def lazy(name):
        def log(msg="", *a, **k):
            if it_holder[0].ext.get("debug_logging") and a and isinstance(msg, str):
                try:
                    msg % a
                except (TypeError, ValueError) as e:
                    ev("log-format-error", name, str(e))
            return None
        return log

    logger = Obj(None, debug=lazy("debug"), info=lazy("info"), warning=lambda *a, **k: ev("log-warning"), error=_noop,
                 critical=_noop, exception=_noop, isEnabledFor=enabled,
                 getEffectiveLevel=lambda: 10 if it_holder[0].ext.get("debug_logging") else 30, level=0)
    ext: Dict[str, object] = {
        "logger": logger,
        "logging.DEBUG": 10, "logging.INFO": 20, "logging.WARNING": 30, "logging.ERROR": 40, "logging.CRITICAL": 50,
        "logging.getLogger": lambda *a, **k: logger,
        "warnings.warn": lambda *a, **k: ev("warn", a[0] if a else None),
        "new:RawPacketData": new_raw,
        "new:CCSDSPacket": lambda *a, **k: construct_packet(it_holder[0], *a, **k),
        "super:__init__": _super_init,
        "int.from_bytes": int.from_bytes,
        "int.to_bytes": int.to_bytes,
    }
    for n, f in VALUE_CLASSES.items():
        ext["new:" + n] = f

    def dc_field(default=None, default_factory=None, **k):
        if default_factory is not None:
            return Obj(None, __default_factory__=default_factory)
        return default
    def getmembers(obj, predicate=None):
        """inspect.getmembers on a model instance: instance attributes plus class-level attributes and methods."""
        from .interp import BoundMethod
        it = it_holder[0]
        names = {}
        if isinstance(obj, Obj) or hasattr(obj, "attrs"):
            for k, v in obj.attrs.items():
                if not (k.startswith("__") and k.endswith("__")):
                    names[k] = v
            if obj.cls:
                for c in it.prog.mro(obj.cls):
                    ci = it.prog.classes.get(c)
                    if ci is None:
                        continue
                    for m, fi in ci.methods.items():
                        names.setdefault(m, BoundMethod(fi, obj))
                    for a in ci.attrs:
                        if a not in names:
                            names[a] = it.getattr(obj, a, None)
        out = []
        for k in sorted(names):
            v = names[k]
            if predicate is None or predicate(v):
                out.append((k, v))
        return out

    def isroutine(v):
        from .interp import BoundMethod, Closure
        from .program import FuncInfo
        return isinstance(v, (BoundMethod, Closure, FuncInfo)) or (callable(v) and not isinstance(v, Obj))
    ext["inspect.getmembers"] = getmembers
    ext["inspect.isroutine"] = isroutine
    ext["field"] = dc_field
    ext["dataclasses.field"] = dc_field
    return ext


def make_interp(prog, extra: Optional[dict] = None, **kw) -> Interp:
    holder: List[Interp] = [None]  # type: ignore
    ext = std_externals(holder)
    if extra:
        ext.update(extra)
    it = Interp(prog, externals=ext, **kw)
    holder[0] = it
    return it


def model_definition(it: Interp, root: str = "ROOT") -> Obj:
    """An (empty) definition object built by the library's own interpreted constructor, so that attributes a
    constructor introduces exist on the model; falls back to a bare object if the constructor is outside the vocabulary."""
    import ast as _ast
    from .interp import Env, Raised
    from .core import Unsupported
    try:
        e = Env()
        e.vars["__relpath__"] = "xtce/definitions.py"
        e.vars["__cls__"] = None
        e.vars["ROOTNAME"] = root
        saved = it.steps
        v = it.eval(_ast.parse("XtcePacketDefinition([], root_container_name=ROOTNAME)", mode="eval").body, e)
        it.steps = saved
        if isinstance(v, Obj):
            return v
    except (Unsupported, Raised):
        pass
    return Obj("XtcePacketDefinition", root_container_name=root)


# ------------------------------------------------------------------------------------------------ byte sources
class Marker:
    """Stands for an external class used only in isinstance tests (io.BufferedIOBase, socket.socket, ...)."""
    def __init__(self, name):
        self.name = name

    def __repr__(self):
        return f"<{self.name}>"


SRC_MARKERS = {n: Marker(n) for n in ("io.BufferedIOBase", "io.TextIOWrapper", "socket.socket", "io.RawIOBase",
                                      "io.BufferedReader", "io.BytesIO", "io.IOBase")}
_FILE_KINDS = {"io.BufferedIOBase", "io.BufferedReader", "io.IOBase"}


_FD_TABLE: Dict[int, bytes] = {}     # descriptors of on-disk model files, for mmap


class MMapObj(bytes):
    """Read-only memory map of a model file: slicing gives bytes, len() the file size (like mmap.mmap); not an instance of
    `bytes` for the program under analysis (the interpreter's isinstance sees the marker class)."""
    _spv_not_bytes = True


def _mmap(fileno, length=0, *a, **k):
    """mmap.mmap(fd, 0, access=ACCESS_READ) of a model file: like CPython, an empty file cannot be mapped."""
    from .interp import ExcVal, Raised
    if fileno not in _FD_TABLE:
        raise Raised(ExcVal("OSError", ("[Errno 9] Bad file descriptor",)))
    data = _FD_TABLE[fileno]
    if len(data) == 0:
        raise Raised(ExcVal("ValueError", ("cannot mmap an empty file",)))
    return MMapObj(data if not length else data[:length])


_FD_SIZE: Dict[int, int] = {}        # what os.fstat reports for a descriptor when it differs from the stream's length


def _fstat(fd):
    """os.fstat(fd) of a model file: the size of what is ON DISK under that descriptor - for a handle with unflushed writes, or
    a decompressing wrapper that passes its descriptor through, that is not the length of the stream read() delivers."""
    from .interp import ExcVal, Raised
    if fd not in _FD_TABLE:
        raise Raised(ExcVal("OSError", (9, "Bad file descriptor")))
    return Obj(None, st_size=_FD_SIZE.get(fd, len(_FD_TABLE[fd])), st_mode=0o100644)


def file_source(data: bytes, position: int = 0, on_disk: bool = False, max_chunk: Optional[int] = None,
                disk_size: Optional[int] = None) -> Obj:
    """A binary file object; ``position`` is where the handle stands when it is given to the library (a caller may have
    peeked at the file before); ``on_disk`` files have a descriptor (fileno), in-memory ones raise like io.BytesIO;
    ``max_chunk``: read(n) with n > 0 hands out at most that many bytes per call (io.BufferedIOBase.read: "a short result
    does not imply that EOF is imminent" - only b'' means end of file)."""
    st = {"pos": position, "reads": 0}
    if on_disk:
        fd = 1000 + len(_FD_TABLE)
        _FD_TABLE[fd] = bytes(data) if disk_size is None else bytes(data)[:disk_size]
        if disk_size is not None:
            _FD_SIZE[fd] = disk_size

    def read(n=-1):
        st["reads"] += 1
        if n is None or n < 0:
            out = data[st["pos"]:]
        else:
            out = data[st["pos"]:st["pos"] + (n if max_chunk is None else min(n, max_chunk))]
        st["pos"] += len(out)
        return out

    def seek(off, whence=0):
        if whence == 0:
            st["pos"] = off
        elif whence == 1:
            st["pos"] += off
        else:
            st["pos"] = len(data) + off
        return st["pos"]

    def fileno():
        if on_disk:
            return fd
        from .interp import ExcVal, Raised
        raise Raised(ExcVal("UnsupportedOperation", ("fileno",)))
    return Obj(None, __kind__="file", read=read, seek=seek, tell=lambda: st["pos"], fileno=fileno, __state__=st, __size__=len(data))


def socket_source(fragments, stays_open: bool = False) -> Obj:
    """recv(n) hands out the next fragment (split if longer than n); b'' once the peer has closed - or, for a
    socket that stays open, a receive timeout (what a blocking recv on a silent live connection ends in)."""
    frs = [bytes(f) for f in fragments if len(f)]
    st = {"i": 0, "calls": 0}

    def recv(n):
        st["calls"] += 1
        if st["i"] >= len(frs):
            if stays_open:
                from .interp import ExcVal, Raised
                raise Raised(ExcVal("timeout", ("timed out",)))
            return b""
        f = frs[st["i"]]
        if len(f) <= n:
            st["i"] += 1
            return f
        frs[st["i"]] = f[n:]
        return f[:n]

    return Obj(None, __kind__="socket", recv=recv, __state__=st, __size__=sum(len(f) for f in frs))


def source_externals() -> dict:
    def isinst(v, marker):
        if not isinstance(marker, Marker):
            return False
        kind = v.attrs.get("__kind__") if isinstance(v, Obj) else None
        if marker.name in _FILE_KINDS:
            return kind == "file"
        if marker.name == "socket.socket":
            return kind == "socket"
        if marker.name == "io.TextIOWrapper":
            return kind == "text"
        return False
    ext = {k: v for k, v in SRC_MARKERS.items()}
    ext.update({"isinstance": isinst, "io.SEEK_END": 2, "io.SEEK_SET": 0, "io.SEEK_CUR": 1,
                "time.time_ns": lambda: 0, "time.time": lambda: 0.0,
                "os.fstat": _fstat, "os.SEEK_END": 2, "os.SEEK_SET": 0, "os.SEEK_CUR": 1,
                "mmap.mmap": _mmap, "mmap.ACCESS_READ": 1, "mmap.ACCESS_COPY": 3,
                "mmap": Obj(None, mmap=_mmap, ACCESS_READ=1, ACCESS_COPY=3, __extmodule__="mmap")})
    return ext

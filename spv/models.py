"""Model values and external stubs for the abstract interpreter (spv.interp).

The stubs model *trusted* semantics only: CPython built-ins, a few pure stdlib modules (struct, bisect, operator,
math), ``warnings.warn`` / logging as events, and the reference CCSDS packer used to build model packets.
Repository code is never imported."""
from __future__ import annotations

import bisect
import math
import operator
import struct
from typing import Dict, List, Optional

from .interp import BytesObj, ClassRef, DictObj, ExcVal, FloatObj, IntObj, Interp, Obj, Raised, StrObj, Sym

PURE_STDLIB = {"struct": struct, "bisect": bisect, "operator": operator, "math": math}

# CCSDS 133.0-B primary header (reference packer of the checker, independent of the repository's)
def ccsds_bytes(data: bytes, *, version=0, type=0, shf=0, apid=0, flags=3, count=0, length_field: Optional[int] = None) -> bytes:
    ln = (len(data) - 1) if length_field is None else length_field
    word = (version << 45) | (type << 44) | (shf << 43) | (apid << 32) | (flags << 30) | (count << 16) | (ln & 0xFFFF)
    return word.to_bytes(6, "big") + data


def raw_packet(data: bytes, **hdr) -> BytesObj:
    """Model RawPacketData with its header accessors pre-computed from the reference layout."""
    b = ccsds_bytes(data, **hdr)
    return BytesObj(b, cls="RawPacketData",
                    version_number=hdr.get("version", 0), type=hdr.get("type", 0),
                    secondary_header_flag=hdr.get("shf", 0), apid=hdr.get("apid", 0),
                    sequence_flags=hdr.get("flags", 3), sequence_count=hdr.get("count", 0),
                    data_length=len(data) - 1)


def new_raw(data=b"") -> BytesObj:
    if isinstance(data, BytesObj) and data.cls == "RawPacketData":
        # bytes(x) copy semantics: a fresh object with the class-level cursor, header accessors recomputed lazily
        return BytesObj(bytes(data), cls="RawPacketData")
    return BytesObj(bytes(data), cls="RawPacketData")


def new_packet(*a, raw_data=b"", **k) -> DictObj:
    d = DictObj(*a, cls="CCSDSPacket", raw_data=new_raw(raw_data))
    d.update(k)
    return d


def _param(base, clsname):
    def mk(value, raw_value=None):
        return base(value, cls=clsname, raw_value=(raw_value if raw_value is not None else value))
    return mk


VALUE_CLASSES = {
    "IntParameter": _param(IntObj, "IntParameter"),
    "FloatParameter": _param(FloatObj, "FloatParameter"),
    "StrParameter": _param(StrObj, "StrParameter"),
    "BinaryParameter": _param(BytesObj, "BinaryParameter"),
    "BoolParameter": _param(IntObj, "BoolParameter"),
}


def _noop(*a, **k):
    return None


def std_externals(it_holder: List[Interp]) -> Dict[str, object]:
    """Externals shared by all model evaluations.  ``it_holder[0]`` is set to the interpreter after creation so that
    stubs can record events."""
    def ev(*e):
        it_holder[0].event(*e)

    logger = Obj(None, debug=_noop, info=_noop, warning=lambda *a, **k: ev("log-warning"), error=_noop,
                 critical=_noop, exception=_noop)
    ext: Dict[str, object] = {
        "logger": logger,
        "warnings.warn": lambda *a, **k: ev("warn", a[0] if a else None),
        "new:RawPacketData": new_raw,
        "new:CCSDSPacket": new_packet,
        "int.from_bytes": int.from_bytes,
        "int.to_bytes": int.to_bytes,
    }
    for n, f in VALUE_CLASSES.items():
        ext["new:" + n] = f

    def dc_field(default=None, default_factory=None, **k):
        if default_factory is not None:
            return Obj(None, __default_factory__=default_factory)
        return default
    ext["field"] = dc_field
    ext["dataclasses.field"] = dc_field
    return ext


def make_interp(prog, extra: Optional[dict] = None, **kw) -> Interp:
    holder: List[Interp] = [None]  # type: ignore
    ext = std_externals(holder)
    if extra:
        ext.update(extra)
    it = Interp(prog, externals=ext, **kw)
    holder[0] = it
    return it

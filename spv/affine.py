"""Affine normal forms over integer atoms, with the div8/mod8 lemma base (DESIGN 3.4).

An ``Aff`` is  sum(coef[atom] * atom) + const  with integer coefficients.  Atoms are canonical strings:
  names / attribute chains ("self.pos", "len(read_buffer)"),
  "div8(<aff>)", "mod8(<aff>)", "pow2(<aff>)", "call:<text>" for opaque pure calls.
"""
from __future__ import annotations

import ast
from typing import Callable, Dict, Optional

from .astutil import dotted, unparse
from .core import Unsupported


class Aff:
    __slots__ = ("terms", "const")

    def __init__(self, terms: Optional[Dict[str, int]] = None, const: int = 0):
        self.terms = {a: c for a, c in (terms or {}).items() if c != 0}
        self.const = const

    # --- constructors
    @staticmethod
    def k(c: int) -> "Aff":
        return Aff({}, c)

    @staticmethod
    def atom(a: str) -> "Aff":
        return Aff({a: 1}, 0)

    # --- algebra
    def __add__(self, o: "Aff") -> "Aff":
        t = dict(self.terms)
        for a, c in o.terms.items():
            t[a] = t.get(a, 0) + c
        return Aff(t, self.const + o.const)

    def __neg__(self) -> "Aff":
        return Aff({a: -c for a, c in self.terms.items()}, -self.const)

    def __sub__(self, o: "Aff") -> "Aff":
        return self + (-o)

    def scale(self, k: int) -> "Aff":
        return Aff({a: c * k for a, c in self.terms.items()}, self.const * k)

    def is_const(self) -> bool:
        return not self.terms

    def __eq__(self, o) -> bool:
        return isinstance(o, Aff) and self.terms == o.terms and self.const == o.const

    def __hash__(self):
        return hash((frozenset(self.terms.items()), self.const))

    def atoms(self) -> set:
        return set(self.terms)

    def mentions(self, pred: Callable[[str], bool]) -> bool:
        return any(pred(a) for a in self.terms)

    def subst(self, atom: str, repl: "Aff") -> "Aff":
        """Replace ``atom`` (also inside div8/mod8/pow2 atoms, textually re-normalised) by ``repl``."""
        out = Aff({}, self.const)
        for a, c in self.terms.items():
            if a == atom:
                out = out + repl.scale(c)
            elif _mentions_atom(a, atom):
                out = out + _rebuild(a, atom, repl).scale(c)
            else:
                out = out + Aff({a: c})
        return normalise(out)

    def __repr__(self) -> str:
        parts = []
        for a in sorted(self.terms):
            c = self.terms[a]
            parts.append(f"{'+' if c > 0 else '-'} {'' if abs(c) == 1 else str(abs(c)) + '*'}{a}")
        if self.const or not parts:
            parts.append(f"{'+' if self.const >= 0 else '-'} {abs(self.const)}")
        s = " ".join(parts)
        return s[2:] if s.startswith("+ ") else s


# ----------------------------------------------------------------------------- structured atoms
_STRUCT: Dict[str, tuple] = {}   # atom text -> (kind, inner Aff)


def _mk(kind: str, inner: Aff) -> Aff:
    inner = normalise(inner)
    if inner.is_const():
        v = inner.const
        if kind == "div8":
            return Aff.k(v // 8)
        if kind == "mod8":
            return Aff.k(v % 8)
        if kind == "pow2" and 0 <= v <= 4096:
            return Aff.k(2 ** v)
    if kind == "mod8":
        # (x + 8k) % 8 = x % 8 ; drop multiples of 8
        inner = Aff({a: c % 8 for a, c in inner.terms.items()}, inner.const % 8)
        # (mod8(y) )%8 = mod8(y)
        if inner.const == 0 and len(inner.terms) == 1:
            (a, c), = inner.terms.items()
            if c == 1 and a.startswith("mod8("):
                return Aff.atom(a)
        if inner.is_const():
            return Aff.k(inner.const % 8)
    if kind == "div8":
        # (8k + y)//8 = k + y//8  (L8): pull out terms whose coefficient is a multiple of 8
        pulled = Aff({a: c // 8 for a, c in inner.terms.items() if c % 8 == 0}, 0)
        rest = Aff({a: c for a, c in inner.terms.items() if c % 8 != 0}, inner.const)
        # also pull whole multiples of 8 out of the constant
        pulled = pulled + Aff.k(rest.const // 8)
        rest = Aff(rest.terms, rest.const % 8)
        if rest.is_const():
            return pulled + Aff.k(rest.const // 8)
        txt = f"div8({rest!r})"
        _STRUCT[txt] = ("div8", rest)
        return pulled + Aff.atom(txt)
    txt = f"{kind}({inner!r})"
    _STRUCT[txt] = (kind, inner)
    return Aff.atom(txt)


def div8(x: Aff) -> Aff:
    return _mk("div8", x)


def mod8(x: Aff) -> Aff:
    return _mk("mod8", x)


def pow2(x: Aff) -> Aff:
    return _mk("pow2", x)


def _mentions_atom(a: str, atom: str) -> bool:
    if a in _STRUCT:
        return atom in _STRUCT[a][1].terms or any(_mentions_atom(b, atom) for b in _STRUCT[a][1].terms)
    return False


def _rebuild(a: str, atom: str, repl: Aff) -> Aff:
    kind, inner = _STRUCT[a]
    return _mk(kind, inner.subst(atom, repl))


def normalise(x: Aff) -> Aff:
    """Apply L1:  8*div8(e) + mod8(e) = e   (whenever both atoms are present with coefficients 8c and c)."""
    changed = True
    while changed:
        changed = False
        for a, c in list(x.terms.items()):
            if a.startswith("mod8(") and a in _STRUCT:
                inner = _STRUCT[a][1]
                d = div8(inner)
                # div8(inner) may itself be "pulled + atom"; only handle the pure-atom case
                if len(d.terms) == 1 and d.const == 0:
                    (da, dc), = d.terms.items()
                    if dc == 1 and x.terms.get(da, 0) == 8 * c:
                        t = dict(x.terms)
                        del t[a]
                        del t[da]
                        x = Aff(t, x.const) + inner.scale(c)
                        changed = True
                        break
    return x


# ----------------------------------------------------------------------------- from AST
class AffBuilder:
    """Translate an integer-valued expression into an Aff.

    ``resolve(name_or_dotted) -> Optional[Aff]`` lets the caller expand locals (single reaching definition) and
    fold constants; anything unresolved becomes an atom of its dotted text."""

    def __init__(self, resolve: Optional[Callable[[ast.AST], Optional[Aff]]] = None,
                 opaque_calls: bool = True):
        self.resolve = resolve
        self.opaque_calls = opaque_calls

    def build(self, e: ast.AST) -> Aff:
        return normalise(self._b(e))

    def _b(self, e: ast.AST) -> Aff:
        if self.resolve is not None:
            r = self.resolve(e)
            if r is not None:
                return r
        if isinstance(e, ast.NamedExpr):          # (x := e) has the value of e
            return self._b(e.value)
        if isinstance(e, ast.Constant):
            if isinstance(e.value, bool) or not isinstance(e.value, int):
                raise Unsupported(f"non-integer constant {e.value!r}")
            return Aff.k(e.value)
        if isinstance(e, (ast.Name, ast.Attribute)):
            d = dotted(e)
            if d is None:
                raise Unsupported(unparse(e))
            return Aff.atom(d)
        if isinstance(e, ast.UnaryOp) and isinstance(e.op, ast.USub):
            return -self._b(e.operand)
        if isinstance(e, ast.UnaryOp) and isinstance(e.op, ast.UAdd):
            return self._b(e.operand)
        if isinstance(e, ast.BinOp):
            op = e.op
            if isinstance(op, ast.Add):
                return self._b(e.left) + self._b(e.right)
            if isinstance(op, ast.Sub):
                return self._b(e.left) - self._b(e.right)
            if isinstance(op, ast.Mult):
                a, b = self._b(e.left), self._b(e.right)
                if a.is_const():
                    return b.scale(a.const)
                if b.is_const():
                    return a.scale(b.const)
                raise Unsupported(f"non-linear product {unparse(e)}")
            if isinstance(op, ast.FloorDiv):
                b = self._b(e.right)
                if b.is_const() and b.const == 8:
                    return div8(self._b(e.left))
                a = self._b(e.left)
                if a.is_const() and b.is_const() and b.const != 0:
                    return Aff.k(a.const // b.const)
                raise Unsupported(f"floor division other than by 8: {unparse(e)}")
            if isinstance(op, ast.Mod):
                b = self._b(e.right)
                if b.is_const() and b.const == 8:
                    return mod8(self._b(e.left))
                a = self._b(e.left)
                if a.is_const() and b.is_const() and b.const != 0:
                    return Aff.k(a.const % b.const)
                raise Unsupported(f"modulus other than 8: {unparse(e)}")
            if isinstance(op, ast.Pow):
                a, b = self._b(e.left), self._b(e.right)
                if a.is_const() and a.const == 2:
                    return pow2(b)
                if a.is_const() and b.is_const() and 0 <= b.const <= 64:
                    return Aff.k(a.const ** b.const)
                raise Unsupported(f"power {unparse(e)}")
            if isinstance(op, ast.LShift):
                a, b = self._b(e.left), self._b(e.right)
                if b.is_const() and 0 <= b.const <= 4096:
                    return a.scale(2 ** b.const)
                if a.is_const():
                    p = pow2(b)
                    return p.scale(a.const)
                raise Unsupported(f"shift {unparse(e)}")
        if isinstance(e, ast.Call):
            fn = dotted(e.func)
            if fn == "len" and len(e.args) == 1 and not e.keywords:
                d = dotted(e.args[0])
                if d:
                    return Aff.atom(f"len({d})")
            if fn == "int" and len(e.args) == 1 and not e.keywords:
                return self._b(e.args[0])
            if self.opaque_calls:
                return Aff.atom("call:" + " ".join(unparse(e).split()))
        raise Unsupported(f"not affine: {unparse(e)}")


def cmp_to_aff(test: ast.AST, build: Callable[[ast.AST], Aff]):
    """A comparison ``a < b`` etc. -> list of Aff ``g`` meaning ``g >= 0`` (conjunction), plus the list for its
    negation when that is a single inequality.  Returns (pos, neg) where each is a list or None."""
    if isinstance(test, ast.UnaryOp) and isinstance(test.op, ast.Not):
        p, n = cmp_to_aff(test.operand, build)
        return n, p
    if isinstance(test, ast.Compare) and len(test.ops) == 1:
        a, b = build(test.left), build(test.comparators[0])
        op = test.ops[0]
        one = Aff.k(1)
        if isinstance(op, ast.Lt):      # a < b  <=> b - a - 1 >= 0 ; neg: a - b >= 0
            return [b - a - one], [a - b]
        if isinstance(op, ast.LtE):
            return [b - a], [a - b - one]
        if isinstance(op, ast.Gt):
            return [a - b - one], [b - a]
        if isinstance(op, ast.GtE):
            return [a - b], [b - a - one]
        if isinstance(op, ast.Eq):
            return [a - b, b - a], None
        if isinstance(op, ast.NotEq):
            return None, [a - b, b - a]
    if isinstance(test, ast.BoolOp) and isinstance(test.op, ast.And):
        pos = []
        for v in test.values:
            p, _ = cmp_to_aff(v, build)
            if p is None:
                return None, None
            pos += p
        return pos, None
    if isinstance(test, ast.BoolOp) and isinstance(test.op, ast.Or):
        # not (a or b) = not a and not b
        neg = []
        for v in test.values:
            _, n = cmp_to_aff(v, build)
            if n is None:
                return None, None
            neg += n
        return None, neg
    raise Unsupported(f"not an affine comparison: {unparse(test)}")

"""Call graph over the package (DESIGN 3.6) and effect analysis (DESIGN 3.7)."""
from __future__ import annotations

import ast
from dataclasses import dataclass
from typing import Dict, List, Optional, Set

from .astutil import dotted, norm, root_name, walk_local
from .program import FuncInfo, Program

MUTATORS = {"append", "extend", "insert", "pop", "remove", "clear", "sort", "reverse", "update", "setdefault",
            "popitem", "add", "discard", "appendleft", "popleft", "__setitem__", "__delitem__", "__setattr__"}
FRESH_CALLS = {"list", "dict", "set", "tuple", "sorted", "reversed", "frozenset", "bytearray", "defaultdict",
               "OrderedDict", "deque", "str", "bytes", "int", "float", "bool", "sum", "len", "min", "max", "range",
               "enumerate", "zip", "map", "filter", "collections.defaultdict"}


class CallGraph:
    def __init__(self, prog: Program):
        self.prog = prog
        self.by_method: Dict[str, List[FuncInfo]] = {}
        for fi in prog.functions.values():
            if fi.cls is not None and fi.parent is None:
                self.by_method.setdefault(fi.name, []).append(fi)
        self.returned_closures = self._returned_closures()
        self.attr_closures = self._attr_closures()
        self._edges: Dict[str, Set[str]] = {}
        self.unresolved: Dict[str, List[str]] = {}

    # closures returned by a package function (e.g. the linear adjuster)
    def _returned_closures(self) -> List[FuncInfo]:
        out = []
        for fi in self.prog.functions.values():
            if fi.parent is None:
                continue
            for n in walk_local(fi.parent.node):
                if isinstance(n, ast.Return) and isinstance(n.value, ast.Name) and n.value.id == fi.name:
                    out.append(fi)
        return out

    # self.<attr> = <nested function>  (e.g. self.parse_func)
    def _attr_closures(self) -> Dict[str, List[FuncInfo]]:
        out: Dict[str, List[FuncInfo]] = {}
        for fi in self.prog.functions.values():
            if fi.parent is None:
                continue
            for n in walk_local(fi.parent.node):
                if isinstance(n, (ast.Assign, ast.AnnAssign)):
                    val = n.value
                    tgts = n.targets if isinstance(n, ast.Assign) else [n.target]
                    if isinstance(val, ast.Name) and val.id == fi.name:
                        for t in tgts:
                            if isinstance(t, ast.Attribute):
                                out.setdefault(t.attr, []).append(fi)
        return out

    def callees(self, fi: FuncInfo) -> Set[str]:
        if fi.key in self._edges:
            return self._edges[fi.key]
        prog = self.prog
        out: Set[str] = set()
        unresolved: List[str] = []
        m = prog.modules[fi.relpath]
        local_defs = {f.name: f for f in prog.nested(fi)}
        # enclosing function's nested defs are visible too
        p = fi.parent
        while p is not None:
            for f in prog.nested(p):
                local_defs.setdefault(f.name, f)
            p = p.parent
        for n in walk_local(fi.node):
            if not isinstance(n, ast.Call):
                # property access through self / known class: conservative include of properties by attribute name
                if isinstance(n, ast.Attribute) and isinstance(n.ctx, ast.Load):
                    for cand in self.by_method.get(n.attr, []):
                        if cand.is_property:
                            out.add(cand.key)
                continue
            f = n.func
            d = dotted(f)
            if isinstance(f, ast.Name):
                nm = f.id
                if nm in local_defs:
                    out.add(local_defs[nm].key)
                elif nm in m.funcs:
                    out.add(m.funcs[nm].key)
                elif nm in m.classes or (nm in m.imports and m.imports[nm].split(".")[-1] in prog.classes):
                    out |= self._ctor(nm if nm in prog.classes else m.imports[nm].split(".")[-1])
                elif nm in m.imports:
                    tgt = m.imports[nm]
                    mod, _, fn = tgt.rpartition(".")
                    rel = prog._mod_to_rel(mod)
                    if rel and fn in prog.modules[rel].funcs:
                        out.add(prog.modules[rel].funcs[fn].key)
                    else:
                        unresolved.append(tgt)
                else:
                    unresolved.append(nm)
                continue
            if isinstance(f, ast.Attribute):
                attr = f.attr
                base = f.value
                # super().m()
                if isinstance(base, ast.Call) and dotted(base.func) == "super" and fi.cls is not None:
                    mro = prog.mro(fi.cls.name)[1:]
                    for c in mro:
                        ci = prog.classes.get(c)
                        if ci and attr in ci.methods:
                            out.add(ci.methods[attr].key)
                            break
                    continue
                bd = dotted(base)
                # self.m() / cls.m()
                if bd in ("self", "cls") and fi.cls is not None:
                    hit = False
                    for c in [fi.cls.name] + prog.subclasses(fi.cls.name):
                        r = prog.resolve_method(c, attr)
                        if r is not None:
                            out.add(r.key)
                            hit = True
                    if not hit:
                        for cl in self.attr_closures.get(attr, []):
                            out.add(cl.key)
                            hit = True
                    if not hit:
                        for cl in self.returned_closures:
                            out.add(cl.key)
                        unresolved.append(f"self.{attr}")
                    continue
                # module.func / module.Class(...) / Class.method
                if bd is not None:
                    head = bd.split(".")[0]
                    last = bd.split(".")[-1]
                    if last in prog.classes and (head in m.imports or head in m.classes or last == head):
                        r = prog.resolve_method(last, attr)
                        if r is not None:
                            out.add(r.key)
                            for c in prog.subclasses(last):
                                r2 = prog.resolve_method(c, attr)
                                if r2 is not None:
                                    out.add(r2.key)
                            continue
                    if head in m.imports:
                        rel = prog._mod_to_rel(m.imports[head] if bd == head else
                                               m.imports[head] + "." + ".".join(bd.split(".")[1:]))
                        if rel:
                            mm = prog.modules[rel]
                            if attr in mm.funcs:
                                out.add(mm.funcs[attr].key)
                                continue
                            if attr in mm.classes:
                                out |= self._ctor(attr)
                                continue
                        if not m.imports[head].startswith("space_packet_parser"):
                            unresolved.append(f"{bd}.{attr}")
                            continue
                # unknown receiver: class-hierarchy approximation by method name
                cands = self.by_method.get(attr, [])
                if cands:
                    for c in cands:
                        out.add(c.key)
                else:
                    unresolved.append(f"?.{attr}")
        self._edges[fi.key] = out
        self.unresolved[fi.key] = unresolved
        return out

    def _ctor(self, clsname: str) -> Set[str]:
        out = set()
        for meth in ("__new__", "__init__", "__post_init__"):
            r = self.prog.resolve_method(clsname, meth)
            if r is not None:
                out.add(r.key)
        return out

    def closure(self, roots: List[str], *, stop: Optional[Set[str]] = None) -> Set[str]:
        seen: Set[str] = set()
        stack = list(roots)
        stop = stop or set()
        while stack:
            k = stack.pop()
            if k in seen or k in stop:
                continue
            fi = self.prog.functions.get(k)
            if fi is None:
                continue
            seen.add(k)
            stack.extend(self.callees(fi))
            # nested functions defined inside are part of the function's behaviour only if called; they are found
            # through local_defs above
        return seen


# ----------------------------------------------------------------------------------------------- effects
@dataclass
class Effect:
    func: FuncInfo
    kind: str          # attr-store | attr-aug | attr-del | item-store | item-del | mutator | global-write
    root: str          # name of the root variable
    root_class: str    # self | cls | param | global | local-fresh | local-alias:<root> | unknown
    node: ast.AST
    target: str        # normalised text of the target / call

    @property
    def site(self) -> str:
        return f"{self.func.key}::{self.target}"


def _local_classes(prog: Program, fi: FuncInfo) -> Dict[str, str]:
    """Classify every local name of a function: 'fresh' | 'alias:<root>' | 'param'."""
    params = set(fi.params)
    cls: Dict[str, str] = {p: "param" for p in params}
    m = prog.modules[fi.relpath]
    assigns: Dict[str, List[ast.AST]] = {}
    for n in walk_local(fi.node):
        if isinstance(n, ast.Assign):
            for t in n.targets:
                if isinstance(t, ast.Name):
                    assigns.setdefault(t.id, []).append(n.value)
                elif isinstance(t, (ast.Tuple, ast.List)):
                    for e in ast.walk(t):
                        if isinstance(e, ast.Name):
                            assigns.setdefault(e.id, []).append(ast.Subscript(value=n.value, slice=ast.Constant(0), ctx=ast.Load()))
        elif isinstance(n, ast.AnnAssign) and isinstance(n.target, ast.Name) and n.value is not None:
            assigns.setdefault(n.target.id, []).append(n.value)
        elif isinstance(n, ast.AugAssign) and isinstance(n.target, ast.Name):
            assigns.setdefault(n.target.id, []).append(n.target)   # keeps its class
        elif isinstance(n, ast.NamedExpr):
            assigns.setdefault(n.target.id, []).append(n.value)
        elif isinstance(n, (ast.For, ast.AsyncFor)):
            for e in ast.walk(n.target):
                if isinstance(e, ast.Name):
                    assigns.setdefault(e.id, []).append(ast.Subscript(value=n.iter, slice=ast.Constant(0), ctx=ast.Load()))
        elif isinstance(n, ast.comprehension):
            for e in ast.walk(n.target):
                if isinstance(e, ast.Name):
                    assigns.setdefault(e.id, []).append(ast.Subscript(value=n.iter, slice=ast.Constant(0), ctx=ast.Load()))
        elif isinstance(n, (ast.With, ast.AsyncWith)):
            for it in n.items:
                if isinstance(it.optional_vars, ast.Name):
                    assigns.setdefault(it.optional_vars.id, []).append(it.context_expr)
        elif isinstance(n, ast.ExceptHandler) and n.name:
            assigns.setdefault(n.name, []).append(ast.Constant(None))

    def classify(e: ast.AST, depth=0) -> str:
        if depth > 8:
            return "unknown"
        if isinstance(e, (ast.Constant, ast.List, ast.Dict, ast.Set, ast.Tuple, ast.ListComp, ast.DictComp, ast.SetComp,
                          ast.GeneratorExp, ast.JoinedStr, ast.Compare, ast.BoolOp, ast.UnaryOp, ast.Lambda)):
            if isinstance(e, ast.BoolOp):
                # `a or b` yields one of its operands
                cs = {classify(v, depth + 1) for v in e.values}
                cs.discard("fresh")
                return "fresh" if not cs else sorted(cs)[0]
            return "fresh"
        if isinstance(e, ast.BinOp):
            # a + b builds a new object for immutable operands and for lists
            return "fresh"
        if isinstance(e, ast.Call):
            d = dotted(e.func) or ""
            last = d.split(".")[-1]
            if d in FRESH_CALLS or last in FRESH_CALLS or last in prog.classes or (last and last[0].isupper()):
                return "fresh"
            if isinstance(e.func, ast.Attribute):
                # method call: result of x.get(...)/x.pop(...) aliases x's contents; others are treated as fresh
                if e.func.attr in ("get", "pop", "setdefault", "__getitem__", "values", "items", "keys"):
                    return classify(e.func.value, depth + 1)
                rn = root_name(e.func.value)
                if rn == "elmaker" or rn == "em":
                    return "fresh"
                return "fresh"
            return "fresh"
        if isinstance(e, ast.IfExp):
            cs = {classify(e.body, depth + 1), classify(e.orelse, depth + 1)}
            cs.discard("fresh")
            return "fresh" if not cs else sorted(cs)[0]
        if isinstance(e, ast.NamedExpr):
            return classify(e.value, depth + 1)
        if isinstance(e, ast.Name):
            if e.id in cls and cls[e.id] != "pending":
                c = cls[e.id]
                return f"alias:{e.id}" if c == "param" else c
            if e.id in assigns:
                return resolve(e.id, depth + 1)
            if e.id in m.consts or e.id in m.imports or e.id in m.funcs or e.id in m.classes:
                return f"alias:{e.id}"
            return "unknown"
        if isinstance(e, (ast.Attribute, ast.Subscript, ast.Starred)):
            r = root_name(e)
            if r is None:
                return "fresh"
            c = classify(ast.Name(id=r, ctx=ast.Load()), depth + 1)
            return c if c != "param" else f"alias:{r}"
        return "unknown"

    def resolve(name: str, depth=0) -> str:
        if name in cls and cls[name] != "pending":
            return cls[name]
        cls[name] = "pending"
        cs = set()
        for v in assigns.get(name, []):
            if isinstance(v, ast.Name) and v.id == name:
                continue
            cs.add(classify(v, depth + 1))
        cs.discard("pending")
        cs.discard("fresh")
        res = "fresh" if not cs else sorted(cs)[0]
        cls[name] = res
        return res

    for nm in list(assigns):
        if nm not in params:
            resolve(nm)
    return cls


def _stores_of(fi: FuncInfo) -> set:
    out = set()
    for n in walk_local(fi.node):
        if isinstance(n, ast.Name) and isinstance(n.ctx, ast.Store):
            out.add(n.id)
    return out


def effects_of(prog: Program, fi: FuncInfo) -> List[Effect]:
    out: List[Effect] = []
    lc = _local_classes(prog, fi)
    m = prog.modules[fi.relpath]
    first_param = fi.params[0] if fi.params else None
    declared_global = set()
    declared_nonlocal = {}
    for n in walk_local(fi.node):
        if isinstance(n, ast.Global):
            declared_global |= set(n.names)
        elif isinstance(n, ast.Nonlocal):
            # a rebinding of a variable of an enclosing function: the cell belongs to that function's activation
            for nm in n.names:
                p = fi.parent
                while p is not None and nm not in p.params and nm not in _stores_of(p):
                    p = p.parent
                declared_nonlocal[nm] = p.key if p is not None else "?"

    def name_write(nm, node):
        if nm in declared_global:
            out.append(Effect(fi, "global-write", nm, "global", node, nm))
        elif nm in declared_nonlocal:
            out.append(Effect(fi, "nonlocal-write", nm, "cell:" + declared_nonlocal[nm], node, nm))

    def root_class(name: Optional[str]) -> str:
        if name is None:
            return "unknown"
        if fi.cls is not None and not fi.is_static and name == first_param and fi.parent is None:
            return "cls" if fi.is_classmethod else "self"
        if name in lc:
            c = lc[name]
            if c == "param":
                return "param"
            if c == "fresh":
                return "local-fresh"
            if c.startswith("alias:"):
                r = c.split(":", 1)[1]
                if r == name:
                    return "param"
                rc = root_class(r)
                return rc if rc in ("self", "cls", "global") else f"local-alias:{r}"
            return "unknown"
        # free variable: enclosing function's local/param (closure) or module global
        p = fi.parent
        while p is not None:
            if name in p.params:
                if p.cls is not None and not p.is_static and p.params and name == p.params[0]:
                    return "cls" if p.is_classmethod else "self"
                return "param"
            plc = _local_classes(prog, p)
            if name in plc:
                return "local-fresh" if plc[name] == "fresh" else f"local-alias:{name}"
            p = p.parent
        if name in m.consts or name in m.imports or name in m.classes or name in m.funcs:
            return "global"
        return "unknown"

    def add(kind, target_node, node):
        r = root_name(target_node)
        out.append(Effect(fi, kind, r or "?", root_class(r), node, norm(target_node)[:100]))

    for n in walk_local(fi.node):
        if isinstance(n, ast.Assign):
            for t in n.targets:
                for e in ([t] if not isinstance(t, (ast.Tuple, ast.List)) else t.elts):
                    if isinstance(e, ast.Attribute):
                        add("attr-store", e, n)
                    elif isinstance(e, ast.Subscript):
                        add("item-store", e, n)
                    elif isinstance(e, ast.Name):
                        name_write(e.id, n)
        elif isinstance(n, ast.AnnAssign) and n.value is not None:
            if isinstance(n.target, ast.Attribute):
                add("attr-store", n.target, n)
            elif isinstance(n.target, ast.Subscript):
                add("item-store", n.target, n)
        elif isinstance(n, ast.AugAssign):
            if isinstance(n.target, ast.Attribute):
                add("attr-aug", n.target, n)
            elif isinstance(n.target, ast.Subscript):
                add("item-store", n.target, n)
            elif isinstance(n.target, ast.Name):
                if n.target.id in declared_global or n.target.id in declared_nonlocal:
                    name_write(n.target.id, n)
                else:
                    # x += y mutates in place when x is a list/dict/set aliasing something else
                    rc = root_class(n.target.id)
                    if rc not in ("local-fresh", "unknown") and not rc.startswith("local-alias") and rc != "param":
                        pass
        elif isinstance(n, ast.Delete):
            for t in n.targets:
                if isinstance(t, ast.Attribute):
                    add("attr-del", t, n)
                elif isinstance(t, ast.Subscript):
                    add("item-del", t, n)
        elif isinstance(n, ast.Call) and isinstance(n.func, ast.Attribute) and n.func.attr in MUTATORS:
            add("mutator", n.func, n)
        elif isinstance(n, ast.Call) and dotted(n.func) in ("setattr", "delattr") and n.args:
            add("attr-store", n.args[0], n)
    return out

"""spv - static property verification for space_packet_parser (stdlib ``ast`` only).

Nothing in this package imports or executes code from the repository under analysis.
"""

"""Command line:  python -m spv <Cnn> [--tier quick|thorough] | --replay <file> | --selftest | --all"""
from __future__ import annotations

import argparse
import json
import os
import sys
import traceback


def main(argv=None) -> int:
    ap = argparse.ArgumentParser(prog="check")
    ap.add_argument("pid", nargs="?")
    ap.add_argument("--tier", default=None, choices=["quick", "thorough"])
    ap.add_argument("--replay")
    ap.add_argument("--selftest", action="store_true")
    ap.add_argument("--all", action="store_true")
    ap.add_argument("--no-write", action="store_true")
    a = ap.parse_args(argv)
    tier = os.environ.get("VERIF_TIER") or a.tier or "quick"
    if tier not in ("quick", "thorough"):
        tier = "quick"
    try:
        seed = int(os.environ.get("VERIF_SEED", "0"))
    except ValueError:
        seed = 0
    from . import props
    from .core import run_property
    if a.selftest:
        from .selftest import selftest
        return selftest()
    if a.replay:
        with open(a.replay) as fh:
            rep = json.load(fh)
        pid = rep["property"]
        ob = rep["obligation"]
        from .core import Ctx, REFUTED
        from .program import Program
        spec = props.load(pid)
        ctx = Ctx(Program.from_repo(), pid)
        spec.check(ctx)
        hits = [o for o in ctx.obs if o.rule == ob["rule"] and o.site == ob["site"]]
        for o in hits:
            print(json.dumps(o.as_json(), indent=1))
        if any(o.verdict == REFUTED for o in hits):
            print(f"VIOLATION property={pid} replay={a.replay}")
            return 1
        print(f"obligation {ob['rule']} @ {ob['site']}: no longer refuted on the current tree")
        return 0
    if a.all:
        worst = 0
        for pid in props.available():
            worst = max(worst, run_property(props.load(pid), tier, seed, write=not a.no_write))
        return worst
    if not a.pid:
        ap.error("property id required")
    try:
        spec = props.load(a.pid.upper())
    except ModuleNotFoundError:
        print(f"ANALYSIS-ERROR property={a.pid} no check is registered for this property")
        return 2
    return run_property(spec, tier, seed, write=not a.no_write)


if __name__ == "__main__":
    try:
        rc = main()
    except SystemExit:
        raise
    except BaseException:
        print("ANALYSIS-ERROR internal error of the checker:\n" + traceback.format_exc())
        rc = 2
    sys.stdout.flush()
    os._exit(rc)

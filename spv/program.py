"""Source model: modules, classes (with MRO), functions, constants, constant folding.

Built from an in-memory map {relative path: source text}; the same code analyses /repo, a scratch
variant (sensitivity audit) or an embedded fixture (positive control)."""
from __future__ import annotations

import ast
import os
from dataclasses import dataclass, field
from typing import Dict, List, Optional

from .astutil import FUNC_TYPES, dotted, unparse

PKG = "space_packet_parser"


class AnchorMissing(Exception):
    """An anchored module/class/function/construct is not where the rule expects it -> ANALYSIS-ERROR."""


@dataclass
class FuncInfo:
    key: str                 # 'packets.py::RawPacketData.read_as_int'
    relpath: str
    qual: str                # 'RawPacketData.read_as_int'
    name: str
    node: ast.AST
    cls: Optional["ClassInfo"] = None
    parent: Optional["FuncInfo"] = None
    decorators: List[str] = field(default_factory=list)

    @property
    def params(self) -> List[str]:
        a = self.node.args
        return [x.arg for x in a.posonlyargs + a.args + a.kwonlyargs] + \
               ([a.vararg.arg] if a.vararg else []) + ([a.kwarg.arg] if a.kwarg else [])

    @property
    def is_static(self) -> bool:
        return "staticmethod" in self.decorators

    @property
    def is_classmethod(self) -> bool:
        return "classmethod" in self.decorators

    @property
    def is_property(self) -> bool:
        return any(d in ("property", "cached_property", "functools.cached_property") or d.endswith(".getter") for d in self.decorators)

    @property
    def accessor_kind(self) -> Optional[str]:
        """'setter' / 'deleter' for `@name.setter` / `@name.deleter` definitions (they extend the property `name`)."""
        for d in self.decorators:
            if "." in d and d.rsplit(".", 1)[1] in ("setter", "deleter"):
                return d.rsplit(".", 1)[1]
        return None


@dataclass
class ClassInfo:
    name: str
    relpath: str
    node: ast.ClassDef
    bases: List[str]                       # dotted text of each base as written
    methods: Dict[str, FuncInfo] = field(default_factory=dict)
    attrs: Dict[str, ast.AST] = field(default_factory=dict)   # class-level simple assignments
    setters: Dict[str, FuncInfo] = field(default_factory=dict)  # property name -> `@name.setter` function
    deleters: Dict[str, FuncInfo] = field(default_factory=dict)
    ann_attrs: Dict[str, ast.AnnAssign] = field(default_factory=dict)
    decorators: List[str] = field(default_factory=list)

    @property
    def key(self) -> str:
        return f"{self.relpath}::{self.name}"


@dataclass
class Module:
    relpath: str
    tree: ast.Module
    source: str
    imports: Dict[str, str] = field(default_factory=dict)   # local alias -> dotted target
    consts: Dict[str, ast.AST] = field(default_factory=dict)
    funcs: Dict[str, FuncInfo] = field(default_factory=dict)
    classes: Dict[str, ClassInfo] = field(default_factory=dict)

    @property
    def modname(self) -> str:
        p = self.relpath[:-3].replace("/", ".")
        if p.endswith("__init__"):
            p = p[: -len(".__init__")] if "." in p else ""
        return PKG + ("." + p if p else "")


def _decorator_names(node) -> List[str]:
    out = []
    for d in getattr(node, "decorator_list", []):
        if isinstance(d, ast.Call):
            d = d.func
        n = dotted(d)
        if n:
            out.append(n)
            out.append(n.split(".")[-1])
    return out


class Program:
    def __init__(self, files: Dict[str, str]):
        self.files = dict(files)
        self.modules: Dict[str, Module] = {}
        self.classes: Dict[str, ClassInfo] = {}          # by simple name (first wins; dup recorded)
        self.dup_classes: List[str] = []
        self.functions: Dict[str, FuncInfo] = {}         # by key
        self.syntax_errors: Dict[str, str] = {}
        for rel in sorted(files):
            try:
                tree = ast.parse(files[rel], filename=rel)
            except SyntaxError as e:
                self.syntax_errors[rel] = str(e)
                continue
            self._index_module(rel, tree, files[rel])

    # ------------------------------------------------------------------ loading
    @classmethod
    def from_repo(cls, root: Optional[str] = None) -> "Program":
        root = root or os.environ.get("SPV_REPO", "/repo")
        pkg = os.path.join(root, PKG)
        if not os.path.isdir(pkg):
            raise AnchorMissing(f"package directory {pkg} not found")
        files = {}
        for dp, dn, fn in os.walk(pkg):
            dn[:] = [d for d in dn if d != "__pycache__"]
            for f in fn:
                if f.endswith(".py"):
                    full = os.path.join(dp, f)
                    rel = os.path.relpath(full, pkg).replace(os.sep, "/")
                    with open(full, encoding="utf-8") as fh:
                        files[rel] = fh.read()
        return cls(files)

    def variant(self, relpath: str, new_source: str) -> "Program":
        files = dict(self.files)
        files[relpath] = new_source
        return Program(files)

    # ------------------------------------------------------------------ indexing
    def _index_module(self, rel: str, tree: ast.Module, src: str) -> None:
        m = Module(rel, tree, src)
        self.modules[rel] = m
        for st in tree.body:
            self._index_import(m, st)
            if isinstance(st, ast.Try):
                for s2 in st.body:
                    self._index_import(m, s2)
            if isinstance(st, ast.Assign) and len(st.targets) == 1 and isinstance(st.targets[0], ast.Name):
                m.consts[st.targets[0].id] = st.value
            elif isinstance(st, ast.AnnAssign) and isinstance(st.target, ast.Name) and st.value is not None:
                m.consts[st.target.id] = st.value
            elif isinstance(st, (ast.FunctionDef, ast.AsyncFunctionDef)):
                self._index_func(m, st, None, None, st.name)
            elif isinstance(st, ast.ClassDef):
                self._index_class(m, st)

    @staticmethod
    def _index_import(m: Module, st: ast.stmt) -> None:
        if isinstance(st, ast.Import):
            for a in st.names:
                m.imports[a.asname or a.name.split(".")[0]] = a.name if a.asname else a.name.split(".")[0]
        elif isinstance(st, ast.ImportFrom):
            base = st.module or ""
            if st.level:
                pkg = m.modname if m.relpath.endswith("__init__.py") else m.modname.rsplit(".", 1)[0]
                for _i in range(st.level - 1):
                    pkg = pkg.rsplit(".", 1)[0]
                base = pkg + ("." + base if base else "")
            for a in st.names:
                m.imports[a.asname or a.name] = f"{base}.{a.name}" if base else a.name

    def _index_class(self, m: Module, node: ast.ClassDef) -> None:
        ci = ClassInfo(node.name, m.relpath, node, [dotted(b) or unparse(b) for b in node.bases],
                       decorators=_decorator_names(node))
        m.classes[node.name] = ci
        if node.name in self.classes:
            self.dup_classes.append(node.name)
        else:
            self.classes[node.name] = ci
        for st in node.body:
            if isinstance(st, (ast.FunctionDef, ast.AsyncFunctionDef)):
                kind = next((d.rsplit(".", 1)[1] for d in _decorator_names(st) if "." in d and d.rsplit(".", 1)[1] in ("setter", "deleter")
                             and d.rsplit(".", 1)[0] == st.name), None)
                if kind:        # @name.setter / @name.deleter: part of the property `name`, not a new attribute
                    fi = self._index_func(m, st, ci, None, f"{node.name}.{st.name}.{kind}")
                    (ci.setters if kind == "setter" else ci.deleters)[st.name] = fi
                    continue
                fi = self._index_func(m, st, ci, None, f"{node.name}.{st.name}")
                ci.methods[st.name] = fi
            elif isinstance(st, ast.Assign):
                for t in st.targets:
                    if isinstance(t, ast.Name):
                        ci.attrs[t.id] = st.value
            elif isinstance(st, ast.AnnAssign) and isinstance(st.target, ast.Name):
                ci.ann_attrs[st.target.id] = st
                if st.value is not None:
                    ci.attrs[st.target.id] = st.value

    def _index_func(self, m: Module, node, ci, parent, qual) -> FuncInfo:
        fi = FuncInfo(f"{m.relpath}::{qual}", m.relpath, qual, node.name if hasattr(node, "name") else "<lambda>",
                      node, ci, parent, _decorator_names(node))
        self.functions[fi.key] = fi
        if ci is None and parent is None:
            m.funcs[fi.name] = fi
        # nested functions
        for sub in self._nested_defs(node):
            self._index_func(m, sub, ci, fi, f"{qual}.{sub.name}")
        return fi

    @staticmethod
    def _nested_defs(fn):
        out = []
        stack = list(ast.iter_child_nodes(fn))
        while stack:
            n = stack.pop()
            if isinstance(n, (ast.FunctionDef, ast.AsyncFunctionDef)):
                out.append(n)
                continue
            if isinstance(n, (ast.ClassDef, ast.Lambda)):
                continue
            stack.extend(ast.iter_child_nodes(n))
        out.sort(key=lambda n: n.lineno)
        return out

    # ------------------------------------------------------------------ lookup
    def module(self, rel: str) -> Module:
        if rel not in self.modules:
            raise AnchorMissing(f"module {rel} missing" + (f" (syntax error: {self.syntax_errors[rel]})"
                                                          if rel in self.syntax_errors else ""))
        return self.modules[rel]

    def func(self, key: str) -> FuncInfo:
        fi = self.func_opt(key)
        if fi is None:
            raise AnchorMissing(f"function {key} not found")
        return fi

    def func_opt(self, key: str) -> Optional[FuncInfo]:
        fi = self.functions.get(key)
        if fi is not None:
            return fi
        rel, _, qual = key.partition("::")
        # a method of a class that moved to another module of the package (class names are unique in the package)
        if "." in qual:
            cname, _, mname = qual.partition(".")
            ci = self.classes.get(cname)
            if ci is not None and ci.relpath != rel and "." not in mname and mname in ci.methods:
                return ci.methods[mname]
        # a module-level function that moved to another module of the package and is imported back under its name
        m = self.modules.get(rel)
        if m is not None and qual and "." not in qual and qual in m.imports:
            target = m.imports[qual]
            if target.startswith("."):
                base = m.modname.rsplit(".", 1)[0] if not rel.endswith("__init__.py") else m.modname
                dots = len(target) - len(target.lstrip("."))
                for _i in range(dots - 1):
                    base = base.rsplit(".", 1)[0]
                target = base + "." + target.lstrip(".")
            mod, _, name = target.rpartition(".")
            rel2 = self._mod_to_rel(mod)
            if rel2 is not None and rel2 != rel:
                return self.func_opt(f"{rel2}::{name}")
        return None

    def cls(self, name: str) -> ClassInfo:
        if name not in self.classes:
            raise AnchorMissing(f"class {name} not found")
        return self.classes[name]

    def nested(self, fi: FuncInfo) -> List[FuncInfo]:
        return [f for f in self.functions.values() if f.parent is fi]

    # ------------------------------------------------------------------ class hierarchy
    def base_names(self, ci: ClassInfo) -> List[str]:
        """Simple names of bases (package classes keep their simple name; externals their last part)."""
        return [b.split(".")[-1] for b in ci.bases]

    def mro(self, name: str) -> List[str]:
        """Linearised MRO by simple class name; external bases appear as names without ClassInfo.
        C3 where possible, falling back to DFS order (sufficient for this single-inheritance-ish package)."""
        cache = self.__dict__.setdefault("_mro_cache", {})
        if name in cache:
            return cache[name]
        cache[name] = r = self._mro(name)
        return r

    def _mro(self, name: str) -> List[str]:
        def lin(n, seen):
            if n in seen:
                return [n]
            seen = seen | {n}
            ci = self.classes.get(n)
            if ci is None:
                return [n]
            seqs = [lin(b, seen) for b in self.base_names(ci)] + [list(self.base_names(ci))]
            res = [n]
            seqs = [list(s) for s in seqs if s]
            while seqs:
                for s in seqs:
                    cand = s[0]
                    if not any(cand in t[1:] for t in seqs):
                        break
                else:
                    # inconsistent: fall back to DFS
                    flat = []
                    for s in seqs:
                        for x in s:
                            if x not in flat:
                                flat.append(x)
                    return res + [x for x in flat if x not in res]
                res.append(cand)
                seqs = [[x for x in s if x != cand] for s in seqs]
                seqs = [s for s in seqs if s]
            return res
        return lin(name, frozenset())

    def resolve_method(self, clsname: str, meth: str) -> Optional[FuncInfo]:
        for c in self.mro(clsname):
            ci = self.classes.get(c)
            if ci and meth in ci.methods:
                return ci.methods[meth]
        return None

    def resolve_attr(self, clsname: str, attr: str):
        """(defining class, expr) of a class-level attribute through the MRO."""
        for c in self.mro(clsname):
            ci = self.classes.get(c)
            if ci and attr in ci.attrs:
                return ci, ci.attrs[attr]
        return None, None

    def is_subclass(self, name: str, base: str) -> bool:
        return base in self.mro(name)

    def subclasses(self, base: str, *, strict: bool = True) -> List[str]:
        out = [n for n in self.classes if self.is_subclass(n, base) and (n != base or not strict)]
        return sorted(out)

    def is_abstract(self, name: str) -> bool:
        """A class is treated as abstract when it (directly) declares metaclass=ABCMeta, or still carries an
        un-overridden @abstractmethod through its MRO."""
        ci = self.classes.get(name)
        if ci is None:
            return False
        for kw in ci.node.keywords:
            if kw.arg == "metaclass" and (dotted(kw.value) or "").endswith("ABCMeta"):
                return True
        seen = set()
        for c in self.mro(name):
            cc = self.classes.get(c)
            if not cc:
                continue
            for mname, fi in cc.methods.items():
                if mname in seen:
                    continue
                seen.add(mname)
                if "abstractmethod" in fi.decorators:
                    return True
        return False

    # ------------------------------------------------------------------ constant folding
    def fold(self, expr: ast.AST, relpath: str, *, cls: Optional[str] = None, env: Optional[dict] = None,
             _depth: int = 0):
        """Fold an expression to a Python constant (int/str/bool/None/tuple/list) or raise ValueError."""
        if _depth > 20:
            raise ValueError("fold depth")
        f = lambda e: self.fold(e, relpath, cls=cls, env=env, _depth=_depth + 1)  # noqa: E731
        if isinstance(expr, ast.Constant):
            return expr.value
        if isinstance(expr, ast.Name):
            if env and expr.id in env:
                v = env[expr.id]
                return f(v) if isinstance(v, ast.AST) else v
            m = self.modules.get(relpath)
            if m and expr.id in m.consts:
                return self.fold(m.consts[expr.id], relpath, cls=cls, _depth=_depth + 1)
            if m and expr.id in m.imports:
                tgt = m.imports[expr.id]
                mod, _, nm = tgt.rpartition(".")
                rel = self._mod_to_rel(mod)
                if rel and nm in self.modules[rel].consts:
                    return self.fold(self.modules[rel].consts[nm], rel, _depth=_depth + 1)
            raise ValueError(f"unresolved name {expr.id}")
        if isinstance(expr, ast.Attribute):
            d = dotted(expr)
            if d:
                head, _, attr = d.rpartition(".")
                # Cls.CONST / self.CONST / cls.CONST / mod.Cls.CONST / mod.CONST
                cname = head.split(".")[-1]
                if head in ("self", "cls") and cls:
                    cname = cls
                if cname in self.classes:
                    ci, ex = self.resolve_attr(cname, attr)
                    if ex is not None:
                        return self.fold(ex, ci.relpath, cls=ci.name, _depth=_depth + 1)
                m = self.modules.get(relpath)
                if m and head in m.imports:
                    rel = self._mod_to_rel(m.imports[head])
                    if rel and attr in self.modules[rel].consts:
                        return self.fold(self.modules[rel].consts[attr], rel, _depth=_depth + 1)
            raise ValueError(f"unresolved attribute {unparse(expr)}")
        if isinstance(expr, ast.UnaryOp):
            v = f(expr.operand)
            if isinstance(expr.op, ast.USub):
                return -v
            if isinstance(expr.op, ast.UAdd):
                return +v
            if isinstance(expr.op, ast.Not):
                return not v
            if isinstance(expr.op, ast.Invert):
                return ~v
        if isinstance(expr, ast.BinOp):
            a, b = f(expr.left), f(expr.right)
            op = expr.op
            try:
                if isinstance(op, ast.Add):
                    return a + b
                if isinstance(op, ast.Sub):
                    return a - b
                if isinstance(op, ast.Mult):
                    return a * b
                if isinstance(op, ast.FloorDiv):
                    return a // b
                if isinstance(op, ast.Mod):
                    return a % b
                if isinstance(op, ast.Pow):
                    if isinstance(b, int) and abs(b) > 4096:
                        raise ValueError("pow too large")
                    return a ** b
                if isinstance(op, ast.LShift):
                    if b > 4096:
                        raise ValueError("shift too large")
                    return a << b
                if isinstance(op, ast.RShift):
                    return a >> b
                if isinstance(op, ast.BitAnd):
                    return a & b
                if isinstance(op, ast.BitOr):
                    return a | b
                if isinstance(op, ast.BitXor):
                    return a ^ b
                if isinstance(op, ast.Div):
                    return a / b
            except (TypeError, ZeroDivisionError) as e:
                raise ValueError(str(e))
        if isinstance(expr, (ast.Tuple, ast.List)):
            vals = [f(e) for e in expr.elts]
            return tuple(vals) if isinstance(expr, ast.Tuple) else vals
        if isinstance(expr, ast.Subscript):
            base = f(expr.value)
            sl = expr.slice
            if isinstance(sl, ast.Slice):
                lo = f(sl.lower) if sl.lower else None
                hi = f(sl.upper) if sl.upper else None
                st = f(sl.step) if sl.step else None
                return base[lo:hi:st]
            return base[f(sl)]
        raise ValueError(f"cannot fold {unparse(expr)}")

    def fold_opt(self, expr, relpath, **kw):
        try:
            return self.fold(expr, relpath, **kw)
        except (ValueError, KeyError, IndexError, TypeError):
            return None

    def _mod_to_rel(self, dotted_mod: str) -> Optional[str]:
        if not dotted_mod.startswith(PKG):
            return None
        rest = dotted_mod[len(PKG):].lstrip(".")
        cands = [rest.replace(".", "/") + ".py", (rest.replace(".", "/") + "/__init__.py").lstrip("/")]
        if not rest:
            cands = ["__init__.py"]
        for c in cands:
            if c in self.modules:
                return c
        return None

    # ------------------------------------------------------------------ inventory
    def inventory(self) -> dict:
        return {
            "modules": len(self.modules),
            "classes": sum(len(m.classes) for m in self.modules.values()),
            "functions": len(self.functions),
            "lines": sum(s.count("\n") + 1 for s in self.files.values()),
        }

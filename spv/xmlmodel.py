"""A small model of the lxml API surface the package uses (elements, ElementPath subset, ElementMaker, trees),
for the abstract interpreter.  Trusted semantics modelled here (and nowhere decided): lxml's ElementPath child/
descendant steps with ``namespaces=`` resolution (``None`` key = default namespace), ``*`` selecting element children
only, iteration over an element yielding *all* child nodes including comments, ``ElementMaker`` tag/namespace
construction, ``QName.localname``.

Elements are ``Obj('NamespaceAwareElement')`` so that the repository's own overrides (find/findall/iterfind,
add_namespace_to_xpath, the class-level namespace state) are interpreted from source; ``super().find`` etc. land in
the hooks below.
"""
from __future__ import annotations

import re
from typing import Dict, List, Optional

from .interp import ExcVal, Obj, Raised

ELEM_CLS = "NamespaceAwareElement"


def clark(ns: Optional[str], local: str) -> str:
    return f"{{{ns}}}{local}" if ns else local


def split_tag(tag: str):
    if isinstance(tag, str) and tag.startswith("{"):
        ns, _, local = tag[1:].partition("}")
        return ns, local
    return None, tag


def is_elem(x) -> bool:
    return isinstance(x, Obj) and x.attrs.get("__node__") == "element"


def is_comment(x) -> bool:
    return isinstance(x, Obj) and x.attrs.get("__node__") == "comment"


def make_elem(tag: str, attrib: Optional[dict] = None, text: Optional[str] = None, nsmap: Optional[dict] = None,
              children: Optional[list] = None, cls: str = ELEM_CLS) -> Obj:
    e = Obj(cls, __node__="element", tag=tag, attrib=dict(attrib or {}), text=text, tail=None,
            __children__=[], __nsdecl__=dict(nsmap or {}), __parent__=None)
    _wire(e)
    for c in children or []:
        append(e, c)
    return e


def make_comment(text: str) -> Obj:
    # lxml: comment.tag is the Comment factory function, .find etc. do not exist, .attrib does not exist
    c = Obj(None, __node__="comment", text=text, tail=None, tag=Obj(None, __name__="Comment"), __parent__=None)
    return c


def _wire(e: Obj):
    a = e.attrs
    a["append"] = lambda child: append(e, child)
    a["get"] = lambda k, d=None: a["attrib"].get(k, d)
    a["set"] = lambda k, v: a["attrib"].__setitem__(k, v)
    a["getparent"] = lambda: a["__parent__"]
    a["getchildren"] = lambda: list(a["__children__"])
    a["iterchildren"] = lambda *x: [c for c in a["__children__"] if is_elem(c)]
    a["getroottree"] = lambda: make_tree(root_of(e))
    a["__iter__"] = a["__children__"]       # iterating an element yields every child node (comments too)

    def getitem(k):
        try:
            return a["__children__"][k]         # element[i] / element[i:j]: child nodes by position (comments too)
        except IndexError:
            raise Raised(ExcVal("IndexError", ("list index out of range",)))
        except TypeError:
            raise Raised(ExcVal("TypeError", ("element indices must be integers or slices",)))
    a["__getitem__"] = getitem

    def _match(c, tags):
        if not tags or tags == (None,) or "*" in tags:
            return is_elem(c)
        return is_elem(c) and c.attrs["tag"] in tags

    def _all_nodes(x):
        for c in x.attrs["__children__"]:
            yield c
            if is_elem(c):
                yield from _all_nodes(c)

    def it_(*tags, tag=None):
        tags = tuple(t for t in (tags + ((tag,) if tag is not None else ())))
        if not tags:                           # lxml: iter() without a tag yields comments too
            return [e] + list(_all_nodes(e))
        return [x for x in [e] + list(_all_nodes(e)) if _match(x, tags)]
    a["iter"] = it_
    a["iterdescendants"] = lambda *tags, tag=None: it_(*tags, tag=tag)[1:] if (tags or tag) is None or not (tags or tag) else \
        [x for x in it_(*tags, tag=tag) if x is not e]

    def ancestors():
        out, cur = [], a["__parent__"]
        while cur is not None:
            out.append(cur)
            cur = cur.attrs["__parent__"]
        return out
    a["iterancestors"] = lambda *t: ancestors()

    def findtext(path, default=None, namespaces=None):
        r = path_find(e, path, namespaces)
        return (r[0].attrs["text"] or "") if r else default
    a["findtext"] = findtext

    def index(child):
        for i, c in enumerate(a["__children__"]):
            if c is child:
                return i
        raise Raised(ExcVal("ValueError", ("Element is not a child of this node.",)))
    a["index"] = index

    def insert(i, child):
        child.attrs["__parent__"] = e
        a["__children__"].insert(i, child)
    a["insert"] = insert
    a["extend"] = lambda children: [append(e, c) for c in list(children)] and None

    def remove(child):
        a["__children__"].pop(index(child))
        child.attrs["__parent__"] = None
    a["remove"] = remove
    a["items"] = lambda: list(a["attrib"].items())
    a["keys"] = lambda: list(a["attrib"].keys())
    a["values"] = lambda: list(a["attrib"].values())
    a["itertext"] = lambda: [x.attrs["text"] for x in [e] + [d for d in _all_nodes(e) if is_elem(d)] if x.attrs.get("text")]
    a["__truth__"] = True


def append(parent: Obj, child):
    if isinstance(child, Obj) and child.attrs.get("__node__") in ("element", "comment"):
        child.attrs["__parent__"] = parent
        parent.attrs["__children__"].append(child)
    else:
        raise Raised(ExcVal("TypeError", (f"cannot append {type(child).__name__} to an element",)))


def root_of(e: Obj) -> Obj:
    while e.attrs.get("__parent__") is not None:
        e = e.attrs["__parent__"]
    return e


def nsmap_of(e: Obj) -> dict:
    """In-scope namespace map (lxml's el.nsmap)."""
    chain = []
    x = e
    while x is not None:
        chain.append(x)
        x = x.attrs.get("__parent__")
    m: Dict[Optional[str], str] = {}
    for x in reversed(chain):
        m.update(x.attrs.get("__nsdecl__", {}))
    return m


def make_tree(root: Obj) -> Obj:
    return Obj(None, __node__="tree", getroot=lambda: root, __root__=root, write=lambda *a, **k: None,
               find=lambda *a, **k: None)


# ------------------------------------------------------------------------------------------------- ElementPath subset
_STEP = re.compile(r"^(?P<name>[^\[\]]+)(\[@(?P<attr>[\w:.-]+)=(?P<q>['\"])(?P<val>.*)(?P=q)\])?$")


def _resolve(name: str, namespaces: Optional[dict]):
    if name == "*":
        return "*"
    if name.startswith("{"):
        return name
    if ":" in name:
        pfx, _, local = name.partition(":")
        if not namespaces or pfx not in namespaces:
            raise Raised(ExcVal("SyntaxError", (f"prefix {pfx!r} not found in prefix map",)))
        return clark(namespaces[pfx], local)
    if namespaces and None in namespaces and namespaces[None]:
        return clark(namespaces[None], name)
    return name


def _match(e: Obj, name: str) -> bool:
    return is_elem(e) and (name == "*" or e.attrs["tag"] == name)


def _descendants(e: Obj):
    for c in e.attrs["__children__"]:
        if is_elem(c):
            yield c
            yield from _descendants(c)


def path_find(elem: Obj, path: str, namespaces: Optional[dict]) -> List[Obj]:
    if not isinstance(path, str):
        raise Raised(ExcVal("TypeError", ("path must be a string",)))
    if path.startswith("/"):
        raise Raised(ExcVal("SyntaxError", ("cannot use absolute path on element",)))
    cur = [elem]
    parts = path.split("/")
    i = 0
    while i < len(parts):
        step = parts[i]
        if step == "":                       # '//' : descendant-or-self of the next step
            i += 1
            if i >= len(parts):
                raise Raised(ExcVal("SyntaxError", ("invalid descendant",)))
            m = _STEP.match(parts[i])
            if not m:
                raise Raised(ExcVal("SyntaxError", (f"invalid path step {parts[i]!r}",)))
            name = _resolve(m.group("name"), namespaces)
            nxt = []
            for e in cur:
                for d in _descendants(e):
                    if _match(d, name) and _pred(d, m) and d not in nxt:
                        nxt.append(d)
            cur = nxt
        elif step == ".":
            pass
        elif step == "..":
            cur = [e.attrs["__parent__"] for e in cur if e.attrs.get("__parent__") is not None]
        else:
            m = _STEP.match(step)
            if not m:
                raise Raised(ExcVal("SyntaxError", (f"invalid path step {step!r}",)))
            name = _resolve(m.group("name"), namespaces)
            nxt = []
            for e in cur:
                for c in e.attrs["__children__"]:
                    if _match(c, name) and _pred(c, m):
                        nxt.append(c)
            cur = nxt
        i += 1
    return cur


def _pred(e: Obj, m) -> bool:
    if m.group("attr") is None:
        return True
    return e.attrs["attrib"].get(m.group("attr")) == m.group("val")


# ------------------------------------------------------------------------------------------------- externals
def xml_externals(documents: Optional[Dict[str, Obj]] = None) -> dict:
    """Stubs for lxml: super().find/findall/iterfind of the element class, ElementMaker, ElementTree.*"""
    documents = documents if documents is not None else {}

    def s_find(selfv, path, namespaces=None):
        r = path_find(selfv, path, namespaces)
        return r[0] if r else None

    def s_findall(selfv, path, namespaces=None):
        return path_find(selfv, path, namespaces)

    def elementmaker(namespace=None, nsmap=None, **k):
        def factory(tag):
            def build(*children, **attrs):
                e = make_elem(clark(namespace, tag), nsmap=dict(nsmap or {}))
                for ch in children:
                    if isinstance(ch, dict):
                        e.attrs["attrib"].update(ch)
                    elif isinstance(ch, str):
                        e.attrs["text"] = (e.attrs["text"] or "") + ch if not e.attrs["__children__"] else e.attrs["text"]
                    elif isinstance(ch, Obj):
                        append(e, ch)
                    elif isinstance(ch, (list, tuple)):
                        for c2 in ch:
                            append(e, c2)
                    elif ch is None:
                        raise Raised(ExcVal("TypeError", ("bad argument type: NoneType",)))
                    else:
                        raise Raised(ExcVal("TypeError", (f"bad argument type: {type(ch).__name__}",)))
                for k2, v in attrs.items():
                    if not isinstance(v, str):
                        raise Raised(ExcVal("TypeError", (f"attribute {k2} must be str, got {type(v).__name__}",)))
                    e.attrs["attrib"][k2] = v
                return e
            return build
        return Obj(None, __getattr__=factory, __node__="elementmaker", __namespace__=namespace)

    def parse(doc, parser=None):
        key = doc if isinstance(doc, str) else getattr(doc, "attrs", {}).get("__docname__")
        if isinstance(doc, Obj) and doc.attrs.get("__node__") == "element":
            return make_tree(doc)
        if key in documents:
            d = documents[key]
            if isinstance(d, Raised):
                raise d
            return make_tree(d)
        raise Raised(ExcVal("OSError", (f"cannot read {doc!r}",)))

    def qname(x, tag=None):
        t = x.attrs["tag"] if isinstance(x, Obj) else x
        if isinstance(t, Obj):       # a comment's tag is a function
            raise Raised(ExcVal("ValueError", ("Invalid input tag of type function",)))
        ns, local = split_tag(t)
        return Obj(None, localname=local, namespace=ns, text=t)

    def sub_element(parent, tag, attrib=None, nsmap=None, **extra):
        t = tag.attrs["text"] if isinstance(tag, Obj) and "text" in tag.attrs else tag
        e = make_elem(t, attrib=dict(attrib or {}, **extra), nsmap=nsmap)
        append(parent, e)
        return e

    def element(tag, attrib=None, nsmap=None, **extra):
        t = tag.attrs["text"] if isinstance(tag, Obj) and "text" in tag.attrs else tag
        return make_elem(t, attrib=dict(attrib or {}, **extra), nsmap=nsmap)

    etree = Obj(None, __node__="module",
                parse=parse, QName=qname, ElementTree=lambda r=None: make_tree(r),
                ElementDefaultClassLookup=lambda **k: Obj(None), XMLParser=lambda **k: Obj(None, set_element_class_lookup=lambda x: None),
                SubElement=sub_element, Element=element, Comment=make_comment,
                ElementBase=Obj(None), tostring=lambda x, **k: serialize(x if is_elem(x) else x.attrs["__root__"]))
    ext = {
        f"super:find": s_find, "super:findall": s_findall, "super:iterfind": s_findall,
        "ElementMaker": elementmaker, "lxml.builder.ElementMaker": elementmaker,
        "ElementTree": etree, "lxml.etree": etree,
        "len": _len,
        "datetime": Obj(None, now=lambda: Obj(None, isoformat=lambda: "NOW")),
        "datetime.datetime": Obj(None, now=lambda: Obj(None, isoformat=lambda: "NOW")),
    }
    return ext


def _len(x):
    if is_elem(x):
        return len(x.attrs["__children__"])
    if isinstance(x, Obj) and "__items__" in x.attrs:
        return len(x.attrs["__items__"])
    return len(x)


# nsmap attribute is dynamic (depends on ancestors): expose through a property-like hook
def attach_nsmap(e: Obj):
    for d in [e] + list(_descendants(e)):
        d.attrs["nsmap"] = nsmap_of(d)


# ------------------------------------------------------------------------------------------------- serialisation
def serialize(e: Obj, indent: int = 0) -> str:
    """Canonical text of a model tree (attribute order and child order preserved): stands for the bytes lxml writes."""
    if is_comment(e):
        return " " * indent + f"<!--{e.attrs['text']}-->\n"
    a = e.attrs
    attrs = "".join(f' {k}="{v}"' for k, v in a["attrib"].items())
    ns = "".join(f' xmlns{":" + k if k else ""}="{v}"' for k, v in a.get("__nsdecl__", {}).items()) if a.get("__parent__") is None else ""
    head = " " * indent + f"<{a['tag']}{ns}{attrs}"
    if not a["__children__"] and a["text"] is None:
        return head + "/>\n"
    out = head + ">" + (a["text"] or "")
    if a["__children__"]:
        out += "\n" + "".join(serialize(c, indent + 1) for c in a["__children__"]) + " " * indent
    return out + f"</{a['tag']}>\n"


def all_elements(e: Obj):
    yield e
    yield from _descendants(e)


def clone(e: Obj, *, rename=None, nsdecl=None) -> Obj:
    """Deep copy of a model tree; ``rename(tag) -> tag`` re-spells element tags (other namespace conventions)."""
    if is_comment(e):
        return make_comment(e.attrs["text"])
    tag = rename(e.attrs["tag"]) if rename else e.attrs["tag"]
    n = make_elem(tag, attrib=dict(e.attrs["attrib"]), text=e.attrs["text"],
                  nsmap=(nsdecl if nsdecl is not None and e.attrs.get("__parent__") is None else dict(e.attrs.get("__nsdecl__", {}))))
    for c in e.attrs["__children__"]:
        append(n, clone(c, rename=rename))
    return n


# ------------------------------------------------------------------------------------------------- documents as text
def parse_text(text: str) -> Obj:
    """Model tree of a document the checker itself wrote as XML text (the checker's own input: read with the standard
    library's parser; comments, text and tails are kept; the namespace declarations of the root element are recorded)."""
    import io
    import xml.etree.ElementTree as ET
    decl = {}
    for ev, x in ET.iterparse(io.StringIO(text), events=("start-ns",)):
        decl.setdefault(x[0] or None, x[1])
    root = ET.parse(io.StringIO(text), parser=ET.XMLParser(target=ET.TreeBuilder(insert_comments=True))).getroot()

    def conv(e, top):
        if e.tag is ET.Comment:
            c = make_comment(e.text or "")
            c.attrs["tail"] = e.tail
            return c
        n = make_elem(e.tag, attrib=dict(e.attrib), text=e.text, nsmap=decl if top else None)
        n.attrs["tail"] = e.tail
        for k in e:
            append(n, conv(k, False))
        return n
    r = conv(root, True)
    r.attrs["tail"] = None
    attach_nsmap(r)
    return r

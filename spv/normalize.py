"""Source-level normalisation applied before the structural (CFG / affine / bit-window) rules, so that a rule is
about what a function does and not about how its text is cut into helpers.

``inline_helpers(prog, fi)`` returns a FuncInfo whose body is a copy of ``fi``'s with

* calls of small repository helpers *inlined*  (``self._check(n)`` / ``buf = _fill(buf, pos, n, read)``): only
  statement-level calls (``Expr`` or single-target ``Assign``) of a function defined in the same module or a method
  of the same class, that is not a generator, not recursive, takes plain parameters and whose only ``return <value>``
  (if any) is its last statement.  Parameters the helper never re-binds are substituted by the argument expressions
  when those are side-effect free names/constants/attribute chains/arithmetic; every other parameter and every
  helper local gets a fresh name and an explicit binding.  Inlined statements carry the line number of the call site.
* ``q, r = divmod(a, b)`` split into ``q = a // b`` and ``r = a % b`` (a, b pure).

Anything outside that vocabulary is left untouched (the structural rule then reports UNKNOWN, never a violation).
"""
from __future__ import annotations

import ast
import copy
import dataclasses
from typing import Dict, List, Optional

from .astutil import dotted, root_name
from .program import FuncInfo, Program

MAX_HELPER_STMTS = 40


def _pure(e: ast.AST) -> bool:
    """Side-effect free and cheap to duplicate: names, constants, attribute chains, arithmetic, len()."""
    for n in ast.walk(e):
        if isinstance(n, (ast.Name, ast.Constant, ast.Attribute, ast.BinOp, ast.UnaryOp, ast.operator, ast.unaryop,
                          ast.expr_context, ast.Tuple)):
            continue
        if isinstance(n, ast.Call) and isinstance(n.func, ast.Name) and n.func.id == "len" and len(n.args) == 1:
            continue
        return False
    return True


def _stores(node: ast.AST) -> set:
    out = set()
    for n in ast.walk(node):
        if isinstance(n, ast.Name) and isinstance(n.ctx, (ast.Store, ast.Del)):
            out.add(n.id)
        elif isinstance(n, (ast.FunctionDef, ast.AsyncFunctionDef, ast.ClassDef)):
            out.add(n.name)
        elif isinstance(n, ast.ExceptHandler) and n.name:
            out.add(n.name)
    return out


def _resolve(prog: Program, fi: FuncInfo, call: ast.Call) -> Optional[FuncInfo]:
    f = call.func
    if isinstance(f, ast.Name):
        if fi.parent is not None or any(f.id == x for x in _stores(fi.node)):
            pass
        cand = prog.func_opt(f"{fi.relpath}::{f.id}")
        return cand
    if isinstance(f, ast.Attribute) and isinstance(f.value, ast.Name) and fi.cls is not None and fi.params \
            and f.value.id == fi.params[0] and not fi.is_static:
        m = prog.resolve_method(fi.cls.name, f.attr)
        if m is not None and not m.is_property and not m.is_static and not m.is_classmethod and not fi.is_classmethod:
            return m
    # ClassName.helper(...) where helper is a static or class method of a program class
    if isinstance(f, ast.Attribute) and isinstance(f.value, ast.Name) and f.value.id in prog.classes \
            and f.value.id not in _stores(fi.node) and f.value.id not in fi.params:
        m = prog.resolve_method(f.value.id, f.attr)
        if m is not None and (m.is_static or m.is_classmethod) and not m.is_property:
            return m
    return None


def _inlinable(h: FuncInfo) -> Optional[str]:
    node = h.node
    if not isinstance(node, ast.FunctionDef):
        return "not a plain def"
    if set(h.decorators) - {"staticmethod", "classmethod"}:
        return "decorated"
    a = node.args
    if a.vararg or a.kwarg or a.posonlyargs:
        return "star / positional-only parameters"
    body = [s for s in node.body if not (isinstance(s, ast.Expr) and isinstance(s.value, ast.Constant)
                                         and isinstance(s.value.value, str))]
    n_stmts = sum(1 for s in ast.walk(node) if isinstance(s, ast.stmt))
    if n_stmts > MAX_HELPER_STMTS:
        return "too large"
    for n in ast.walk(node):
        if isinstance(n, (ast.Yield, ast.YieldFrom, ast.Await, ast.Global, ast.Nonlocal, ast.Lambda)) or \
                (isinstance(n, (ast.FunctionDef, ast.AsyncFunctionDef, ast.ClassDef)) and n is not node):
            return "generator / nested scope"
    rets = [n for n in ast.walk(node) if isinstance(n, ast.Return)]
    for r in rets:
        if not (body and r is body[-1]):
            return "return that is not the last statement"
    return None


def _may_mutate(body: List[ast.stmt]) -> bool:
    """Could the helper body change what an attribute / len() argument expression evaluates to?"""
    def scan(n, in_raise):
        if isinstance(n, (ast.Attribute, ast.Subscript)) and isinstance(n.ctx, (ast.Store, ast.Del)):
            return True
        if isinstance(n, ast.Call) and not in_raise and \
                not (isinstance(n.func, ast.Name) and n.func.id in ("len", "int", "isinstance", "min", "max", "abs")):
            return True
        return any(scan(c, in_raise or isinstance(n, ast.Raise)) for c in ast.iter_child_nodes(n))
    return any(scan(s, False) for s in body)


class _Subst(ast.NodeTransformer):
    def __init__(self, mapping: Dict[str, ast.AST]):
        self.mapping = mapping

    def visit_Name(self, n: ast.Name):
        if n.id in self.mapping:
            new = copy.deepcopy(self.mapping[n.id])
            if isinstance(new, ast.Name):
                new.ctx = n.ctx
            elif not isinstance(n.ctx, ast.Load):
                raise _NoInline("store to a substituted parameter")
            return new
        return n


class _NoInline(Exception):
    pass


def _relocate(nodes: List[ast.AST], at: ast.AST):
    for top in nodes:
        for n in ast.walk(top):
            if hasattr(n, "lineno") or isinstance(n, (ast.expr, ast.stmt)):
                n.lineno = at.lineno
                n.end_lineno = getattr(at, "end_lineno", at.lineno)
                n.col_offset = at.col_offset
                n.end_col_offset = getattr(at, "end_col_offset", at.col_offset)


class _Inliner:
    def __init__(self, prog: Program, fi: FuncInfo, depth: int):
        self.prog, self.fi, self.depth = prog, fi, depth
        self.k = 0
        self.inlined: List[str] = []
        self.skipped: List[str] = []

    def block(self, body: List[ast.stmt], stack: tuple) -> List[ast.stmt]:
        out: List[ast.stmt] = []
        for st in body:
            for fld in ("body", "orelse", "finalbody"):
                sub = getattr(st, fld, None)
                if isinstance(sub, list) and sub and isinstance(sub[0], ast.stmt):
                    setattr(st, fld, self.block(sub, stack))
            if isinstance(st, ast.Try):
                for h in st.handlers:
                    h.body = self.block(h.body, stack)
            rep = self.stmt(st, stack)
            out.extend(rep if rep is not None else [st])
        return out

    def stmt(self, st: ast.stmt, stack: tuple) -> Optional[List[ast.stmt]]:
        dm = _split_divmod(st)
        if dm is not None:
            return dm
        if isinstance(st, ast.For):
            return self.unroll(st)
        call = target = None
        if isinstance(st, ast.Expr) and isinstance(st.value, ast.Call):
            call = st.value
        elif isinstance(st, ast.Assign) and len(st.targets) == 1 and isinstance(st.value, ast.Call) and \
                isinstance(st.targets[0], (ast.Name, ast.Tuple)):
            call, target = st.value, st.targets[0]
        elif isinstance(st, ast.AnnAssign) and isinstance(st.value, ast.Call) and isinstance(st.target, ast.Name):
            call, target = st.value, st.target
        if call is None:
            return None
        h = _resolve(self.prog, self.fi, call)
        if h is None or h.key == self.fi.key or h.key in stack or len(stack) >= self.depth:
            return None
        why = _inlinable(h)
        if why:
            self.skipped.append(f"{h.key}: {why}")
            return None
        try:
            rep = self.expand(st, call, target, h, stack)
        except _NoInline as e:
            self.skipped.append(f"{h.key}: {e}")
            return None
        self.inlined.append(h.key)
        return rep

    def unroll(self, st: ast.For) -> Optional[List[ast.stmt]]:
        """`for a, b in ((x, 1), (y, 2)): body`  ->  body[a:=x, b:=1]; body[a:=y, b:=2]   (literal table, pure cells,
        no break/continue/else, loop variables and cell names not re-bound in the body)."""
        if st.orelse or any(isinstance(n, (ast.Break, ast.Continue)) for b in st.body for n in ast.walk(b)):
            return None
        it = st.iter
        if isinstance(it, ast.Name):
            from .extract import single_def
            v = single_def(self.fi, it.id)
            if v is None:
                m = self.prog.modules.get(self.fi.relpath) if hasattr(self.prog, "modules") else None
                v = getattr(m, "consts", {}).get(it.id) if m is not None else None
            it = v
        if not isinstance(it, (ast.Tuple, ast.List)) or not (1 <= len(it.elts) <= 16):
            return None
        if isinstance(st.target, ast.Name):
            names = [st.target.id]
            rows = [[e] for e in it.elts]
        elif isinstance(st.target, ast.Tuple) and all(isinstance(e, ast.Name) for e in st.target.elts):
            names = [e.id for e in st.target.elts]
            rows = []
            for e in it.elts:
                if not isinstance(e, (ast.Tuple, ast.List)) or len(e.elts) != len(names):
                    return None
                rows.append(list(e.elts))
        else:
            return None
        written = set()
        for b in st.body:
            written |= _stores(b)
        if written & set(names):
            return None
        for row in rows:
            for c in row:
                if not _pure(c) or ({n.id for n in ast.walk(c) if isinstance(n, ast.Name)} & written):
                    return None
        out: List[ast.stmt] = []
        for row in rows:
            sub = _Subst(dict(zip(names, row)))
            try:
                out.extend(sub.visit(copy.deepcopy(b)) for b in st.body)
            except _NoInline:
                return None
        for s_ in out:
            ast.fix_missing_locations(s_)
        self.inlined.append(f"unrolled for-loop over {len(rows)} literal rows at line {st.lineno}")
        return out

    def expand(self, st, call: ast.Call, target, h: FuncInfo, stack) -> List[ast.stmt]:
        self.k += 1
        pre = f"__i{self.k}_"
        node = copy.deepcopy(h.node)
        a = node.args
        names = [x.arg for x in a.args]
        defaults = dict(zip(names[len(names) - len(a.defaults):], a.defaults))
        kwnames = [x.arg for x in a.kwonlyargs]
        for n_, d_ in zip(kwnames, a.kw_defaults):
            if d_ is not None:
                defaults[n_] = d_
        actual: Dict[str, ast.AST] = {}
        args = list(call.args)
        if any(isinstance(x, ast.Starred) for x in args) or any(k.arg is None for k in call.keywords):
            raise _NoInline("star arguments")
        if isinstance(call.func, ast.Attribute) and not h.is_static:   # bound / class method: receiver is the first parameter
            args = [call.func.value] + args
        if len(args) > len(names):
            raise _NoInline("too many positional arguments")
        for n_, v in zip(names, args):
            actual[n_] = v
        for k in call.keywords:
            if k.arg in actual or k.arg not in names + kwnames:
                raise _NoInline("keyword mismatch")
            actual[k.arg] = k.value
        for n_ in names + kwnames:
            if n_ not in actual:
                if n_ not in defaults:
                    raise _NoInline(f"missing argument {n_}")
                actual[n_] = defaults[n_]
        body = [s for s in node.body if not (isinstance(s, ast.Expr) and isinstance(s.value, ast.Constant)
                                             and isinstance(s.value.value, str))]
        ret = None
        if body and isinstance(body[-1], ast.Return):
            ret = body.pop().value
        written = set()
        for s in body:
            written |= _stores(s)
        mutates = _may_mutate(body)
        caller_locals = _stores(self.fi.node) | set(self.fi.params)
        mapping: Dict[str, ast.AST] = {}
        prologue: List[ast.stmt] = []
        ret_name = dotted(ret) if ret is not None else None
        for p, v in actual.items():
            free = {n.id for n in ast.walk(v) if isinstance(n, ast.Name)}
            flows_back = (p in written and isinstance(v, ast.Name) and isinstance(target, ast.Name)
                          and target.id == v.id and ret_name == p)
            heap = any(isinstance(n, ast.Call) or (isinstance(n, ast.Attribute) and (root_name(n) in caller_locals))
                       for n in ast.walk(v))
            if p not in written and _pure(v) and not (free & written) and not (heap and mutates):
                mapping[p] = v
            elif flows_back:
                mapping[p] = v
            else:
                fresh = pre + p
                mapping[p] = ast.Name(id=fresh, ctx=ast.Load())
                prologue.append(ast.Assign(targets=[ast.Name(id=fresh, ctx=ast.Store())], value=copy.deepcopy(v)))
        for loc in written - set(actual):
            mapping[loc] = ast.Name(id=pre + loc, ctx=ast.Load())
        sub = _Subst(mapping)
        new_body = [sub.visit(s) for s in body]
        epilogue: List[ast.stmt] = []
        if target is not None:
            val = sub.visit(ret) if ret is not None else ast.Constant(value=None)
            if not (isinstance(val, ast.Name) and isinstance(target, ast.Name) and val.id == target.id):
                epilogue.append(ast.Assign(targets=[copy.deepcopy(target)], value=val))
        rep = prologue + new_body + epilogue
        if not rep:
            rep = [ast.Pass()]
        _relocate(rep, st)
        for s in rep:
            ast.fix_missing_locations(s)
        # helpers of helpers
        saved = self.fi
        self.fi = dataclasses.replace(h)
        try:
            rep = self.block(rep, stack + (h.key,))
        finally:
            self.fi = saved
        return rep


def _split_divmod(st: ast.stmt) -> Optional[List[ast.stmt]]:
    if isinstance(st, ast.Assign) and len(st.targets) == 1 and isinstance(st.targets[0], ast.Tuple) and \
            len(st.targets[0].elts) == 2 and all(isinstance(e, ast.Name) for e in st.targets[0].elts) and \
            isinstance(st.value, ast.Call) and isinstance(st.value.func, ast.Name) and st.value.func.id == "divmod" and \
            len(st.value.args) == 2 and not st.value.keywords and all(_pure(x) for x in st.value.args):
        q, r = st.targets[0].elts
        a, b = st.value.args
        used = {n.id for x in (a, b) for n in ast.walk(x) if isinstance(n, ast.Name)}
        if q.id in used:
            return None
        s1 = ast.Assign(targets=[copy.deepcopy(q)], value=ast.BinOp(left=copy.deepcopy(a), op=ast.FloorDiv(), right=copy.deepcopy(b)))
        s2 = ast.Assign(targets=[copy.deepcopy(r)], value=ast.BinOp(left=copy.deepcopy(a), op=ast.Mod(), right=copy.deepcopy(b)))
        for s in (s1, s2):
            ast.copy_location(s, st)
            ast.fix_missing_locations(s)
        return [s1, s2]
    return None


_CACHE: Dict[tuple, FuncInfo] = {}


def inline_helpers(prog: Program, fi: FuncInfo, depth: int = 2) -> FuncInfo:
    key = (id(prog), fi.key, depth)
    hit = _CACHE.get(key)
    if hit is not None and hit._spv_prog is prog:   # type: ignore[attr-defined]
        return hit
    node = copy.deepcopy(fi.node)
    inl = _Inliner(prog, fi, depth)
    node.body = inl.block(node.body, (fi.key,))
    new = dataclasses.replace(fi, node=node)
    new._spv_prog = prog                  # type: ignore[attr-defined]
    new.inlined = inl.inlined             # type: ignore[attr-defined]
    new.inline_skipped = inl.skipped      # type: ignore[attr-defined]
    _CACHE[key] = new
    return new

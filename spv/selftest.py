"""setup_cmd: validates the lemma base over one period, runs every positive control, prints the inventory."""
from __future__ import annotations


def lemma_base() -> int:
    """Each lemma of DESIGN 3.4 is periodic in its argument modulo 8; check one full period (and a bit more)."""
    n = 0
    for x in range(0, 64):
        assert 8 * (x // 8) + x % 8 == x; n += 1                     # L1
        assert 0 <= x % 8 <= 7; n += 1                               # L2
        assert x <= 8 * ((x + 7) // 8) <= x + 7; n += 1              # L3
        if x % 8 == 0:
            assert 8 * (x // 8) == x and 8 * ((x + 7) // 8) == x; n += 1   # L4
        pad = (8 - x % 8) % 8
        assert (x + pad) % 8 == 0 and 0 <= pad <= 7; n += 1          # L6
        for k in range(0, 5):
            assert (8 * k + x) // 8 == k + x // 8; n += 1            # L8
    for b in (b"", b"a", b"abcdef"):
        for i in range(0, 8):
            for j in range(i, 10):
                if i <= len(b):
                    assert len(b[i:j]) == min(j, len(b)) - i; n += 1  # L5
    return n


def selftest() -> int:
    from . import props
    from .core import Ctx, REFUTED
    from .program import Program
    n = lemma_base()
    print(f"lemma base: {n} instances validated over one period")
    bad = 0
    for pid in props.available():
        spec = props.load(pid)
        k = ok = 0
        if spec.controls:
            for name, files, expect in spec.controls():
                k += 1
                ctx = Ctx(Program(files), pid)
                try:
                    spec.check(ctx)
                except Exception:
                    pass
                if any(o.verdict == REFUTED and o.rule.startswith(expect) for o in ctx.obs):
                    ok += 1
                else:
                    bad += 1
                    print(f"  {pid}: positive control '{name}' NOT flagged by {expect}")
        print(f"{pid}: positive controls {ok}/{k}")
    try:
        inv = Program.from_repo().inventory()
        print(f"inventory of /repo: {inv}")
    except Exception as e:  # the repo may be absent at setup time; not an error of the framework
        print(f"inventory skipped: {e}")
    from .interp_stress import run as _stress
    ok_n, msgs = _stress()
    print(f"interpreter vs CPython on synthetic constructs: {ok_n} agree, {len(msgs)} differ")
    for m in msgs:
        print("  " + m)
        bad += 1
    print("selftest", "FAILED" if bad else "OK")
    return 1 if bad else 0

"""Statement-level control-flow graph for the statement kinds the package uses (DESIGN 3.3)."""
from __future__ import annotations

import ast
from typing import Dict, Iterable, List, Optional, Set, Tuple

from .core import Unsupported

Edge = Tuple[int, object]   # (target node id, label)  label: None | True | False | 'iter' | 'done' | 'exc'


class Node:
    __slots__ = ("id", "kind", "ast", "stmt")

    def __init__(self, id: int, kind: str, node: Optional[ast.AST], stmt: Optional[ast.stmt] = None):
        self.id = id
        self.kind = kind      # entry | exit | raise | stmt | test | for | with | handler
        self.ast = node       # the statement (stmt), the test expression (test), the For statement (for)
        self.stmt = stmt or (node if isinstance(node, ast.stmt) else None)

    @property
    def lineno(self):
        return getattr(self.ast, "lineno", None)

    def __repr__(self):
        txt = ""
        if self.ast is not None:
            try:
                txt = ast.unparse(self.ast).split("\n")[0][:60]
            except Exception:
                txt = type(self.ast).__name__
        return f"<{self.id}:{self.kind}@{self.lineno} {txt}>"


class CFG:
    def __init__(self, fn: ast.AST):
        self.fn = fn
        self.nodes: List[Node] = []
        self.succ: Dict[int, List[Edge]] = {}
        self.pred: Dict[int, List[Edge]] = {}
        self.entry = self._new("entry", None).id
        self.exit = self._new("exit", None).id          # normal return / fall off the end
        self.raise_exit = self._new("raise", None).id   # exception leaves the function
        self._loops: List[Tuple[int, list]] = []        # (continue target, break dangling list)
        self._handlers: List[List[int]] = []            # stack of handler entry ids for enclosing try
        body = fn.body if not isinstance(fn, ast.Lambda) else [ast.Return(value=fn.body)]
        dangling = self._block(body, [(self.entry, None)])
        for d in dangling:
            self._edge(d, self.exit)
        self.by_ast: Dict[int, Node] = {id(n.ast): n for n in self.nodes if n.ast is not None}

    # -------------------------------------------------------------- construction
    def _new(self, kind, node, stmt=None) -> Node:
        n = Node(len(self.nodes), kind, node, stmt)
        self.nodes.append(n)
        self.succ[n.id] = []
        self.pred[n.id] = []
        return n

    def _edge(self, src: Tuple[int, object], dst: int):
        s, lab = src
        self.succ[s].append((dst, lab))
        self.pred[dst].append((s, lab))

    def _link(self, dangling, dst: int):
        for d in dangling:
            self._edge(d, dst)

    def _exc_edges(self, nid: int):
        """A statement inside a try body may raise into any handler of the innermost try."""
        if self._handlers:
            for h in self._handlers[-1]:
                self._edge((nid, "exc"), h)

    def _block(self, stmts: Iterable[ast.stmt], dangling: list) -> list:
        for st in stmts:
            dangling = self._stmt(st, dangling)
        return dangling

    def _stmt(self, st: ast.stmt, dangling: list) -> list:
        if isinstance(st, (ast.FunctionDef, ast.AsyncFunctionDef, ast.ClassDef)):
            n = self._new("stmt", st)
            self._link(dangling, n.id)
            return [(n.id, None)]
        if isinstance(st, ast.If):
            t = self._new("test", st.test, st)
            self._link(dangling, t.id)
            self._exc_edges(t.id)
            out = self._block(st.body, [(t.id, True)])
            if st.orelse:
                out += self._block(st.orelse, [(t.id, False)])
            else:
                out.append((t.id, False))
            return out
        if isinstance(st, ast.While):
            t = self._new("test", st.test, st)
            self._link(dangling, t.id)
            self._exc_edges(t.id)
            brk: list = []
            self._loops.append((t.id, brk))
            body_out = self._block(st.body, [(t.id, True)])
            self._loops.pop()
            self._link(body_out, t.id)
            const_true = isinstance(st.test, ast.Constant) and bool(st.test.value) is True
            out = [] if const_true else [(t.id, False)]
            if st.orelse:
                out = self._block(st.orelse, out)
            return out + brk
        if isinstance(st, (ast.For, ast.AsyncFor)):
            it = self._new("for", st, st)
            self._link(dangling, it.id)
            self._exc_edges(it.id)
            brk = []
            self._loops.append((it.id, brk))
            body_out = self._block(st.body, [(it.id, "iter")])
            self._loops.pop()
            self._link(body_out, it.id)
            out = [(it.id, "done")]
            if st.orelse:
                out = self._block(st.orelse, out)
            return out + brk
        if isinstance(st, ast.Break):
            n = self._new("stmt", st)
            self._link(dangling, n.id)
            if not self._loops:
                raise Unsupported("break outside loop")
            self._loops[-1][1].append((n.id, None))
            return []
        if isinstance(st, ast.Continue):
            n = self._new("stmt", st)
            self._link(dangling, n.id)
            if not self._loops:
                raise Unsupported("continue outside loop")
            self._edge((n.id, None), self._loops[-1][0])
            return []
        if isinstance(st, ast.Return):
            n = self._new("stmt", st)
            self._link(dangling, n.id)
            self._exc_edges(n.id)
            self._edge((n.id, None), self.exit)
            return []
        if isinstance(st, ast.Raise):
            n = self._new("stmt", st)
            self._link(dangling, n.id)
            if self._handlers:
                for h in self._handlers[-1]:
                    self._edge((n.id, "exc"), h)
                # it may also not be caught by any handler
            self._edge((n.id, "exc"), self.raise_exit)
            return []
        if isinstance(st, ast.Try) or (hasattr(ast, "TryStar") and isinstance(st, getattr(ast, "TryStar"))):
            if st.finalbody:
                for sub in ast.walk(st):
                    if isinstance(sub, (ast.Return, ast.Break, ast.Continue)):
                        raise Unsupported("try/finally with jumps")
            hentries = []
            hnodes = []
            for h in st.handlers:
                hn = self._new("handler", h)
                hentries.append(hn.id)
                hnodes.append(hn)
            # entering the try
            self._handlers.append(hentries)
            body_out = self._block(st.body, dangling)
            self._handlers.pop()
            if st.orelse:
                body_out = self._block(st.orelse, body_out)
            out = list(body_out)
            for h, hn in zip(st.handlers, hnodes):
                out += self._block(h.body, [(hn.id, None)])
            if st.finalbody:
                out = self._block(st.finalbody, out)
            return out
        if isinstance(st, (ast.With, ast.AsyncWith)):
            n = self._new("with", st, st)
            self._link(dangling, n.id)
            self._exc_edges(n.id)
            return self._block(st.body, [(n.id, None)])
        if hasattr(ast, "Match") and isinstance(st, ast.Match):
            # subject evaluated once, then the cases are tried in order: case --match--> body, --nomatch--> next case
            subj = self._new("stmt", ast.Expr(value=st.subject, lineno=st.lineno, col_offset=st.col_offset), st)
            self._link(dangling, subj.id)
            self._exc_edges(subj.id)
            cur = [(subj.id, None)]
            out = []
            for case in st.cases:
                case.lineno = case.pattern.lineno
                c = self._new("case", case, st)
                self._link(cur, c.id)
                self._exc_edges(c.id)
                out += self._block(case.body, [(c.id, "match")])
                irrefutable = case.guard is None and isinstance(case.pattern, ast.MatchAs) and case.pattern.pattern is None
                cur = [] if irrefutable else [(c.id, "nomatch")]
            return out + cur
        # simple statement
        n = self._new("stmt", st)
        self._link(dangling, n.id)
        self._exc_edges(n.id)
        return [(n.id, None)]

    # -------------------------------------------------------------- queries
    def node_of(self, a: ast.AST) -> Optional[Node]:
        return self.by_ast.get(id(a))

    def nodes_where(self, pred) -> List[Node]:
        return [n for n in self.nodes if pred(n)]

    def reachable(self, src: int, *, avoid: Optional[Set[int]] = None, skip_exc: bool = False) -> Set[int]:
        avoid = avoid or set()
        seen = set()
        stack = [src]
        while stack:
            n = stack.pop()
            if n in seen:
                continue
            seen.add(n)
            for t, lab in self.succ[n]:
                if t in avoid or (skip_exc and lab == "exc"):
                    continue
                stack.append(t)
        return seen

    def reachable_from_succ(self, src: int, **kw) -> Set[int]:
        out: Set[int] = set()
        avoid = kw.get("avoid") or set()
        for t, lab in self.succ[src]:
            if t in avoid or (kw.get("skip_exc") and lab == "exc"):
                continue
            out |= self.reachable(t, **kw)
        return out

    def must_pass(self, src: int, dst: int, through: Set[int], *, skip_exc: bool = True) -> bool:
        """Every path src ->+ dst passes through a node of ``through``."""
        return dst not in self.reachable_from_succ(src, avoid=set(through), skip_exc=skip_exc)

    def dominators(self, *, skip_exc: bool = True) -> Dict[int, Set[int]]:
        ids = [n.id for n in self.nodes]
        reach = self.reachable(self.entry, skip_exc=skip_exc)
        dom = {i: set(reach) for i in reach}
        dom[self.entry] = {self.entry}
        changed = True
        while changed:
            changed = False
            for i in ids:
                if i == self.entry or i not in reach:
                    continue
                preds = [p for p, lab in self.pred[i] if p in reach and not (skip_exc and lab == "exc")]
                if not preds:
                    continue
                new = set.intersection(*(dom[p] for p in preds)) | {i}
                if new != dom[i]:
                    dom[i] = new
                    changed = True
        return dom

    def path(self, src: int, dst: int, *, avoid: Optional[Set[int]] = None, skip_exc: bool = True,
             first_edge: Optional[Edge] = None) -> Optional[List[Tuple[int, object]]]:
        """Shortest path src ->+ dst as [(node, label of the edge taken out of it), ...] (dst not included)."""
        from collections import deque
        avoid = avoid or set()
        prev: Dict[int, Tuple[int, object, bool]] = {}
        q = deque()
        starts = [first_edge] if first_edge is not None else \
            [e for e in self.succ[src] if not (skip_exc and e[1] == "exc")]
        for t, lab in starts:
            if t in avoid or t in prev:
                continue
            prev[t] = (src, lab, True)
            q.append(t)
        while q:
            n = q.popleft()
            if n == dst:
                break
            for t, lab in self.succ[n]:
                if t in prev or t in avoid or (skip_exc and lab == "exc"):
                    continue
                prev[t] = (n, lab, False)
                q.append(t)
        if dst not in prev:
            return None
        out = []
        n = dst
        while True:
            p, lab, root = prev[n]
            out.append((p, lab))
            if root:
                break
            n = p
        out.reverse()
        return out

    def describe_path(self, path: List[Tuple[int, object]], relpath: str = "") -> List[str]:
        out = []
        for nid, lab in path:
            n = self.nodes[nid]
            if n.ast is None:
                continue
            try:
                txt = ast.unparse(n.ast).split("\n")[0][:70]
            except Exception:
                txt = n.kind
            out.append(f"{relpath}:{n.lineno} {txt}" + (f"  [{lab}]" if lab is not None else ""))
        return out

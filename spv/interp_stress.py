"""Differential self-test of the abstract interpreter: small synthetic functions (never the repository) are interpreted
from source and executed by CPython; the results must agree.  Run by `./check --selftest`."""
import warnings
from .program import Program
from .models import make_interp
from .interp import Raised
from .core import Unsupported

CASES = {
 "property setter validates": "class P:\n    _v = 0\n    @property\n    def v(self):\n        return self._v\n    @v.setter\n    def v(self, x):\n        if x > 10:\n            raise ValueError('big')\n        self._v = x\ndef f(a, b):\n    p = P()\n    p.v = 3\n    p.v += 4\n    out = [p.v, p._v, 'v' in p.__dict__]\n    try:\n        p.v += 9\n    except ValueError as e:\n        out.append(str(e))\n    return out, p.v\n",
 "property() assignment form": "class P:\n    def __init__(self):\n        self._v = 1\n    def _g(self):\n        return self._v * 2\n    def _s(self, x):\n        self._v = x + 1\n    v = property(_g, _s)\ndef f(a, b):\n    p = P()\n    p.v = 5\n    return p.v, p._v\n",
 "read-only property assignment": "class P:\n    @property\n    def v(self):\n        return 1\ndef f(a, b):\n    p = P()\n    try:\n        p.v = 2\n    except AttributeError:\n        return 'ro', p.v\n    return 'set', p.v\n",
 "setter inherited, data descriptor beats instance dict": "class B:\n    @property\n    def v(self):\n        return self.__dict__.get('_v', 7)\n    @v.setter\n    def v(self, x):\n        self.__dict__['_v'] = x * 2\nclass C(B):\n    pass\ndef f(a, b):\n    c = C()\n    r0 = c.v\n    c.v = 4\n    return r0, c.v\n",
 "dataclass field(compare=False) / init=False": "from dataclasses import dataclass, field\n@dataclass\nclass P:\n    a: int\n    note: str = field(default='', compare=False)\n    n: int = field(default=7, init=False)\n    tags: list = field(default_factory=list)\ndef f(a, b):\n    x, y = P(1, 'x'), P(1, 'y')\n    out = [x == y, P(1) == P(2), x.n, x.tags is y.tags]\n    try:\n        P(1, 'x', 3, [])\n    except TypeError:\n        out.append('TypeError')\n    return out\n",
 "dataclass(eq=False) compares by identity": "from dataclasses import dataclass\n@dataclass(eq=False)\nclass P:\n    a: int\ndef f(a, b):\n    x = P(1)\n    return x == P(1), x == x\n",
 "vars() is the live instance dict": "class P:\n    def __init__(self):\n        self.a = 1\n    def norm(self):\n        d = vars(self)\n        d['a'] = d['a'] + 1\n        d['b'] = 5\n        return sorted(d)\ndef f(a, b):\n    p = P()\n    return p.norm(), p.a, p.b\n",
 "method alias in class body": "import copy\nclass P:\n    def __init__(self, v):\n        self.v = v\n    def clone(self):\n        return type(self)(self.v + 1)\n    __copy__ = clone\ndef f(a, b):\n    p = P(1)\n    return p.__copy__().v, copy.copy(p).v\n",
 "any/all/next over a generator expression are lazy": "LOG = []\ndef t(x):\n    LOG.append(x)\n    if x == 9:\n        raise KeyError(x)\n    return x > 0\ndef f(a, b):\n    r1 = any(t(x) for x in [0, 1, 9])\n    r2 = all(t(x) for x in [1, 0, 9])\n    r3 = next((x for x in [5, 9] if t(x)), None)\n    r4 = next((x for x in [] if t(x)), 'none')\n    r5 = any(t(x) for x in []) or all(t(x) for x in [])\n    return r1, r2, r3, r4, r5, list(LOG)\n",
 "repr/str/f-string of program objects": "class P:\n    def __init__(self, a):\n        self.a = a\n    def __repr__(self):\n        return f'P({self.a})'\nclass Q(P):\n    def __str__(self):\n        return 'q' + str(self.a)\ndef f(a, b):\n    d = {}\n    d[repr(P(1))] = 1\n    d[repr(P(1))] = 2\n    return d, str(P(2)), str(Q(3)), repr(Q(3)), f'{P(4)} {Q(5)} {Q(6)!r}'\n",
 "missing attribute of a built-in value": "def f(a, b):\n    out = []\n    for v in ([1, 2], (1,), {'a': 1}, 'x', b'y', 3, None):\n        try:\n            v.sequence_count\n        except AttributeError:\n            out.append(type(v).__name__)\n    return out\n",
 "itertools.chain": "import itertools\ndef f(a, b):\n    return list(itertools.chain(a, b))\n",
 "chain.from_iterable": "import itertools\ndef f(a, b):\n    return list(itertools.chain.from_iterable([a, b]))\n",
 "enumerate start": "def f(a, b):\n    return [(i, x) for i, x in enumerate(a, start=1)]\n",
 "zip strict": "def f(a, b):\n    return list(zip(a, b, strict=False))\n",
 "dict union": "def f(a, b):\n    return {'x': 1} | {'y': 2}\n",
 "fstring =": "def f(a, b):\n    x = 3\n    return f'{x=}'\n",
 "attrgetter": "import operator\ndef f(a, b):\n    return sorted(a, key=operator.itemgetter(0))\n",
 "Counter": "import collections\ndef f(a, b):\n    return dict(collections.Counter(x[0] for x in a))\n",
 "deque": "import collections\ndef f(a, b):\n    d = collections.deque(a)\n    d.append(1)\n    return list(d)\n",
 "suppress": "import contextlib\ndef f(a, b):\n    with contextlib.suppress(KeyError):\n        return {}['k']\n    return 5\n",
 "partial": "import functools\ndef g(x, y):\n    return x + y\ndef f(a, b):\n    return functools.partial(g, 1)(2)\n",
 "lru_cache helper": "import functools\n@functools.lru_cache(maxsize=None)\ndef g(x):\n    return x * 2\ndef f(a, b):\n    return g(4)\n",
 "lru_cache key semantics": "import functools\nCALLS = []\n@functools.lru_cache(maxsize=None)\ndef g(x, y=0):\n    CALLS.append(x)\n    return [x]\ndef f(a, b):\n    r1 = g(1); r2 = g(1.0); r3 = g(True); r4 = g(2); r5 = g(1, y=0); r6 = g(1, 0)\n    return (r1 is r2, r2 is r3, r1 is r4, r1 is r5, r5 is r6, len(CALLS))\n",
 "module-level dict cache": "_CACHE = {}\ndef g(x):\n    if x not in _CACHE:\n        _CACHE[x] = [x]\n    return _CACHE[x]\ndef f(a, b):\n    return g(1) is g(1.0), g(2) is g(3), len(_CACHE)\n",
 "class-level cache": "class P:\n    _seen = {}\n    def get(self, k):\n        return self._seen.setdefault(k, [k])\ndef f(a, b):\n    return P().get(1) is P().get(True), len(P._seen)\n",
 "cached_property once": "import functools\nclass P:\n    def __init__(self):\n        self.n = 0\n    @functools.cached_property\n    def v(self):\n        self.n += 1\n        return self.n\ndef f(a, b):\n    p = P()\n    return p.v, p.v, p.n, P().v\n",
 "generator consumed twice": "def g():\n    yield 1\n    yield 2\ndef f(a, b):\n    it = g()\n    return [list(it), list(it), sum(x for x in [1, 2])]\n",
 "genexp single use / truthiness": "def f(a, b):\n    ge = (x * 2 for x in [])\n    m = map(str, [1, 2])\n    return [bool(ge), list(m), list(m), any(ge)]\n",
 "partial consumption then resume": "def g():\n    for i in range(5):\n        yield i\ndef f(a, b):\n    it = g()\n    out = []\n    for x in it:\n        if x == 1:\n            break\n    return [next(it), next(it, 'd'), list(it), next(it, 'end')]\n",
 "zip truncates / iterator reuse": "def f(a, b):\n    z = zip([1, 2, 3], 'ab')\n    first = list(z)\n    return first, list(z), dict(zip('xy', [1, 2, 3]))\n",
 "iter() on list is fresh, on iterator is itself": "def f(a, b):\n    l = [1, 2, 3]\n    i1 = iter(l); i2 = iter(l)\n    next(i1)\n    j = iter(i1)\n    return next(i2), next(j), next(i1)\n",
 "late-binding closure": "def f(a, b):\n    fs = []\n    for i in range(3):\n        fs.append(lambda: i)\n    return [g() for g in fs]\n",
 "mutable default argument": "def g(x, acc=[]):\n    acc.append(x)\n    return acc\ndef f(a, b):\n    g(1)\n    return list(g(2)), len(g(3, []))\n",
 "class-level mutable shared": "class P:\n    items = []\n    def add(self, x):\n        self.items.append(x)\ndef f(a, b):\n    p, q = P(), P()\n    p.add(1)\n    return q.items, P.items is p.items\n",
 "negative floor division and modulo": "def f(a, b):\n    return -7 // 2, -7 % 8, 7 // -2, divmod(-1, 8), int(-3.9), round(2.5), round(3.5), round(-0.5)\n",
 "slices out of range": "def f(a, b):\n    s = b'abcdef'\n    return s[10:], s[-0:], s[-2:], s[:-10], s[2:1], s[5], list(range(3))[-0:]\n",
 "bytes indexing and str of bytes": "def f(a, b):\n    s = b'AB'\n    return s[0], s[0:1], str(s), f'{s}', s.decode() + 'x', 'A' in 'AB', 65 in s\n",
 "strip charset / split variants": "def f(a, b):\n    return 'xxabcxx'.strip('x'), 'abcab'.strip('ab'), ' a  b '.split(), ' a  b '.split(' '), 'a.b'.lstrip('a.')\n",
 "is vs == small ints and None": "def f(a, b):\n    x = None\n    return x is None, x == None, 0 == False, 0 is False, '' == False, [] == False, 1.0 == 1\n",
 "operator precedence": "def f(a, b):\n    x, y = 6, 3\n    return not x == y, x & y == 2, -x ** 2, x or y and 0, 1 < x < 5, x | 1 == 7\n",
 "finally overrides return": "def g():\n    try:\n        return 1\n    finally:\n        return 2\ndef f(a, b):\n    return g()\n",
 "exception variable scope": "def f(a, b):\n    e = 'before'\n    try:\n        int('x')\n    except ValueError as e:\n        pass\n    try:\n        return e\n    except NameError:\n        return 'unbound'\n",
 "sort stability and key": "def f(a, b):\n    rows = [('b', 1), ('a', 1), ('c', 0)]\n    return sorted(rows, key=lambda r: r[1]), max(rows, key=lambda r: r[1]), min([], default=None)\n",
 "dict get eager default / setdefault": "def f(a, b):\n    calls = []\n    def mk():\n        calls.append(1)\n        return 0\n    d = {'k': 5}\n    v = d.get('k', mk())\n    w = d.setdefault('k', mk())\n    return v, w, len(calls)\n",
 "modify list while iterating": "def f(a, b):\n    l = [1, 2, 3, 4]\n    for x in l:\n        if x % 2 == 0:\n            l.remove(x)\n    return l\n",
 "shallow copy": "import copy\ndef f(a, b):\n    l = [[1], [2]]\n    s = copy.copy(l); d = copy.deepcopy(l); t = list(l)\n    l[0].append(9)\n    return s[0], d[0], t[0]\n",
 "bool is int / hash eq": "def f(a, b):\n    d = {1: 'a'}\n    d[True] = 'b'\n    d[1.0] = 'c'\n    return d, isinstance(True, int), sum([True, True])\n",
 "float formatting": "def f(a, b):\n    return f'{0.1 + 0.2}', str(1e16), repr(float('1e22')), '%g' % 1234567.0, f'{2.50:.1f}', f'{1/3:.3g}', int(2**53 + 1.0)\n",
 "namedtuple helpers": "import collections\nPt = collections.namedtuple('Pt', 'x y')\ndef f(a, b):\n    p = Pt(1, y=2)\n    q = p._replace(y=5)\n    return Pt._fields, p._asdict(), q.y, Pt._make([7, 8]).x, p == (1, 2)\n",
 "incremental decoder state": "import codecs\ndef f(a, b):\n    d = codecs.getincrementaldecoder('utf-16')()\n    one = d.decode(b'\\xfe\\xff\\x00A', True)\n    two = d.decode(b'\\xfe\\xff\\x00B', True)\n    return one, two, b'\\xff\\xfeA\\x00'.decode('utf-16'), b'\\x80'.decode('cp1252'), b'\\x80'.decode('latin-1')\n",
 "cache helper": "import functools\n@functools.cache\ndef g(x):\n    return x * 2\ndef f(a, b):\n    return g(4)\n",
 "reduce": "import functools, operator\ndef f(a, b):\n    return functools.reduce(operator.or_, [1, 2, 4], 0)\n",
 "global counter": "N = 0\ndef f(a, b):\n    global N\n    N += 1\n    return N\n",
 "try finally return": "def f(a, b):\n    try:\n        return 1\n    finally:\n        b.append(9)\n",
 "while else": "def f(a, b):\n    i = 0\n    while i < 3:\n        i += 1\n    else:\n        i = 10\n    return i\n",
 "nested fn nonlocal": "def f(a, b):\n    n = 0\n    def inc():\n        nonlocal n\n        n += 1\n    inc(); inc()\n    return n\n",
 "generator send-free": "def g(xs):\n    for x in xs:\n        yield x * 2\ndef f(a, b):\n    return sum(g([1, 2, 3]))\n",
 "yield from": "def g(xs):\n    yield from xs\n    yield 9\ndef f(a, b):\n    return list(g([1, 2]))\n",
 "star args call": "def g(*args, **kw):\n    return len(args) + len(kw)\ndef f(a, b):\n    return g(*[1, 2], **{'k': 1})\n",
 "kwonly default": "def g(x, *, y=2):\n    return x + y\ndef f(a, b):\n    return g(1) + g(1, y=5)\n",
 "posonly": "def g(x, /, y):\n    return x - y\ndef f(a, b):\n    return g(5, y=2)\n",
 "dict comp cond": "def f(a, b):\n    return {k: v for k, v in [(1, 2), (3, 4)] if k > 1}\n",
 "set ops": "def f(a, b):\n    return sorted({1, 2} & {2, 3} | {7})\n",
 "chained cmp": "def f(a, b):\n    x = 5\n    return 0 <= x <= 7 < 9\n",
 "ternary chain": "def f(a, b):\n    x = 5\n    return 'a' if x < 3 else 'b' if x < 6 else 'c'\n",
 "bytes methods": "def f(a, b):\n    return (b'ab' * 2).rjust(6, b'\\x00') + bytes(2) + bytes([1, 2]) + b'x'.ljust(2, b'-')\n",
 "int.from_bytes signed": "def f(a, b):\n    return int.from_bytes(b'\\xff\\xfe', 'big', signed=True)\n",
 "divmod/pow/abs/round": "def f(a, b):\n    return divmod(17, 5), pow(2, 10), abs(-3), round(2.5), min(3, 1), max([1, 9])\n",
 "memoryview": "def f(a, b):\n    return bytes(memoryview(b'abcd')[1:3])\n",
 "any/all gen": "def f(a, b):\n    return any(x > 2 for x in [1, 3]) and all(x for x in [1, 1])\n",
 "sorted reverse": "def f(a, b):\n    return sorted([3, 1, 2], reverse=True)\n",
 "str format": "def f(a, b):\n    return '{:04d}-{name}'.format(7, name='x') + '%d %s' % (1, 'a')\n",
 "isinstance tuple": "def f(a, b):\n    return isinstance(3, (int, float)) and not isinstance('s', (bytes, bytearray))\n",
 "enum IntEnum": "import enum\nclass E(enum.IntEnum):\n    A = 1\n    B = 2\ndef f(a, b):\n    return E(2) == E.B and E.A.value == 1 and E['A'] is E.A\n",
 "dataclass replace": "import dataclasses\n@dataclasses.dataclass\nclass P:\n    x: int\n    y: int = 2\ndef f(a, b):\n    return dataclasses.replace(P(1), y=5).y\n",
 "dataclass field default_factory": "import dataclasses\n@dataclasses.dataclass\nclass P:\n    xs: list = dataclasses.field(default_factory=list)\ndef f(a, b):\n    p = P(); p.xs.append(1); return P().xs\n",
 "class with property setter": "class P:\n    def __init__(self):\n        self._v = 1\n    @property\n    def v(self):\n        return self._v\n    @v.setter\n    def v(self, x):\n        self._v = x\ndef f(a, b):\n    p = P(); p.v = 7; return p.v\n",
 "staticmethod via instance": "class P:\n    @staticmethod\n    def g(x):\n        return x + 1\n    def h(self):\n        return self.g(1)\ndef f(a, b):\n    return P().h()\n",
 "class __call__": "class P:\n    def __call__(self, x):\n        return x * 3\ndef f(a, b):\n    return P()(2)\n",
 "class __len__/__iter__": "class P:\n    def __len__(self):\n        return 2\n    def __iter__(self):\n        return iter([1, 2])\ndef f(a, b):\n    return len(P()) + sum(P())\n",
 "class __getitem__": "class P:\n    def __getitem__(self, k):\n        return k * 2\ndef f(a, b):\n    return P()[4]\n",
 "class __contains__": "class P:\n    def __contains__(self, k):\n        return k == 1\ndef f(a, b):\n    return 1 in P() and 2 not in P()\n",
 "class __bool__": "class P:\n    def __bool__(self):\n        return False\ndef f(a, b):\n    return 1 if P() else 2\n",
 "slots class": "class P:\n    __slots__ = ('x',)\n    def __init__(self):\n        self.x = 1\ndef f(a, b):\n    return P().x\n",
 "typing.NamedTuple": "import typing\nclass NT(typing.NamedTuple):\n    a: int\n    b: int = 3\ndef f(a, b):\n    n = NT(1)\n    return n.a + n.b + n[0]\n",
 "match enum": "import enum\nclass E(enum.IntEnum):\n    A = 1\n    B = 2\ndef f(a, b):\n    match E.B:\n        case E.A:\n            return 'a'\n        case E.B | 7:\n            return 'b'\n        case _:\n            return 'c'\n",
 "match mapping": "def f(a, b):\n    match {'k': 1}:\n        case {'k': v}:\n            return v\n    return 0\n",
 "walrus comp": "def f(a, b):\n    return [y for x in [1, 2, 3] if (y := x * 2) > 2]\n",
 "lambda default": "def f(a, b):\n    fs = [lambda x, i=i: x + i for i in range(3)]\n    return [g(1) for g in fs]\n",
 "try except tuple as": "def f(a, b):\n    try:\n        return int('x')\n    except (KeyError, ValueError) as e:\n        return str(type(e).__name__)\n",
 "raise from": "def f(a, b):\n    try:\n        try:\n            {}['k']\n        except KeyError as e:\n            raise ValueError('bad') from e\n    except ValueError as e2:\n        return e2.args[0]\n",
 "assert msg": "def f(a, b):\n    assert a is not None, 'msg'\n    return 1\n",
 "del local": "def f(a, b):\n    x = 1\n    del x\n    return 2\n",
 "augassign attr/sub": "class P:\n    pass\ndef f(a, b):\n    p = P(); p.x = 1; p.x += 2\n    d = {'k': 1}; d['k'] += 5\n    l = [1]; l[0] *= 3\n    return p.x, d['k'], l[0]\n",
 "string methods": "def f(a, b):\n    return 'a,b'.split(',') + ['x'.join(['1', '2'])] + ['Ab'.lower().upper().strip()]\n",
 "bytes.fromhex/hex": "def f(a, b):\n    return bytes.fromhex('0a0b').hex()\n",
 "int bit_count": "def f(a, b):\n    return (5).bit_count() + (5).bit_length()\n",
 "math funcs": "import math\ndef f(a, b):\n    return math.ceil(2.1) + math.floor(2.9) + math.isnan(float('nan')) + math.ldexp(1.0, 3)\n",
 "bisect": "import bisect\ndef f(a, b):\n    return bisect.bisect_right([1, 2, 3], 2) + bisect.bisect_left([1, 2, 3], 2)\n",
 "getattr default": "def f(a, b):\n    return getattr(a, 'nope', 5)\n",
 "hasattr": "class P:\n    x = 1\ndef f(a, b):\n    return hasattr(P(), 'x') and not hasattr(P(), 'y')\n",
 "type(x) is": "def f(a, b):\n    return type(3) is int and type('s').__name__ == 'str'\n",
 "classmethod alt ctor": "class P:\n    def __init__(self, x):\n        self.x = x\n    @classmethod\n    def make(cls, x):\n        return cls(x + 1)\ndef f(a, b):\n    return P.make(1).x\n",
 "super().__init__ kw": "class A:\n    def __init__(self, x, *, y=1):\n        self.x, self.y = x, y\nclass B(A):\n    def __init__(self, x):\n        super().__init__(x, y=9)\ndef f(a, b):\n    return B(1).y\n",
 "abc abstract": "import abc\nclass A(abc.ABC):\n    @abc.abstractmethod\n    def g(self):\n        ...\nclass B(A):\n    def g(self):\n        return 4\ndef f(a, b):\n    return B().g()\n",
 "Ellipsis body/pass": "def g():\n    ...\ndef f(a, b):\n    return g()\n",
 "conditional import usage": "from typing import Optional, Union\ndef f(a: Optional[int], b: Union[int, str]) -> 'int':\n    x: int = 3\n    return x\n",
 "struct pack/unpack_from": "import struct\ndef f(a, b):\n    return struct.unpack_from('>H', b'\\x00\\x01\\x02', 1)[0] + struct.calcsize('>d')\n",
 "struct.Struct": "import struct\nS = struct.Struct('>H')\ndef f(a, b):\n    return S.unpack(b'\\x01\\x02')[0] + S.size\n",
 "module const table": "T = {1: 'a', 2: 'b'}\nU = tuple((k, v) for k, v in T.items())\ndef f(a, b):\n    return U[1][1] + T.get(1)\n",
 "nested dataclass eq": "import dataclasses\n@dataclasses.dataclass\nclass P:\n    x: int\ndef f(a, b):\n    return P(1) == P(1) and P(1) != P(2)\n",
 "reversed/range step": "def f(a, b):\n    return list(reversed(range(0, 10, 3)))\n",
 "list slicing assign": "def f(a, b):\n    l = [1, 2, 3, 4]\n    l[1:3] = [9]\n    return l\n",
 "multiple assignment": "def f(a, b):\n    x = y = 3\n    (p, q), r = (1, 2), 3\n    return x + y + p + q + r\n",
 "bool ops return value": "def f(a, b):\n    return (0 or 'x') + ('' or 'y') + (1 and 'z')\n",
 "is not / in tuple": "def f(a, b):\n    return (a is not None) + (3 in (1, 3)) + ('b' not in 'abc')\n",
 "int(str, base)": "def f(a, b):\n    return int('0x1f', 16) + int('101', 2) + int('0058', 16)\n",
 "logging getLogger": "import logging\nlogger = logging.getLogger(__name__)\ndef f(a, b):\n    logger.debug('x %s', 1)\n    logger.info(f'y {a}')\n    return 1\n",
 "warnings.warn category": "import warnings\ndef f(a, b):\n    warnings.warn('w', UserWarning, stacklevel=2)\n    return 1\n",
}


def run():
    ok, msgs = 0, []
    for name, src in CASES.items():
        prog = Program({"m.py": src})
        it = make_interp(prog, {})
        try:
            r = it.call(prog.func("m.py::f"), [[(1, 'a'), (0, 'b')], []], {})
            ns = {"__name__": "m"}
            with warnings.catch_warnings():
                warnings.simplefilter("ignore")
                exec(compile(src, "m", "exec"), ns)
                want = ns["f"]([(1, 'a'), (0, 'b')], [])
            if (r == want) or (repr(r) == repr(want)):
                ok += 1
            else:
                msgs.append(f"MISMATCH {name}: interpreter={r!r} CPython={want!r}")
        except Unsupported as e:
            msgs.append(f"UNSUPPORTED {name}: {e}")
        except Raised as e:
            msgs.append(f"RAISED {name}: {e.exc.tname} {e.exc.args}")
        except Exception as e:
            msgs.append(f"CRASH {name}: {type(e).__name__} {e}")
    return ok, msgs

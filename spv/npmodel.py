"""A very small model of numpy for code that uses it as an optional fast path over BYTES AND BITS (the library's only
hard dependency on numpy is xarr.py, which C18 models separately).  Arrays are one-dimensional lists of Python ints with a
dtype name; only operations whose semantics are reproduced exactly are offered, everything else is `not modelled`."""
from .core import Unsupported
from .interp import Obj


def _arr(vals, dtype):
    vals = list(vals)

    def getitem(key):
        if isinstance(key, slice):
            return _arr(vals[key], dtype)
        if isinstance(key, int):
            return vals[key]
        raise Unsupported("numpy indexing other than int / slice is not modelled")

    def tobytes():
        if dtype not in ("uint8", "bool"):
            raise Unsupported(f"tobytes of dtype {dtype} is not modelled")
        return bytes(int(v) for v in vals)
    return Obj(None, __nparray__=vals, dtype=dtype, __getitem__=getitem, __len__=lambda: len(vals), __iter__=vals,
               tobytes=tobytes, tolist=lambda: list(vals), size=len(vals), shape=(len(vals),), ndim=1)


def _vals(a):
    if isinstance(a, Obj) and "__nparray__" in a.attrs:
        return a.attrs["__nparray__"], a.attrs["dtype"]
    raise Unsupported("numpy function applied to something that is not a modelled array")


def frombuffer(buf, dtype=None, count=-1, offset=0):
    if dtype not in ("uint8", None) or count != -1:
        raise Unsupported("numpy.frombuffer other than dtype=uint8 is not modelled")
    if dtype is None:
        raise Unsupported("numpy.frombuffer with the default dtype (float64) is not modelled")
    return _arr(bytes(buf)[offset:], "uint8")


def unpackbits(a, axis=None, count=None, bitorder="big"):
    vals, dtype = _vals(a)
    if dtype != "uint8" or bitorder != "big" or count is not None:
        raise Unsupported("numpy.unpackbits: only uint8, big bit order")
    return _arr([(v >> (7 - i)) & 1 for v in vals for i in range(8)], "uint8")


def packbits(a, axis=None, bitorder="big"):
    vals, _ = _vals(a)
    if bitorder != "big":
        raise Unsupported("numpy.packbits: only big bit order")
    bits = [1 if v else 0 for v in vals]
    bits += [0] * ((8 - len(bits) % 8) % 8)          # numpy pads the LAST byte with zero bits at the end
    return _arr([int("".join(map(str, bits[i:i + 8])), 2) for i in range(0, len(bits), 8)], "uint8")


def module():
    return Obj(None, __extmodule__="numpy", uint8="uint8", frombuffer=frombuffer, unpackbits=unpackbits, packbits=packbits)

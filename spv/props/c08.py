"""C08 - calibration, enumeration and boolean derivation follow XTCE; raw value kept (DESIGN 5, C08).

Decision tables by abstract interpretation of the decoder sources over model packets:
R8.sel   context -> default -> raw selection for every subset of matching context calibrators (k <= 3) x default
         present/absent; calibrated results are FloatParameter(calibrated, raw), uncalibrated keep their class.
R8.enum  enumeration label from the *raw* value, unlisted -> ValueError; boolean = truthiness of the raw value.
R8.poly  polynomial = sum(coefficient * x**exponent) for dense, sparse and unordered term lists.
R8.spline order 0/1 over every ordering class of the query relative to 1..4 knots (below, each knot, each open
         interval, above) x extrapolate.
R8.pure  calibrators keep no state between calls (effect analysis).
"""
from __future__ import annotations

import itertools

from ..callgraph import CallGraph
from ..core import Ctx, PropSpec, Unsupported
from ..extract import where
from ..harness import Harness
from ..interp import Raised
from .c11 import effect_rule

ENC = "xtce/encodings.py"
CAL = "xtce/calibrators.py"
PT = "xtce/parameter_types.py"


def _poly(c0, c1=1.0):
    return f"calibrators.PolynomialCalibrator([calibrators.PolynomialCoefficient({c0!r}, 0), calibrators.PolynomialCoefficient({c1!r}, 1)])"


def selection(ctx: Ctx, h: Harness):
    fi = ctx.prog.func(f"{ENC}::NumericDataEncoding.parse_value")
    raw = 37
    for k in (0, 1, 2, 3):
        for has_default in (True, False):
            for encname, rawbytes, rawval, rawcls in (("IntegerDataEncoding(8, 'unsigned'", bytes([raw]), raw, "IntParameter"),
                                                      ("FloatDataEncoding(32", b"\x42\x14\x00\x00", 37.0, "FloatParameter")):
                site = f"{fi.key}::{encname.split('(')[0]}::contexts={k},default={has_default}"
                ctxs = ", ".join(f"calibrators.ContextCalibrator([comparisons.Comparison('1', 'M{i}')], {_poly(1000.0 * (i + 1))})"
                                 for i in range(k))
                src = (f"{encname}, default_calibrator={_poly(500.0) if has_default else 'None'}, "
                       f"context_calibrators=[{ctxs}]).parse_value(pkt)")
                bad = None
                try:
                    for bits in itertools.product((0, 1), repeat=k):
                        pkt = h.packet(rawbytes, {f"M{i}": h.val("Int", b) for i, b in enumerate(bits)})
                        kind, got = h.outcome(src, ENC, pkt=pkt)
                        first = next((i for i, b in enumerate(bits) if b), None)
                        if first is not None:
                            want, wcls = 1000.0 * (first + 1) + rawval, "FloatParameter"
                        elif has_default:
                            want, wcls = 500.0 + rawval, "FloatParameter"
                        else:
                            want, wcls = rawval, rawcls
                        ok = (kind == "ok" and getattr(got, "cls", None) == wcls and got == want
                              and got.attrs.get("raw_value") == rawval
                              and type(got.attrs.get("raw_value")).__mro__[-2] is type(rawval))
                        if ok and wcls == "FloatParameter" and not isinstance(got, float):
                            ok = False
                        if not ok:
                            desc = f"{got!r} ({getattr(got, 'cls', type(got).__name__)}, raw_value={getattr(got, 'attrs', {}).get('raw_value')!r})" \
                                if kind == "ok" else f"raises {got}"
                            bad = (f"raw {rawval!r}, context calibrators matching = {list(bits)}, default calibrator "
                                   f"{'present' if has_default else 'absent'}: result {desc}; XTCE gives {want!r} ({wcls}) "
                                   f"with raw_value {rawval!r}")
                            break
                except Unsupported as e:
                    ctx.unknown("R8.sel", site, str(e))
                    continue
                ctx.decide(bad is None, "R8.sel", site, f"{2 ** k} match subsets", bad or "", where=where(fi, fi.node))
    # a context with several criteria applies only when all of them hold (a comparison list is a conjunction)
    site = f"{fi.key}::conjunction"
    try:
        src = (f"IntegerDataEncoding(8, 'unsigned', context_calibrators=[calibrators.ContextCalibrator("
               f"[comparisons.Comparison('1', 'M0'), comparisons.Comparison('1', 'M1')], {_poly(1000.0)})]).parse_value(pkt)")
        bad = None
        for bits in itertools.product((0, 1), repeat=2):
            pkt = h.packet(bytes([raw]), {f"M{i}": h.val("Int", b) for i, b in enumerate(bits)})
            kind, got = h.outcome(src, ENC, pkt=pkt)
            want = 1000.0 + raw if all(bits) else raw
            if kind != "ok" or got != want:
                bad = f"context with criteria M0==1 and M1==1 under M={list(bits)} gives {got!r}, expected {want!r}"
        ctx.decide(bad is None, "R8.sel", site, "", bad or "", where=where(fi, fi.node))
    except Unsupported as e:
        ctx.unknown("R8.sel", site, str(e))
    # a calibrated result of exactly 0.0 is a calibrated result (a float), from the default and from a matching context calibrator
    for where_, src in (("default", f"IntegerDataEncoding(8, 'unsigned', default_calibrator={_poly(-37.0)}).parse_value(pkt)"),
                        ("matching context", f"IntegerDataEncoding(8, 'unsigned', default_calibrator={_poly(500.0)}, context_calibrators=["
                                             f"calibrators.ContextCalibrator([comparisons.Comparison('1', 'M0')], {_poly(-37.0)})]).parse_value(pkt)")):
        site = f"{fi.key}::{where_} calibrator yields exactly 0.0"
        try:
            kind, got = h.outcome(src, ENC, pkt=h.packet(bytes([raw]), {"M0": h.val("Int", 1)}))
            ok = kind == "ok" and getattr(got, "cls", None) == "FloatParameter" and isinstance(got, float) and got == 0.0 and got.attrs.get("raw_value") == raw
            ctx.decide(ok, "R8.sel", site, "FloatParameter 0.0", f"raw {raw} calibrated by x - 37 ({where_} calibrator): "
                       f"{'raises ' + str(got) if kind != 'ok' else repr(got) + ' (' + str(getattr(got, 'cls', type(got).__name__)) + ')'}; XTCE gives the float 0.0 with raw_value {raw}",
                       where=where(fi, fi.node))
        except Unsupported as e:
            ctx.unknown("R8.sel", site, str(e))
    # a calibrator that applies but cannot calibrate the value fails the parse: no silent fall-through to the default / raw value
    for where_, src in (
            ("matching context", f"IntegerDataEncoding(8, 'unsigned', default_calibrator={_poly(500.0)}, context_calibrators=[calibrators.ContextCalibrator("
                                 f"[comparisons.Comparison('1', 'M0')], calibrators.SplineCalibrator([calibrators.SplinePoint(40, 1.0), "
                                 f"calibrators.SplinePoint(50, 2.0)], order=1, extrapolate=False))]).parse_value(pkt)"),
            ("default", "IntegerDataEncoding(8, 'unsigned', default_calibrator=calibrators.SplineCalibrator([calibrators.SplinePoint(40, 1.0), "
                        "calibrators.SplinePoint(50, 2.0)], order=0, extrapolate=False)).parse_value(pkt)")):
        site = f"{fi.key}::{where_} spline cannot calibrate (raw outside its points, no extrapolation)"
        try:
            pkt = h.packet(bytes([raw]), {"M0": h.val("Int", 1)})
            kind, got = h.outcome(src, ENC, pkt=pkt)
            ctx.decide(kind == "raise" and got == "CalibrationError", "R8.sel", site, "CalibrationError",
                       f"raw {raw} lies outside the points (40..50) of the {where_} spline calibrator, extrapolation off: "
                       f"{'raises ' + str(got) if kind != 'ok' else 'result ' + repr(got)}; XTCE / the library contract: a calibration error",
                       where=where(fi, fi.node))
        except Unsupported as e:
            ctx.unknown("R8.sel", site, str(e))
    # the criteria of a context calibrator may reference the value being parsed (own raw value)
    site = f"{fi.key}::self-reference"
    try:
        src = (f"IntegerDataEncoding(8, 'unsigned', context_calibrators=[calibrators.ContextCalibrator("
               f"[comparisons.Comparison('0', 'SELF', use_calibrated_value=False)], {_poly(1000.0)})]).parse_value(pkt)")
        bad = None
        for rv in (0, 5):
            kind, got = h.outcome(src, ENC, pkt=h.packet(bytes([rv]), {}))
            want = 1000.0 if rv == 0 else 5
            if kind != "ok" or got != want or got.attrs.get("raw_value") != rv:
                bad = f"raw {rv}: context match on the own raw value == 0 gives {got!r}, expected {want!r}"
        ctx.decide(bad is None, "R8.sel", site, "", bad or "", where=where(fi, fi.node))
    except Unsupported as e:
        ctx.unknown("R8.sel", site, str(e))


def enum_bool(ctx: Ctx, h: Harness, RULE: str = "R8.enum"):
    fe = ctx.prog.func(f"{PT}::EnumeratedParameterType.parse_value")
    site = f"{fe.key}::label-from-raw"
    try:
        bad = None
        for cal in ("None", "encodings.calibrators.PolynomialCalibrator([encodings.calibrators.PolynomialCoefficient(1.0, 0), "
                            "encodings.calibrators.PolynomialCoefficient(1.0, 1)])"):
            src = (f"EnumeratedParameterType('E', encodings.IntegerDataEncoding(8, 'unsigned', default_calibrator={cal}), "
                   f"{{0: 'ZERO', 1: 'ONE', 2: 'TWO', 4: '', 5: '0'}}).parse_value(pkt)")
            for rv, want_lab in ((4, ""), (5, "0")):       # a listed value whose label is empty / looks false is still listed
                kind, got = h.outcome(src, PT, pkt=h.packet(bytes([rv]), {}))
                if not (kind == "ok" and got == want_lab and got.attrs.get("raw_value") == rv):
                    bad = f"listed raw value {rv} with label {want_lab!r}: {kind} {got!r}; expected the label {want_lab!r}"
            for rv in (0, 1, 2, 3):
                kind, got = h.outcome(src, PT, pkt=h.packet(bytes([rv]), {}))
                if rv == 3:
                    if not (kind == "raise" and got == "ValueError"):
                        bad = f"unlisted raw value 3 (calibrator {cal != 'None'}): {kind} {got!r}; must fail with ValueError"
                else:
                    want = ["ZERO", "ONE", "TWO"][rv]
                    if not (kind == "ok" and got == want and getattr(got, "cls", "") == "StrParameter"
                            and got.attrs.get("raw_value") == rv and not isinstance(got.attrs.get("raw_value"), float)):
                        bad = (f"raw {rv} (calibrator attached: {cal != 'None'}): label {got!r} raw_value "
                               f"{getattr(got, 'attrs', {}).get('raw_value')!r}; expected {want!r} with raw_value {rv}")
        ctx.decide(bad is None, RULE, site, "", bad or "", where=where(fe, fe.node))
    except Unsupported as e:
        ctx.unknown(RULE, site, str(e))
    # the raw value of an enumerated item is the value READ FROM THE PACKET, not the key it matched (keys that compare equal but are
    # distinguishable: -0.0 matches 0.0, 1 matches True)
    site = f"{fe.key}::raw value is the encoded value, not the matched key"
    try:
        bad = None
        k, got = h.outcome("EnumeratedParameterType('E', encodings.FloatDataEncoding(32), {0.0: 'OFF', 1.0: 'ON'}).parse_value(pkt)", PT,
                           pkt=h.packet(bytes.fromhex("80000000"), {}))
        rv = getattr(got, "attrs", {}).get("raw_value") if k == "ok" else None
        if not (k == "ok" and got == "OFF" and isinstance(rv, float) and repr(float(rv)) == "-0.0"):
            bad = f"float-encoded enumeration, field 0x80000000 (-0.0): {k} {got!r} raw_value {rv!r}; expected 'OFF' with raw_value -0.0 (the bits of the packet)"
        k, got = h.outcome("EnumeratedParameterType('E', encodings.IntegerDataEncoding(8, 'unsigned'), {False: 'NO', True: 'YES'}).parse_value(pkt)", PT,
                           pkt=h.packet(bytes([1]), {}))
        rv = getattr(got, "attrs", {}).get("raw_value") if k == "ok" else None
        if not bad and not (k == "ok" and got == "YES" and isinstance(rv, int) and not isinstance(rv, bool) and rv == 1):
            bad = f"integer-encoded enumeration keyed True/False, field 1: {k} {got!r} raw_value {rv!r}; expected 'YES' with the integer 1 as raw_value"
        ctx.decide(bad is None, RULE, site, "", bad or "", where=where(fe, fe.node))
    except Unsupported as e:
        ctx.unknown(RULE, site, str(e))
    # an enumeration as declared in a document: every listed value - negative, zero, and integers a double cannot hold - maps
    site = f"{PT}::EnumeratedParameterType.from_xml::declared values"
    try:
        from ..xmlmodel import make_elem
        from . import xmlcommon as X
        hx = X.harness(ctx.prog)
        X.set_ns_state(hx, None, {})
        listed = {9007199254740993: "BIG_ODD", 9007199254740992: "BIG_EVEN", 0: "ZERO", 18446744073709551615: "ALL_ONES", 7: "SEVEN"}
        el = make_elem("EnumeratedParameterType", {"name": "E"}, children=[
            make_elem("IntegerDataEncoding", {"sizeInBits": "64", "encoding": "unsigned"}),
            make_elem("EnumerationList", children=[make_elem("Enumeration", {"value": str(v), "label": lab}) for v, lab in listed.items()])])
        t = hx.ev("parameter_types.EnumeratedParameterType.from_xml(el)", "xtce/definitions.py", el=el)
        bad = None
        for rv, want in list(listed.items()) + [(9007199254740994, None)]:
            kind, got = hx.outcome("t.parse_value(pkt)", "xtce/definitions.py", t=t, pkt=hx.packet(rv.to_bytes(8, "big"), {}))
            if want is None:
                if not (kind == "raise" and got == "ValueError"):
                    bad = f"unlisted raw value {rv}: {kind} {got!r}; must fail with ValueError"
            elif not (kind == "ok" and got == want and got.attrs.get("raw_value") == rv):
                bad = f"declared <Enumeration value=\"{rv}\" label=\"{want}\">: raw {rv} gives {kind} {got!r}; expected the label {want!r}"
            if bad:
                break
        # negative listed values on every spelling of a signed encoding (built from objects and declared in a document)
        neg = {-1: "MINUS_ONE", 0: "ZERO", 127: "MAX", -128: "MIN"}
        for enc in ("signed", "twosComplement", "twosCompliment"):
            if bad:
                break
            el2 = make_elem("EnumeratedParameterType", {"name": "N"}, children=[
                make_elem("IntegerDataEncoding", {"sizeInBits": "8", "encoding": enc}),
                make_elem("EnumerationList", children=[make_elem("Enumeration", {"value": str(v), "label": lab}) for v, lab in neg.items()])])
            t_xml = hx.ev("parameter_types.EnumeratedParameterType.from_xml(el)", "xtce/definitions.py", el=el2)
            t_obj = hx.ev("parameter_types.EnumeratedParameterType('N', parameter_types.encodings.IntegerDataEncoding(8, enc), tab)",
                          "xtce/definitions.py", enc=enc, tab=dict(neg))
            for how, t2 in (("declared in a document", t_xml), ("built from objects", t_obj)):
                for rv, want in neg.items():
                    kind, got = hx.outcome("t.parse_value(pkt)", "xtce/definitions.py", t=t2, pkt=hx.packet(bytes([rv & 0xFF]), {}))
                    if not (kind == "ok" and got == want and got.attrs.get("raw_value") == rv):
                        bad = (f"8-bit `{enc}` enumeration {how} listing {rv} -> {want!r}: a field holding {rv} gives "
                               f"{'raises ' + str(got) if kind != 'ok' else repr(got)}; expected the label {want!r}")
                        break
                if bad:
                    break
        ctx.decide(bad is None, RULE, site, "", bad or "", where=where(fe, fe.node))
    except (Unsupported, Raised) as e:
        ctx.unknown(RULE, site, str(e))
    fb = ctx.prog.func(f"{PT}::BooleanParameterType.parse_value")
    site = f"{fb.key}::truthiness-of-raw"
    try:
        bad = None
        cal = ("encodings.calibrators.PolynomialCalibrator([encodings.calibrators.PolynomialCoefficient(-1.0, 0), "
               "encodings.calibrators.PolynomialCoefficient(1.0, 1)])")    # calibrated = raw - 1: truthiness differs at 0 and 1
        for c in ("None", cal):
            src = f"BooleanParameterType('B', encodings.IntegerDataEncoding(8, 'unsigned', default_calibrator={c})).parse_value(pkt)"
            for rv in (0, 1, 2):
                kind, got = h.outcome(src, PT, pkt=h.packet(bytes([rv]), {}))
                if not (kind == "ok" and getattr(got, "cls", "") == "BoolParameter" and int(got) == int(bool(rv))
                        and got.attrs.get("raw_value") == rv and not isinstance(got.attrs.get("raw_value"), float)):
                    bad = (f"raw {rv} (calibrator attached: {c != 'None'}): boolean {got!r} raw_value "
                           f"{getattr(got, 'attrs', {}).get('raw_value')!r}; expected {bool(rv)} with raw_value {rv}")
        ctx.decide(bad is None, RULE, site, "", bad or "", where=where(fb, fb.node))
    except Unsupported as e:
        ctx.unknown(RULE, site, str(e))


def polynomial(ctx: Ctx, h: Harness):
    fi = ctx.prog.func(f"{CAL}::PolynomialCalibrator.calibrate")
    families = {
        "dense": [(2.0, 0), (3.0, 1), (0.5, 2)], "sparse 0,2": [(2.0, 0), (3.0, 2)], "gain only": [(0.25, 1)],
        "sparse 1,3": [(1.5, 1), (-2.0, 3)], "unordered": [(3.0, 2), (2.0, 0), (1.0, 1)], "constant": [(7.0, 0)],
        "repeated exponent": [(1.0, 1), (2.0, 1)], "empty": [], "high": [(1.0, 5)], "int coefficients": [(2, 0), (3, 2)],
    }
    for name, terms in families.items():
        site = f"{fi.key}::{name}"
        src = "PolynomialCalibrator([" + ", ".join(f"PolynomialCoefficient({c!r}, {e})" for c, e in terms) + "]).calibrate(x)"
        bad = None
        try:
            for x in (0, 1, 2, -3, 0.5, 10):
                kind, got = h.outcome(src, CAL, x=x)
                want = sum(c * x ** e for c, e in terms)
                if kind != "ok" or abs(got - want) > 1e-9 * max(1.0, abs(want)):
                    bad = f"terms {terms} at x={x}: {got!r}, the polynomial's value is {want!r}"
                    break
        except Unsupported as e:
            ctx.unknown("R8.poly", site, str(e))
            continue
        ctx.decide(bad is None, "R8.poly", site, "", bad or "", where=where(fi, fi.node))
    # the same families declared in a document (<Term coefficient= exponent=>): what the loader builds evaluates alike
    from ..xmlmodel import make_elem
    from . import xmlcommon as X
    try:
        hx = X.harness(ctx.prog)
        X.set_ns_state(hx, None, {})
    except (Unsupported, Raised) as e:
        ctx.unknown("R8.poly", f"{fi.key}::declared", str(e))
        return
    for name in ("dense", "unordered", "repeated exponent", "sparse 1,3", "int coefficients"):
        terms = families[name]
        site = f"{CAL}::PolynomialCalibrator.from_xml::{name}"
        el = make_elem("PolynomialCalibrator", children=[make_elem("Term", {"coefficient": repr(c), "exponent": str(e)}) for c, e in terms])
        bad = None
        try:
            for x in (0, 1, 2, -3, 0.5, 10):
                kind, got = hx.outcome("calibrators.PolynomialCalibrator.from_xml(el).calibrate(x)", "xtce/encodings.py", el=el, x=x)
                want = sum(float(c) * x ** e for c, e in terms)
                if kind != "ok" or abs(got - want) > 1e-9 * max(1.0, abs(want)):
                    bad = f"<Term> list {terms} as declared in a document, at x={x}: {got!r}; the polynomial's value is {want!r}"
                    break
        except Unsupported as e:
            ctx.unknown("R8.poly", site, str(e))
            continue
        ctx.decide(bad is None, "R8.poly", site, "", bad or "", where=where(fi, fi.node))


def declared_spline(ctx: Ctx):
    """A spline as declared in a document: <SplinePoint raw= calibrated=> attributes may come in any order and may carry the
    optional `order` attribute; what the loader builds interpolates between the declared (raw, calibrated) pairs."""
    from ..xmlmodel import make_elem
    from . import xmlcommon as X
    fi = ctx.prog.func(f"{CAL}::SplineCalibrator.calibrate")
    pts = [(0.0, -50.0), (100.0, 0.0), (200.0, 50.0), (300.0, 100.0)]
    try:
        hx = X.harness(ctx.prog)
        X.set_ns_state(hx, None, {})
    except (Unsupported, Raised) as e:
        ctx.unknown("R8.spline", f"{CAL}::SplineCalibrator.from_xml", str(e))
        return
    spellings = {
        "raw first": lambda r, c: {"raw": str(r), "calibrated": str(c)},
        "calibrated first": lambda r, c: {"calibrated": str(c), "raw": str(r)},
        "with order attribute first": lambda r, c: {"order": "1", "calibrated": str(c), "raw": str(r)},
    }
    for name, mk in spellings.items():
        site = f"{CAL}::SplineCalibrator.from_xml::attributes {name}"
        el = make_elem("SplineCalibrator", {"order": "1", "extrapolate": "false"},
                       children=[make_elem("SplinePoint", mk(r, c)) for r, c in pts])
        bad = None
        try:
            for q, want in ((0, -50.0), (50, -25.0), (100, 0.0), (250, 75.0), (300, 100.0)):
                k, got = hx.outcome("calibrators.SplineCalibrator.from_xml(el).calibrate(q)", "xtce/encodings.py", el=el, q=q)
                if k != "ok" or abs(got - want) > 1e-9:
                    bad = f"<SplinePoint> attributes written {name}: calibrate({q}) gives {('raises ' + str(got)) if k != 'ok' else repr(got)}; the declared points give {want}"
                    break
        except Unsupported as e:
            ctx.unknown("R8.spline", site, str(e))
            continue
        ctx.decide(bad is None, "R8.spline", site, "", bad or "", where=where(fi, fi.node))


    # the extrapolate attribute is an xs:boolean: true | false | 1 | 0 (absent = false)
    for attr, extrap in ((None, False), ("true", True), ("false", False), ("1", True), ("0", False)):
        site = f"{CAL}::SplineCalibrator.from_xml::extrapolate={attr!r}"
        a = {"order": "1"}
        if attr is not None:
            a["extrapolate"] = attr
        el = make_elem("SplineCalibrator", a, children=[make_elem("SplinePoint", {"raw": str(r), "calibrated": str(c)}) for r, c in pts])
        try:
            k, got = hx.outcome("calibrators.SplineCalibrator.from_xml(el).calibrate(q)", "xtce/encodings.py", el=el, q=400)
            ok = (k == "ok" and abs(got - 150.0) < 1e-9) if extrap else (k == "raise" and got == "CalibrationError")
            ctx.decide(ok, "R8.spline", site, "", f"<SplineCalibrator extrapolate={attr!r}>: calibrate(400) beyond the last point (300) "
                       f"{'raises ' + str(got) if k != 'ok' else 'gives ' + repr(got)}; the document "
                       f"{'enables extrapolation (150.0)' if extrap else 'does not enable extrapolation (CalibrationError)'}", where=where(fi, fi.node))
        except Unsupported as e:
            ctx.unknown("R8.spline", site, str(e))


def _spline_expected(xs, ys, q, order, extrapolate):
    if q < xs[0] or q > xs[-1]:
        if not extrapolate:
            return ("raise", "CalibrationError")
        if order == 0:
            return ("ok", ys[0] if q < xs[0] else ys[-1])
        if len(xs) < 2:
            return ("skip", None)
        if q < xs[0]:
            x0, x1, y0, y1 = xs[0], xs[1], ys[0], ys[1]
        else:
            x0, x1, y0, y1 = xs[-2], xs[-1], ys[-2], ys[-1]
        return ("ok", y0 + (y1 - y0) / (x1 - x0) * (q - x0))
    if q == xs[-1]:
        return ("ok", ys[-1])
    i = max(j for j in range(len(xs)) if xs[j] <= q)
    if order == 0:
        return ("ok", ys[i])
    return ("ok", ys[i] + (ys[i + 1] - ys[i]) / (xs[i + 1] - xs[i]) * (q - xs[i]))


def spline(ctx: Ctx, h: Harness):
    fi = ctx.prog.func(f"{CAL}::SplineCalibrator.calibrate")
    allx = [0.0, 10.0, 20.0, 30.0]
    ally = [5.0, 7.0, 100.0, 40.0]
    for m in (1, 2, 3, 4):
        xs, ys = allx[:m], ally[:m]
        # every ordering class of the query: below, each knot, each open interval (two points), above
        qs = [xs[0] - 4.0] + [x for x in xs] + [xs[i] + d for i in range(m - 1) for d in (2.5, 9.0)] + [xs[-1] + 4.0]
        order_in = list(reversed(range(m)))          # constructor input deliberately unsorted
        pts = ", ".join(f"SplinePoint({xs[i]!r}, {ys[i]!r})" for i in order_in)
        for order in (0, 1):
            for extrap in (True, False):
                site = f"{fi.key}::knots={m},order={order},extrapolate={extrap}"
                src = f"SplineCalibrator([{pts}], order={order}, extrapolate={extrap}).calibrate(q)"
                bad = None
                try:
                    for q in qs:
                        for qq in ((q, int(q)) if float(q).is_integer() else (q,)):   # int and float queries
                            ek, ev_ = _spline_expected(xs, ys, q, order, extrap)
                            if ek == "skip":
                                continue
                            kind, got = h.outcome(src, CAL, q=qq)
                            if ek == "raise":
                                ok = kind == "raise" and got == ev_
                            else:
                                ok = kind == "ok" and isinstance(got, (int, float)) and abs(got - ev_) < 1e-9
                            if not ok:
                                bad = (f"knots {list(zip(xs, ys))}, order {order}, extrapolate={extrap}, query {qq!r}: "
                                       f"{'raises ' if kind == 'raise' else ''}{got!r}; XTCE gives "
                                       f"{'error ' if ek == 'raise' else ''}{ev_!r}")
                                break
                        if bad:
                            break
                except Unsupported as e:
                    ctx.unknown("R8.spline", site, str(e))
                    continue
                ctx.decide(bad is None, "R8.spline", site, f"{len(qs)} ordering classes", bad or "", where=where(fi, fi.node))
    # spline through the context wrapper
    site = f"{CAL}::ContextCalibrator.calibrate::delegates"
    try:
        kind, got = h.outcome("ContextCalibrator([], PolynomialCalibrator([PolynomialCoefficient(3.0, 0)])).calibrate(9)", CAL)
        ctx.decide(kind == "ok" and got == 3.0, "R8.spline", site, "", f"ContextCalibrator.calibrate gives {got!r}, expected 3.0")
    except Unsupported as e:
        ctx.unknown("R8.spline", site, str(e))


def check(ctx: Ctx) -> None:
    h = Harness(ctx.prog)
    ctx.guard("R8.sel", ENC, selection, ctx, h)
    ctx.guard("R8.enum", PT, enum_bool, ctx, h)
    ctx.guard("R8.poly", CAL, polynomial, ctx, h)
    ctx.guard("R8.spline", CAL, spline, ctx, h)
    ctx.guard("R8.spline", CAL, declared_spline, ctx)
    roots = [f"{CAL}::SplineCalibrator.calibrate", f"{CAL}::PolynomialCalibrator.calibrate",
             f"{CAL}::ContextCalibrator.calibrate"]
    ctx.guard("R8.pure", CAL, effect_rule, ctx, CallGraph(ctx.prog), roots, "R8.pure", "calibration")
    # end to end: context calibrators / criteria of the second document of C01, also with DEBUG logging switched on
    from .c01 import end_to_end_second
    ctx.guard("R8.e2", "xtce/definitions.py", end_to_end_second, ctx, "R8.e2")
    from .c01 import end_to_end_third
    ctx.guard("R8.e3", "xtce/definitions.py", end_to_end_third, ctx, "R8.e3")


def mutants(prog):
    import re
    out = []

    def sub(rel, name, pattern, repl, expect="R8", flags=0):
        src = prog.files[rel]
        new, n = re.subn(pattern, repl, src, count=1, flags=flags)
        if n:
            out.append((name, rel, new, expect))

    sub(CAL, "xs:boolean 1 read as false (extrapolate)", r"element\.attrib\['extrapolate'\]\.lower\(\) in \('true', '1'\)", "element.attrib['extrapolate'].lower() == 'true'", "R8.spline")
    sub(CAL, "order-0 last knot special case removed", r"            if query_point == max\(x\):\n.*\n\s+return y\[-1\]\n            first_greater = \[p\.raw > query_point for p in self\.points\]\.index\(True\)\n            return y\[first_greater - 1\]",
        "            first_greater = [p.raw > query_point for p in self.points].index(True)\n            return y[first_greater - 1]", "R8.spline")
    sub(CAL, "closed range made half-open", r"if min\(x\) <= query_point <= max\(x\):", "if min(x) <= query_point < max(x):", "R8.spline")
    sub(CAL, "step picks the next knot at a knot", r"p\.raw > query_point for p in self\.points\]\.index\(True\)\n            return y\[first_greater - 1\]",
        "p.raw >= query_point for p in self.points].index(True)\n            return y[first_greater - 1]", "R8.spline")
    sub(CAL, "extrapolation above uses first value", r"if query_point > max\(x\) and self\.extrapolate:\n            return y\[-1\]",
        "if query_point > max(x) and self.extrapolate:\n            return y[0]", "R8.spline")
    sub(CAL, "points not sorted", r"sorted\(points, key=lambda point: point\.raw\)", "list(points)", "R8.spline")
    sub(CAL, "extrapolate flag ignored", r"if query_point < min\(x\) and self\.extrapolate:\n            return y\[0\]",
        "if query_point < min(x):\n            return y[0]", "R8.spline")
    sub(CAL, "polynomial exponent/coefficient swapped", r"sum\(a \* \(uncalibrated_value \*\* n\) for a, n in self\.coefficients\)",
        "sum(n * (uncalibrated_value ** a) for a, n in self.coefficients)", "R8.poly")
    sub(CAL, "polynomial uses enumerate index as exponent", r"sum\(a \* \(uncalibrated_value \*\* n\) for a, n in self\.coefficients\)",
        "sum(a * (uncalibrated_value ** i) for i, (a, n) in enumerate(self.coefficients))", "R8.poly")
    sub(ENC, "default shadowed when contexts exist", r"        if self\.default_calibrator:  # If no context", "        elif self.default_calibrator:  # If no context", "R8.sel")
    sub(ENC, "context list reversed", r"for calibrator in self\.context_calibrators:", "for calibrator in reversed(self.context_calibrators):", "R8.sel")
    sub(ENC, "raw value dropped from calibrated result", r"return common\.FloatParameter\(calibrated_value, parsed_value\)\n        if self\.default",
        "return common.FloatParameter(calibrated_value)\n        if self.default", "R8.sel")
    sub(ENC, "any instead of all criteria", r"if all\(criterion\.evaluate\(packet, parsed_value\) for criterion in match_criteria\)",
        "if any(criterion.evaluate(packet, parsed_value) for criterion in match_criteria)", "R8")
    sub(PT, "enum looks up the calibrated value", r"raw_enum_value = super\(\)\.parse_value\(packet\)\.raw_value", "raw_enum_value = super().parse_value(packet)", "R8.enum")
    sub(PT, "boolean from the calibrated value", r"parsed_value = super\(\)\.parse_value\(packet\)\.raw_value", "parsed_value = super().parse_value(packet)", "R8.enum")
    return out


SPEC = PropSpec(
    pid="C08",
    title="Calibration, enumeration and boolean derivation follow XTCE; raw value kept",
    check=check,
    floors={"R8.e3": 20, "R8.sel": 16, "R8.enum": 2, "R8.poly": 8, "R8.spline": 16, "R8.pure": 3, "R8.e2": 10},
    explanation=("Decision tables by abstract interpretation of NumericDataEncoding.parse_value, "
                 "Enumerated/BooleanParameterType.parse_value, PolynomialCalibrator.calibrate and "
                 "SplineCalibrator.calibrate over model packets: every subset of matching context calibrators "
                 "(k<=3) x default present/absent x integer/float encodings, identified by distinct constant "
                 "offsets; enumeration and boolean with a calibrator attached (raw value must decide); polynomial "
                 "term families (dense, sparse, unordered, repeated, empty); spline: the query touches the knots only "
                 "through comparisons, so the ordering classes {below, each knot, each open interval, above} for 1..4 "
                 "knots x order {0,1} x extrapolate are a complete partition - expected values come from the "
                 "checker's own closed forms. Plus effect analysis: calibrators are stateless. Does not decide "
                 "floating-point rounding of calibration results."
                 ' Polynomials and enumerations are also evaluated as declared in a document (repeated exponents summed; enumeration values beyond 2**53, zero, all-ones).'
                 ' Splines are also evaluated as declared in a document with <SplinePoint> attributes in any order; listed enumeration values with empty or false-looking labels, and negative values on every signed spelling, map to their labels; R8.e2: the second end-to-end document of C01, also with DEBUG logging switched on.'
                 ' R8.e3: the hand-written document of R1.e3 (contexts with different numbers of comparisons: the first in document order that tests true wins; time encodings: scale*raw + offset).'
                 ' R8.sel: a calibrator that applies but cannot calibrate (spline without extrapolation, value outside its points) fails with a calibration error instead of falling through; R8.spline the four xs:boolean spellings of extrapolate.'),
    rule_doc="one obligation per family/configuration; each covers all its ordering classes / match subsets",
    assumptions=["CPython float arithmetic (executed natively on extracted expressions)",
                 "criteria evaluation is correct (C06)", "the raw integer read is correct (C03/C04)"],
    mutants=mutants,
    technique="decision tables by abstract interpretation over ordering classes; effect analysis",
)

"""C11 - packets are parsed independently; generators and definitions do not interfere (DESIGN 5, C11).

R11.1 effect analysis over the call-graph closure of packet_generator / parse_ccsds_packet: nothing reachable from
      decoding writes to a definition object, a class, a module global or any parameter other than the packet.
R11.2 generator state: packet_generator writes no attribute of self; its mutable state is fresh locals.
R11.3 a fresh packet object is constructed inside the loop for every parse.
R11.4/5 catch-report-continue and bad-length filter: decision table by abstract interpretation of the loop over
      {recognised, unrecognised, wrong-length} packets x all option combinations vs the reference semantics.
R11.6 the generators read no module-level mutable object.
"""
from __future__ import annotations

import ast
import itertools

from ..astutil import dotted, norm, walk_local
from ..callgraph import CallGraph, effects_of
from ..core import Ctx, PropSpec, Unsupported
from ..extract import where
from ..interp import pub, ExcVal, Obj, Raised, StepLimit
from ..models import make_interp, model_definition, raw_packet

DEF = "xtce/definitions.py"
GEN = f"{DEF}::XtcePacketDefinition.packet_generator"
PARSE = f"{DEF}::XtcePacketDefinition.parse_ccsds_packet"
CTORS = ("__init__", "__new__", "__post_init__")


def allowed_effect(prog, e) -> object:
    """True = allowed, False = forbidden (definite), None = cannot classify."""
    fi = e.func
    rc = e.root_class
    if rc == "local-fresh":
        return True
    if fi.name in CTORS and rc in ("self", "cls", "local-fresh"):
        return True                       # a constructor initialises the object being created
    if fi.cls is not None and fi.cls.name == "RawPacketData" and rc == "self":
        return True                       # the per-packet bit cursor
    if e.root == "packet" and rc in ("param",):
        return True                       # the per-packet mapping being filled
    if rc.startswith("local-alias:"):
        r = rc.split(":", 1)[1]
        if r == "packet":
            return True
        return False
    if rc in ("self", "cls", "global", "param"):
        return False
    return None


def _call_sites(prog, cl, callee):
    """(caller FuncInfo, Call node, is_bound_method_call) for every call in the closure that names ``callee``."""
    out = []
    for k in cl:
        g = prog.functions.get(k)
        if g is None:
            continue
        for n in walk_local(g.node):
            if isinstance(n, ast.Call):
                if isinstance(n.func, ast.Name) and n.func.id == callee.name and callee.cls is None:
                    out.append((g, n, False))
                elif isinstance(n.func, ast.Attribute) and n.func.attr == callee.name:
                    # x.f(...)  : bound method (self supplied by x) unless f is a module function reached through a module alias
                    out.append((g, n, callee.cls is not None and not callee.is_static))
    return out


def param_effect_allowed(prog, cl, fi, pname: str, depth: int = 3):
    """A helper writes through its parameter ``pname``.  Allowed iff at every call site in the closure the argument is a
    fresh local of the caller, the per-packet object, or a parameter of the caller for which the same holds (bounded)."""
    from ..astutil import root_name
    from ..callgraph import _local_classes
    if depth == 0:
        return None
    sites = _call_sites(prog, cl, fi)
    if not sites:
        return None
    a = fi.node.args
    names = [x.arg for x in a.posonlyargs + a.args]
    for g, call, bound in sites:
        idx = names.index(pname) if pname in names else None
        arg = None
        if idx is not None:
            j = idx - 1 if bound else idx
            if 0 <= j < len(call.args) and not any(isinstance(x, ast.Starred) for x in call.args[:j + 1]):
                arg = call.args[j]
        for kw in call.keywords:
            if kw.arg == pname:
                arg = kw.value
        if arg is None:
            return None
        r = root_name(arg)
        lc = _local_classes(prog, g)
        c = lc.get(r) if r else None
        if isinstance(arg, (ast.Dict, ast.List, ast.Set, ast.ListComp, ast.DictComp)) or c == "fresh":
            continue
        if r == "packet":
            continue
        if c is not None and c.startswith("alias:") and c.split(":", 1)[1] == "packet":
            continue
        if c == "param" and not (g.cls is not None and not g.is_static and g.params and r == g.params[0]):
            sub = param_effect_allowed(prog, cl, g, r, depth - 1)
            if sub is True:
                continue
            return sub
        return False
    return True


def effect_rule(ctx: Ctx, cg: CallGraph, roots, rule: str, label: str, floor_note=""):
    prog = ctx.prog
    cl = cg.closure(roots)
    ctx.stats[f"{label}_closure"] = len(cl)
    n_eff = 0
    for k in sorted(cl):
        fi = prog.functions[k]
        effs = effects_of(prog, fi)
        bad = False
        for e in effs:
            n_eff += 1
            a = allowed_effect(prog, e)
            if e.root_class.startswith("cell:"):
                # `nonlocal x; x = ...` in a nested function: allowed iff the activation that owns x is created by the operation
                # itself (the owner is in the closure analysed) - then x is one of its fresh locals
                a = e.root_class.split(":", 1)[1] in cl
            prm = e.root if e.root_class == "param" else \
                (e.root_class.split(":", 1)[1] if e.root_class.startswith("local-alias:") else None)
            if a is False and prm in fi.params and k not in roots and \
                    not (fi.cls is not None and not fi.is_static and prm == fi.params[0]):
                # context-sensitive: what do the callers in this closure pass for that parameter?
                a2 = param_effect_allowed(prog, cl, fi, prm)
                if a2 is True:
                    a = True
            if a is False:
                bad = True
                ctx.refuted(rule, e.site,
                            f"{e.kind} on `{e.target}` (rooted at {e.root_class} `{e.root}`) is reachable from {label}: "
                            f"it must not write to definition objects, classes, globals or shared arguments",
                            where=where(fi, e.node), kind=e.kind, root=e.root_class)
            elif a is None:
                bad = True
                ctx.unknown(rule, e.site, f"cannot classify the root `{e.root}` of `{e.target}`", where=where(fi, e.node))
        if not bad:
            ctx.proved(rule, k, f"{len(effs)} write effects, all on the packet, the cursor or fresh locals")
    ctx.stats[f"{label}_effects"] = n_eff
    return cl


def generator_state(ctx: Ctx):
    prog = ctx.prog
    fi = prog.func(GEN)
    # R11.3 every CCSDSPacket(...) construction sits inside the packet loop
    loops = [n for n in walk_local(fi.node) if isinstance(n, (ast.For, ast.While))]
    ctor_calls = [n for n in walk_local(fi.node) if isinstance(n, ast.Call) and (dotted(n.func) or "").split(".")[-1] == "CCSDSPacket"]
    if not ctor_calls:
        ctx.unknown("R11.3", f"{GEN}::CCSDSPacket", "no packet construction found")
    for c in ctor_calls:
        inside = any(any(x is c for x in ast.walk(lp)) for lp in loops)
        ctx.decide(inside or None, "R11.3", f"{GEN}::{norm(c)}", "packet object is created per iteration",
                   "the packet construction is not inside the packet loop (decided by the stream table R11.4: each parse must "
                   "receive an empty packet object of its own)", where=where(fi, c))
    # parse is called with a name bound by those constructors
    for c in [n for n in walk_local(fi.node) if isinstance(n, ast.Call) and isinstance(n.func, ast.Attribute)
              and n.func.attr == "parse_ccsds_packet"]:
        arg = c.args[0] if c.args else None
        ok = None
        if isinstance(arg, ast.Name):
            defs = [n for n in walk_local(fi.node) if isinstance(n, ast.Assign) and any(isinstance(t, ast.Name) and t.id == arg.id for t in n.targets)]
            vals = [d.value for d in defs if not (isinstance(d.value, ast.Call) and isinstance(d.value.func, ast.Attribute) and d.value.func.attr == "parse_ccsds_packet")]
            ok = bool(vals) and all(v in ctor_calls for v in vals)
        elif arg in ctor_calls:
            ok = True
        ctx.decide(ok or None, "R11.3", f"{GEN}::parse-argument", "the parser receives the packet object created in this iteration",
                   "cannot see that the object handed to the parser is the packet created in this iteration (decided by the stream "
                   "table R11.4)", where=where(fi, c))
    # R11.6 module-level mutable objects read by the generators
    for key in (GEN, "packets.py::ccsds_generator", PARSE):
        f2 = prog.func_opt(key)
        if f2 is None:
            continue
        m = prog.modules[f2.relpath]
        bad = []
        for n in walk_local(f2.node):
            if isinstance(n, ast.Name) and isinstance(n.ctx, ast.Load) and n.id in m.consts and n.id not in f2.params:
                v = m.consts[n.id]
                if isinstance(v, (ast.Dict, ast.List, ast.Set, ast.ListComp, ast.DictComp)) or \
                        (isinstance(v, ast.Call) and (dotted(v.func) or "") in ("dict", "list", "set", "defaultdict", "collections.defaultdict")):
                    bad.append(n)
        if bad:
            for n in bad:
                ctx.refuted("R11.6", f"{key}::{n.id}", f"module-level mutable object `{n.id}` is read by the generator",
                            where=where(f2, n))
        else:
            ctx.proved("R11.6", key, "no module-level mutable object is read")


# ------------------------------------------------------------------------------------- R11.4 / R11.5 decision table
KINDS = ("ok", "unrec", "short", "long")


def reference(stream, opts):
    out = []
    for i, kind in enumerate(stream):
        if opts["ccsds_headers_only"]:
            out.append(("raw", i))
            continue
        if kind == "unrec":
            if opts["yield_unrecognized_packet_errors"]:
                out.append(("err", i))
            continue
        if kind in ("short", "long"):
            if opts["parse_bad_pkts"]:
                out.append(("pkt", i))
            continue
        out.append(("pkt", i))
    return out


def run_stream(prog, fi, stream, opts):
    pkts = [raw_packet(bytes([i + 1, 0xA0 + i, 0x55]), apid=20 + i, count=i) for i in range(len(stream))]
    index = {bytes(p): i for i, p in enumerate(pkts)}

    def parse_stub(selfv, packet, root_container_name=None):
        raw = pub(packet, "raw_data")
        i = index[bytes(raw)]
        kind = stream[i]
        packet["IDX"] = i if len(packet) == 0 else ("stale", i, sorted(map(str, packet)))   # must arrive empty (fresh per packet)
        if kind == "unrec":
            try:    # built by the library's own exception class (interpreted), as parse_ccsds_packet would
                from ..interp import ClassRef
                exc = it._construct(ClassRef("UnrecognizedPacketTypeError"), ["unrecognized"], {"partial_data": packet}, None)
            except (Unsupported, Raised):
                exc = ExcVal("UnrecognizedPacketTypeError", ("unrecognized",), {"partial_data": packet})
            raise Raised(exc)
        raw.attrs["pos"] = 8 * len(raw) + {"ok": 0, "short": -3, "long": 8}[kind]
        return packet

    it = make_interp(prog, {"XtcePacketDefinition.parse_ccsds_packet": parse_stub,
                            "space_packet_parser.packets.ccsds_generator": lambda b, **k: b}, max_steps=400000)
    selfv = model_definition(it, "ROOT")
    ys = it.call(fi, [selfv, pkts], dict(opts))
    out = []
    for y in ys:
        if isinstance(y, ExcVal):
            pd = y.kwargs.get("partial_data") if "partial_data" in y.kwargs else (y.attrs or {}).get("partial_data")
            # the report carries the packet object the parser was filling (items AND its raw bytes), not a bare dict of its items
            is_packet = getattr(pd, "cls", None) == "CCSDSPacket" and pub(pd, "raw_data") is not None
            out.append(("err", pd.get("IDX") if pd is not None else None) if is_packet or pd is None else
                       ("err-without-packet", type(pd).__name__))
        elif isinstance(y, dict):
            out.append(("pkt", y.get("IDX")))
        elif isinstance(y, bytes):
            out.append(("raw", index.get(bytes(y))))
        else:
            out.append(("?", repr(y)))
    return out


def isolation_table(ctx: Ctx):
    prog = ctx.prog
    fi = prog.func(GEN)
    streams = [list(s) for n in (1, 2, 3) for s in itertools.product(KINDS, repeat=n)]
    n = 0
    for po, yu, ho in itertools.product((True, False), repeat=3):
        opts = {"parse_bad_pkts": po, "yield_unrecognized_packet_errors": yu, "ccsds_headers_only": ho}
        site = f"{GEN}::options::parse_bad_pkts={po},yield_errors={yu},headers_only={ho}"
        bad = None
        try:
            for s in streams:
                n += 1
                try:
                    got = run_stream(prog, fi, s, opts)
                except Raised as r:
                    bad = f"stream {s} escapes with {r.exc.tname}"
                    break
                want = reference(s, opts)
                if got != want:
                    bad = f"stream {s}: yields {got}, independent per-packet parsing gives {want}"
                    break
        except Unsupported as e:
            ctx.unknown("R11.4", site, str(e))
            continue
        ctx.decide(bad is None, "R11.4", site, f"{len(streams)} streams", bad or "", where=where(fi, fi.node))
    ctx.stats["isolation_streams"] = n


def reparse_rule(ctx: Ctx, RULE: str = "R11.7"):
    """R11.7: wrapping a raw packet for parsing must not share the bit cursor with it: parsing the same raw packet twice
    (a second definition parsing the raw packets of a headers-only pass; a user re-parsing err.partial_data.raw_data)
    gives the same result and leaves the raw packet's own cursor untouched."""
    prog = ctx.prog
    from ..harness import Harness, cursor
    from ..models import source_externals, ccsds_bytes
    from ..interp import BytesObj
    site = "packets.py::CCSDSPacket.__init__::cursor-not-shared"
    h = Harness(prog, source_externals(), max_steps=400000)
    try:
        raw = BytesObj(ccsds_bytes(b"\x05\x06", apid=3), cls="RawPacketData")
        p1 = h.ev("CCSDSPacket(raw_data=raw)", "packets.py", raw=raw)
        k1, v1 = h.outcome("p.raw_data.read_as_int(16)", "packets.py", p=p1)
        p2 = h.ev("CCSDSPacket(raw_data=raw)", "packets.py", raw=raw)
        k2, v2 = h.outcome("p.raw_data.read_as_int(16)", "packets.py", p=p2)
        pos_raw = cursor(h, raw)
        same_obj = pub(p1, "raw_data") is raw or pub(p2, "raw_data") is pub(p1, "raw_data")
        ok = k1 == "ok" and k2 == "ok" and v1 == v2 and pos_raw == 0 and not same_obj
        ctx.decide(ok, RULE, site, "each parsed packet owns a fresh cursor",
                   f"two packets built from the same raw bytes share a cursor: first read {v1!r}, second read {v2!r}, the raw packet's own "
                   f"cursor is now {pos_raw}: parsing one packet changes the result of parsing it again")
    except (Unsupported, Raised) as e:
        ctx.unknown(RULE, site, str(e))


def stream_vs_single(ctx: Ctx):
    """R11.e: the all-features stream (twice in a row, so every kind of packet has a predecessor of its own kind) decoded as one
    stream by one definition gives, item by item, what decoding each packet alone with a freshly loaded definition gives."""
    from . import xmlcommon as X
    from .c01 import kitchen_packets, _show
    from .c16 import clone_tree
    prog = ctx.prog
    site = f"{GEN}::all-features stream twice vs each packet alone"

    def view(y):
        if isinstance(y, ExcVal):
            return ("error", y.tname)
        return [(n, _show(v), _show(v.attrs.get("raw_value"))) for n, v in y.items()]
    try:
        h = X.harness(prog)
        g1 = X.write_tree(h, X.build_kitchen_sink(h))
        d = X.load(h, clone_tree(g1), "xtce")
        pk = [p[1] for p in kitchen_packets()]
        stream = b"".join(pk + pk)
        k, got = h.outcome("d.packet_generator(src, yield_unrecognized_packet_errors=True)", DEF, d=d, src=stream)
        if k != "ok":
            ctx.refuted("R11.e", site, f"decoding the doubled stream ends in {got}")
            return
        whole = [view(y) for y in got]
        alone = []
        for b in pk:
            h2 = X.harness(prog)
            d2 = X.load(h2, clone_tree(g1), "xtce")
            k2, g2 = h2.outcome("d.packet_generator(src, yield_unrecognized_packet_errors=True)", DEF, d=d2, src=b)
            alone.append([view(y) for y in g2] if k2 == "ok" else [("ends in", g2)])
        want = [v for a in alone + alone for v in a]
        bad = None
        if whole != want:
            i = next((j for j, (a, b2) in enumerate(zip(whole, want)) if a != b2), min(len(whole), len(want)))
            bad = (f"item {i} of the doubled stream is {whole[i] if i < len(whole) else '<missing>'}; the same packet decoded alone by a "
                   f"fresh definition gives {want[i] if i < len(want) else '<nothing>'}")
        ctx.decide(bad is None, "R11.e", site, f"{len(want)} items agree", bad or "")
    except (Unsupported, StepLimit) as e:
        ctx.unknown("R11.e", site, str(e))
    except Raised as r:
        ctx.refuted("R11.e", site, f"the all-features document cannot be written / loaded: {r.exc.tname} {r.exc.args}")


def check(ctx: Ctx) -> None:
    prog = ctx.prog
    ctx.guard("R11.e", GEN, stream_vs_single, ctx)
    # unrecognized packets of every kind (no matching child, contradictory criteria, an abstract container nothing inherits from)
    # are reported in their position with their partial data, or skipped: the hand-written document of C01
    from .c01 import end_to_end_third
    ctx.guard("R11.e3", GEN, end_to_end_third, ctx, "R11.e3")
    ctx.guard("R11.7", "packets.py::CCSDSPacket", reparse_rule, ctx)
    cg = CallGraph(prog)
    cl = effect_rule(ctx, cg, [PARSE], "R11.1", "decoding")
    gen = prog.func(GEN)
    # R11.2: the generator itself and the framer
    effect_rule(ctx, cg, [GEN, "packets.py::ccsds_generator"], "R11.2", "packet_generator")
    ctx.guard("R11.3", GEN, generator_state, ctx)
    ctx.guard("R11.4", GEN, isolation_table, ctx)


def controls():
    base = {
        "xtce/definitions.py": '''
class XtcePacketDefinition:
    def parse_ccsds_packet(self, packet, *, root_container_name=None):
        self._last = packet          # memoises on the definition
        self.containers["R"].parse(packet)
        return packet
    def packet_generator(self, binary_data):
        for raw in binary_data:
            yield self.parse_ccsds_packet(raw)
''',
        "packets.py": "def ccsds_generator(b):\n    yield b\n",
    }
    return [("decode memoises on self", base, "R11.1")]


def mutants(prog):
    import re
    out = []

    def sub(rel, name, pattern, repl, expect, flags=0):
        src = prog.files[rel]
        new, n = re.subn(pattern, repl, src, count=1, flags=flags)
        if n:
            out.append((name, rel, new, expect))

    sub(DEF, "segment table moved onto the definition", r"_segmented_packets = \{\}\n",
        "self._segmented_packets = _segmented_packets = {}\n", "R11.2")
    sub(DEF, "root container override written to self", r"root_container_name = root_container_name or self\.root_container_name\n\n        # Used",
        "self.root_container_name = root_container_name = root_container_name or self.root_container_name\n\n        # Used", "R11.2")
    sub("xtce/parameters.py", "Parameter.parse caches on the parameter", r"(packet\[self\.name\] = self\.parameter_type\.parse_value\(packet\))",
        r"\1\n        self.last_value = packet[self.name]", "R11.1")
    sub("xtce/containers.py", "container counts parses", r"(for entry in self\.entry_list:\n\s+entry\.parse\(packet=packet\))",
        r"self.inheritors.append(None)\n        \1", "R11.1")
    sub("xtce/comparisons.py", "comparison memoises coerced literal", r"(required_value = t_comparate\(self\.required_value\))",
        r"\1\n            self.required_value = required_value", "R11.1")
    sub("xtce/encodings.py", "encoding stores last raw", r"(parsed_value = self\._get_raw_value\(packet\))",
        r"\1\n        self.last_raw = parsed_value", "R11.1")
    sub(DEF, "continue lost after yielding the error", r"(yield e\n\s+# Continue to next packet\n\s+)continue", r"\1pass", "R11.4")
    sub(DEF, "bad packet filter breaks the loop", r"(Skipping \(not yielding\) bad packet with apid \{raw_packet_data\.apid\}\.\"\)\n\s+)continue",
        r"\1break", "R11.4")
    sub(DEF, "errors always yielded", r"if yield_unrecognized_packet_errors:\n", "if True:\n", "R11.4")
    # one packet object shared by all iterations (an unused hoisted object alone is harmless and is not a variant)
    import re as _re
    src0 = prog.files[DEF]
    v = _re.sub(r"(        _segmented_packets = \{\}\n)", r"\1        shared_packet = packets.CCSDSPacket()\n", src0, count=1)
    v2 = _re.sub(r"( +)packet = packets\.CCSDSPacket\(raw_data=raw_packet_data\)\n",
                 r"\1shared_packet.raw_data = packets.CCSDSPacket(raw_data=raw_packet_data).raw_data\n\1packet = shared_packet\n", v, count=1)
    if v2 != v and v != src0:
        out.append(("packet object shared between iterations", DEF, v2, "R11"))
    return out


SPEC = PropSpec(
    pid="C11",
    title="Packets are parsed independently; generators and definitions do not interfere",
    check=check,
    floors={"R11.e3": 20, "R11.1": 25, "R11.2": 2, "R11.3": 2, "R11.4": 8, "R11.6": 2, "R11.7": 1, "R11.e": 1},
    fallback={"R11.3": ("R11.4",)},
    explanation=("Effect analysis over the resolved call graph: every function reachable from parse_ccsds_packet "
                 "(R11.1) and from packet_generator / ccsds_generator (R11.2) is scanned for attribute stores, "
                 "item stores, deletes and mutator calls; each is classified by the root of its target (self, cls, "
                 "parameter, module global, fresh local, alias). Allowed: the packet mapping, the RawPacketData "
                 "cursor, constructors initialising the object being created, fresh locals. Anything else is a "
                 "definite violation at that statement - absence of shared mutable state is what makes interleaved "
                 "generators independent, and no execution can show absence. R11.3: packet objects are created "
                 "inside the loop. R11.4: decision table of the loop's catch-report-continue / bad-length logic by "
                 "abstract interpretation over all streams of length <= 3 of {ok, unrecognised, too short, too long} "
                 "x 8 option combinations vs independent per-packet semantics. R11.6: no module-level mutable read."
                 " R11.e: the all-features stream decoded twice in a row by one definition gives, item by item, what each packet gives alone with a freshly loaded definition; the unrecognized-packet report is built by the library's own exception class and must carry the packet object."),
    rule_doc=("R11.1/R11.2 one obligation per function of the closure (or per offending effect); R11.3 per "
              "construction site; R11.4 per option combination over 84 streams; R11.6 per generator."),
    assumptions=["call graph over-approximates callees of unknown receivers by method name (safe for effect rules)",
                 "CPython: locals of a generator frame are private to that generator"],
    controls=controls,
    mutants=mutants,
    technique="effect analysis over the call-graph closure; decision table of the generator loop by abstract interpretation",
)

"""C03 - bit-cursor reads return exactly the addressed bits and advance by the width (DESIGN 5, C03).

R3.1  ``_extract_bits(data, s, n)`` returns Bits(data, s, s+n) on every path, in both slice modes, under the
      precondition 0 <= s, 0 <= n, s+n <= 8*len(data): symbolic evaluation in the bit-window domain.
R3.2  ``read_as_int`` / ``read_as_bytes``: on every non-raising path the value is the window [pos, pos+n) (bytes
      form: right-aligned in ceil(n/8) bytes), computed at the old cursor, and the cursor advances exactly once
      by exactly n.
R3.3  the buffer type is immutable (bytes, no item assignment).
R3.w  witness search: when a symbolic proof does not go through, the function is interpreted on small buffers
      (all positions/widths) and compared with int(bits[p:p+n], 2); a difference is a definite violation with a
      concrete witness, no difference leaves the obligation UNKNOWN.  Also run unconditionally as cross-check.
"""
from __future__ import annotations

import ast

from ..affine import Aff, div8
from ..normalize import inline_helpers
from ..roles import bits_fn, bits_name
from ..bitwin import BitsV, BytesV, ToBytesV, all_paths, holds
from ..core import Ctx, PropSpec, Unsupported
from ..extract import where
from ..harness import Harness, cursor
from ..interp import BytesObj, Raised

PK = "packets.py"


def _eq(facts, a: Aff, b: Aff) -> bool:
    return holds(facts, a - b) and holds(facts, b - a)


def _bitsfn(prog):
    fi = bits_fn(prog)
    if fi is None:
        from ..program import AnchorMissing
        raise AnchorMissing("no bit-window extractor (module function called by RawPacketData.read_as_int with the packet) found")
    return fi


def extract_bits_rule(ctx: Ctx):
    prog = ctx.prog
    fi = inline_helpers(prog, _bitsfn(prog))
    if len(fi.params) != 3:
        ctx.unknown("R3.1", fi.key, f"expected (data, start_bit, nbits), got {fi.params}")
        return False
    D, S_, N = fi.params
    fold = lambda e: prog.fold_opt(e, PK)  # noqa: E731
    try:
        paths = all_paths(fi.node, buffers={D: D}, ints=[S_, N], fold=fold, summaries={}, self_name=None)
    except Unsupported as e:
        ctx.unknown("R3.1", fi.key, f"outside the bit-window vocabulary: {e}")
        return False
    ok_all = True
    nret = 0
    for p in paths:
        s, n, L = (Aff.atom(S_), Aff.atom(N), Aff.atom(f"len({D})"))
        for atom, repl in p.subst.items():
            s, n, L = s.subst(atom, repl), n.subst(atom, repl), L.subst(atom, repl)
        pre = [s, n, L.scale(8) - s - n]
        facts = list(p.facts) + pre
        site = f"{fi.key}::path[{p.mode};{'/'.join(str(int(x)) for x in _taken(p))}]"
        if p.raised:
            ctx.refuted("R3.1", site, f"raises {p.raised} although the window lies inside the buffer", where=where(fi, fi.node),
                        path=p.trail)
            ok_all = False
            continue
        nret += 1
        r = p.ret
        if not isinstance(r, BitsV) or r.base != D:
            ctx.unknown("R3.1", site, f"returned value is not a bit window of the input: {r!r}", path=p.trail)
            ok_all = False
            continue
        win = _eq(facts, r.lo, s) and _eq(facts, r.hi, s + n)
        bad_side = [d for g, d in p.side if not holds(facts, g)]
        if win and not bad_side:
            ctx.proved("R3.1", site, f"returns Bits({D}, {r.lo!r} : {r.hi!r}) = [s, s+n)", path=p.trail)
        else:
            ok_all = False
            ctx.unknown("R3.1", site, ("window is " + f"[{r.lo!r}, {r.hi!r}) vs [s, s+n)" if not win else
                                       f"side condition not discharged: {bad_side}"), path=p.trail)
    ctx.stats["extract_bits_paths"] = nret
    return ok_all


def _taken(p):
    return [("True" in t) for t in p.trail]


def reader_rule(ctx: Ctx, eb_ok: bool):
    prog = ctx.prog
    eb = inline_helpers(prog, _bitsfn(prog))

    def eb_summary(ev, call: ast.Call):
        """_extract_bits(d, s, n) = Bits(d, s, s+n) provided 0<=s, 0<=n, s+n <= 8*len(d)  (derived by R3.1)."""
        d = ev.ev(call.args[0])
        s = ev.aff(call.args[1])
        n = ev.aff(call.args[2])
        if not isinstance(d, BytesV):
            raise Unsupported("_extract_bits on a non-buffer")
        base_bits = d.lo.scale(8)
        ev.side.append((s, "_extract_bits precondition: start >= 0"))
        ev.side.append((n, "_extract_bits precondition: width >= 0"))
        ev.side.append((ev.S(d.n.scale(8) - s - n), "_extract_bits precondition: window inside the buffer"))
        return BitsV(d.base, ev.S(base_bits + s), ev.S(base_bits + s + n))

    for meth, kind in (("read_as_int", "int"), ("read_as_bytes", "bytes")):
        fi = inline_helpers(prog, prog.func(f"{PK}::RawPacketData.{meth}"))
        if len(fi.params) != 2:
            ctx.unknown("R3.2", fi.key, f"expected (self, nbits), got {fi.params}")
            continue
        SELF, N = fi.params
        fold = lambda e: prog.fold_opt(e, PK, cls="RawPacketData")  # noqa: E731
        try:
            paths = all_paths(fi.node, buffers={SELF: SELF}, ints=[N], fold=fold, summaries={bits_name(prog): eb_summary},
                              self_name=SELF)
        except Unsupported as e:
            ctx.unknown("R3.2", fi.key, f"outside the bit-window vocabulary: {e}")
            continue
        nret = 0
        for p in paths:
            pos, n, L = Aff.atom(f"{SELF}.pos"), Aff.atom(N), Aff.atom(f"len({SELF})")
            for atom, repl in p.subst.items():
                pos, n, L = pos.subst(atom, repl), n.subst(atom, repl), L.subst(atom, repl)
            pre = [pos, n, L.scale(8) - pos - n]
            facts = list(p.facts) + pre
            site = f"{fi.key}::path[{p.mode};{'/'.join(str(int(x)) for x in _taken(p))}]"
            from ..facts import _pair_contradiction, tighten
            if _pair_contradiction([tighten(f) for f in facts]):
                continue                       # infeasible under the precondition (e.g. the end-of-packet raise)
            if p.raised:
                ctx.refuted("R3.2", site, f"raises {p.raised} although 0 <= n and pos+n <= 8*len", where=where(fi, fi.node),
                            path=p.trail)
                continue
            nret += 1
            r = p.ret
            problems = []
            if kind == "int":
                if not (isinstance(r, BitsV) and r.base == SELF and _eq(facts, r.lo, pos) and _eq(facts, r.hi, pos + n)):
                    problems.append(f"returned value {r!r} is not the window [pos, pos+n)")
            else:
                want_m = div8(n + Aff.k(7))
                if isinstance(r, ToBytesV):
                    b = r.bits
                    if not (b.base == SELF and _eq(facts, b.lo, pos) and _eq(facts, b.hi, pos + n)):
                        problems.append(f"serialised window {b!r} is not [pos, pos+n)")
                    if not _eq(facts, r.m, want_m):
                        problems.append(f"byte length {r.m!r} is not ceil(n/8)")
                elif isinstance(r, BytesV):
                    if not (r.base == SELF and _eq(facts, r.lo.scale(8), pos) and _eq(facts, (r.lo + r.n).scale(8), pos + n)):
                        problems.append(f"returned slice {r!r} is not bits [pos, pos+n)")
                    if not _eq(facts, r.n, want_m):
                        problems.append(f"slice length {r.n!r} is not ceil(n/8)")
                else:
                    problems.append(f"returned value {r!r} is not a bytes form of the window")
            if p.pos_writes != 1 or p.pos_delta is None or not _eq(facts, p.pos_delta, n):
                problems.append(f"cursor advance is {p.pos_delta!r} in {p.pos_writes} write(s), must be exactly n once")
            bad_side = [d for g, d in p.side if not holds(facts, g)]
            if bad_side:
                problems.append(f"side conditions not discharged: {bad_side}")
            if not problems:
                ctx.proved("R3.2", site, "value = window [pos,pos+n) at the old cursor; cursor += n once", path=p.trail)
            else:
                ctx.unknown("R3.2", site, "; ".join(problems), path=p.trail)
        ctx.stats[f"{meth}_paths"] = nret
        if nret == 0:
            ctx.unknown("R3.2", fi.key, "no returning path found")


def immutability(ctx: Ctx):
    prog = ctx.prog
    ci = prog.cls("RawPacketData")
    mro = prog.mro("RawPacketData")
    ctx.decide("bytes" in mro and "bytearray" not in mro, "R3.3", f"{PK}::RawPacketData::bases",
               "buffer type derives from immutable bytes",
               f"RawPacketData derives from {ci.bases}; reads must leave the buffer unchanged (bytes, not bytearray)")
    bad = [m for m in ("__setitem__", "__delitem__", "__iadd__") if prog.resolve_method("RawPacketData", m)]
    ctx.decide(not bad, "R3.3", f"{PK}::RawPacketData::item-assignment", "no item assignment defined",
               f"RawPacketData defines {bad}")


# ----------------------------------------------------------------------------------------- witness search
PATTERNS = [bytes([0x0F, 0xF0, 0xA5, 0x5A, 0xC3, 0x3C, 0x81, 0x7E, 0x01, 0x80, 0xFF, 0x00, 0x13]),
            bytes([0x00, 0x07, 0x00, 0x00, 0x10, 0x00, 0x00, 0x01, 0x00, 0x00, 0x00, 0x02, 0x40]),
            bytes([0xFF] * 13), bytes(13)]


def _bits(b: bytes) -> str:
    return "".join(f"{x:08b}" for x in b)


def _short(v):
    if isinstance(v, int) and not isinstance(v, bool) and abs(v) > 1 << 200:
        return f"0x{v:x}"[:40] + f"..({v.bit_length()} bits)"
    r = repr(v)
    return r if len(r) < 80 else r[:77] + "..."


def witness_cases(thorough: bool):
    cases = []
    for L in (0, 1, 2, 3):
        for p in range(0, 8 * L + 1):
            for n in range(0, 8 * L - p + 1):
                cases.append((L, p, n))
    big = 13
    for p in (0, 1, 3, 7, 8, 9, 15, 16, 21):
        for n in (0, 1, 7, 8, 9, 31, 32, 33, 63, 64, 65, 72, 80, 95, 96):
            if p + n <= 8 * big:
                cases.append((big, p, n))
    cases.append((big, 8 * big, 0))
    cases.append(("wide", 3, 16384))
    # the windows of the CCSDS primary-header fields (and their neighbours) on a buffer that is NOT a well-formed packet: a read
    # is a function of (buffer, cursor, width) only - the bits at 32..47 are whatever the buffer holds there
    for p, n in ((0, 3), (3, 1), (4, 1), (5, 11), (16, 2), (18, 14), (32, 16), (0, 16), (16, 16), (0, 48), (32, 8), (40, 8), (48, 8), (31, 16), (33, 16)):
        cases.append((big, p, n))
        cases.append((7, p, n))
    # buffers longer than the largest space packet (65542 octets) and reads that end beyond octet 65536
    for L, p, n in ((65542, 8 * 65542 - 24, 24), (65542, 8 * 65536 - 4, 8), (65542, 8 * 65542 - 8, 8), (65542, 8 * 65542, 0), (70001, 8 * 70000, 8),
                    (70001, 8 * 69990 + 3, 64), (70001, 0, 8 * 70000), (70001, 8, 8 * 66000), (70001, 5, 8 * 65537 + 3)):
        cases.append((L, p, n))
    if thorough:
        for p in range(0, 8 * 5 + 1):
            for n in range(0, 8 * 5 - p + 1):
                cases.append((5, p, n))
    return cases


def witness_search(ctx: Ctx, thorough: bool):
    prog = ctx.prog
    h = Harness(prog)
    cases = witness_cases(thorough)
    ctx.stats["witness_cases"] = len(cases) * len(PATTERNS)
    for meth in ("read_as_int", "read_as_bytes"):
        fi = inline_helpers(prog, prog.func(f"{PK}::RawPacketData.{meth}"))
        site = f"{fi.key}::witness-search"
        bad = None
        try:
            # the last pass repeats the first pattern with DEBUG logging switched on: what a read returns and where it leaves the
            # cursor does not depend on the logging level
            for pat, dbg in [(pt, False) for pt in PATTERNS] + [(PATTERNS[0], True)]:
                h.it.ext["debug_logging"] = dbg
                for L, p, n in cases:
                    if dbg and isinstance(L, int) and L > 13:
                        continue
                    buf = (pat * 160)[:2049] if L == "wide" else (pat[:L] if L <= len(pat) else (pat * (L // len(pat) + 1))[:L])
                    obj = BytesObj(buf, cls="RawPacketData", pos=p)
                    kind, got = h.outcome(f"obj.{meth}(n)", PK, obj=obj, n=n)
                    bits = _bits(buf)[p:p + n]
                    val = int(bits, 2) if bits else 0
                    want = val if meth == "read_as_int" else val.to_bytes((n + 7) // 8, "big")
                    newpos = cursor(h, obj)
                    if kind != "ok" or got != want or type(got).__mro__[-2] is not type(want) or newpos != p + n or bytes(obj) != buf:
                        bad = (f"{'with DEBUG logging enabled: ' if dbg else ''}buffer {(buf[:16].hex() + ('..' if len(buf) > 16 else '')) or '(empty)'} ({len(buf)} bytes) pos={p} n={n}: {meth} -> "
                               f"{('raises ' + got) if kind != 'ok' else _short(got)}, cursor {newpos}; "
                               f"expected {_short(want)}, cursor {p + n}")
                        break
                if bad:
                    break
        except Unsupported as e:
            h.it.ext["debug_logging"] = False
            ctx.unknown("R3.w", site, str(e))
            continue
        h.it.ext["debug_logging"] = False
        ctx.decide(bad is None, "R3.w", site, f"{len(cases) * len(PATTERNS)} (buffer, pos, width) cases agree", bad or "",
                   where=where(fi, fi.node))
    # sequences of reads on ONE object, the cursor also set backwards and far forwards between reads: every read depends
    # only on (buffer, cursor, width), never on earlier reads (no stale window / chunk kept on the object)
    site = f"{PK}::RawPacketData::read-sequences"
    bad = None
    try:
        buf = bytes((i * 37 + 11) % 256 for i in range(48))
        seq = [("read_as_int", 0, 12), ("read_as_int", None, 20), ("read_as_bytes", None, 9), ("read_as_int", 300, 64), ("read_as_int", 8, 16),
               ("read_as_bytes", 131, 40), ("read_as_int", 3, 5), ("read_as_int", 376, 8), ("read_as_int", 0, 64), ("read_as_bytes", 0, 16),
               ("read_as_int", 200, 1), ("read_as_int", 199, 3), ("read_as_int", None, 0), ("read_as_int", 64, 64), ("read_as_int", 60, 64)]
        for order in (seq, list(reversed(seq))):
            obj = BytesObj(buf, cls="RawPacketData", pos=0)
            for meth, setpos, n in order:
                if setpos is not None:
                    obj.attrs["pos"] = setpos
                p = cursor(h, obj)
                if p + n > 8 * len(buf):
                    continue                     # the property speaks about reads inside the buffer
                kind, got = h.outcome(f"obj.{meth}(n)", PK, obj=obj, n=n)
                bits = _bits(buf)[p:p + n]
                val = int(bits, 2) if bits else 0
                want = val if meth == "read_as_int" else val.to_bytes((n + 7) // 8, "big")
                if kind != "ok" or got != want or cursor(h, obj) != p + n:
                    bad = (f"on one 48-byte packet, after earlier reads elsewhere: pos={p} n={n} {meth} -> "
                           f"{('raises ' + got) if kind != 'ok' else _short(got)}, cursor {obj.attrs.get('pos')}; expected {_short(want)}, cursor {p + n}")
                    break
            if bad:
                break
        ctx.decide(bad is None, "R3.w", site, "30 reads in two orders on one object", bad or "")
    except Unsupported as e:
        ctx.unknown("R3.w", site, str(e))
    # _extract_bits directly (used by the header accessors and the framer with start/width not tied to a cursor)
    fi = inline_helpers(prog, _bitsfn(prog))
    site = f"{fi.key}::witness-search"
    bad = None
    try:
        for pat in PATTERNS[:2]:
            for L, p, n in cases:
                buf = (pat * 160)[:2049] if L == "wide" else (pat[:L] if L <= len(pat) else (pat * (L // len(pat) + 1))[:L])
                kind, got = h.outcome(f"{bits_name(prog)}(buf, p, n)", fi.relpath, buf=buf, p=p, n=n)
                bits = _bits(buf)[p:p + n]
                want = int(bits, 2) if bits else 0
                if kind != "ok" or got != want:
                    bad = f"_extract_bits({buf[:16].hex() or '(empty)'}.. [{len(buf)} bytes], {p}, {n}) -> {_short(got)}, expected {_short(want)}"
                    break
            if bad:
                break
        ctx.decide(bad is None, "R3.w", site, "", bad or "", where=where(fi, fi.node))
    except Unsupported as e:
        ctx.unknown("R3.w", site, str(e))


def check(ctx: Ctx) -> None:
    thorough = ctx.stats.get("tier") == "thorough"
    n0 = len(ctx.obs)
    ok = ctx.guard("R3.1", f"{PK}::_extract_bits", extract_bits_rule, ctx)
    ctx.guard("R3.2", f"{PK}::RawPacketData", reader_rule, ctx, bool(ok))
    ctx.guard("R3.3", f"{PK}::RawPacketData", immutability, ctx)
    ctx.guard("R3.w", f"{PK}::RawPacketData", witness_search, ctx, thorough)
    # a definite counterexample explains every UNKNOWN of the symbolic rules: report the violation, not the
    # incompleteness of the prover
    from ..core import REFUTED, UNKNOWN
    if any(o.verdict == REFUTED and o.rule == "R3.w" for o in ctx.obs):
        for o in ctx.obs:
            if o.verdict == UNKNOWN and o.rule in ("R3.1", "R3.2"):
                o.verdict = "PROVED"
                o.rule = o.rule + ".superseded"
                o.why = "superseded by the concrete witness reported under R3.w: " + o.why


def mutants(prog):
    import re
    src = prog.files[PK]
    out = []

    def sub(name, pattern, repl, expect="R3", flags=0):
        new, n = re.subn(pattern, repl, src, count=1, flags=flags)
        if n:
            out.append((name, PK, new, expect))

    sub("ceil dropped in end_byte", r"\(start_bit_within_byte \+ nbits \+ 7\) // 8", "(start_bit_within_byte + nbits) // 8")
    sub("mask one bit too wide", r"\(2 \*\* nbits - 1\)", "(2 ** (nbits + 1) - 1)")
    sub("mask without -1", r"& \(2 \*\* nbits - 1\)", "& (2 ** nbits)")
    sub("shift off by one", r"len\(data\) \* 8 - start_bit_within_byte - nbits\)", "len(data) * 8 - start_bit_within_byte - nbits + 1)")
    sub("fast path on nbits % 4", r"start_bit_within_byte == 0 and nbits % 8 == 0", "start_bit_within_byte == 0 and nbits % 4 == 0")
    sub("fast path ignores start offset", r"if start_bit_within_byte == 0 and nbits % 8 == 0:", "if nbits % 8 == 0:")
    sub("little endian conversion", r'int\.from_bytes\(data, byteorder="big"\)', 'int.from_bytes(data, byteorder="little")')
    sub("start byte rounded up", r"start_byte = start_bit // 8", "start_byte = (start_bit + 7) // 8")
    sub("advance before read in read_as_int", r"        int_data = _extract_bits\(self, self\.pos, nbits\)\n        self\.pos \+= nbits\n",
        "        self.pos += nbits\n        int_data = _extract_bits(self, self.pos, nbits)\n")
    sub("read_as_int does not advance", r"(int_data = _extract_bits\(self, self\.pos, nbits\)\n)        self\.pos \+= nbits\n", r"\1")
    sub("aligned path advances by bytes", r"(data = self\[self\.pos//8:self\.pos//8 \+ \(nbits\+7\) // 8\]\n\s+)self\.pos \+= nbits", r"\1self.pos += len(data)")
    sub("bytes length floor+1", r"int\.to_bytes\(bytes_as_int, \(nbits \+ 7\) // 8, \"big\"\)", 'int.to_bytes(bytes_as_int, nbits // 8 + 1, "big")')
    sub("aligned slice one byte short", r"self\.pos//8 \+ \(nbits\+7\) // 8\]", "self.pos//8 + nbits // 8 - 1]")
    sub("aligned path only checks nbits", r"if self\.pos % 8 == 0 and nbits % 8 == 0:", "if nbits % 8 == 0:")
    sub("unaligned path advances twice", r"(bytes_as_int = _extract_bits\(self, self\.pos, nbits\)\n\s+self\.pos \+= nbits\n)", r"\1        self.pos += 0 * nbits + (nbits % 8 and 1)\n")
    return out


SPEC = PropSpec(
    pid="C03",
    title="Bit-cursor reads return exactly the addressed bits and advance by the width",
    check=check,
    floors={"R3.1": 2, "R3.2": 3, "R3.3": 2, "R3.w": 4},
    fallback={"R3.1": ("R3.w",), "R3.2": ("R3.w",)},
    explanation=("Symbolic evaluation in a bit-window abstract domain: every path of _extract_bits (both slice modes: "
                 "upper bound inside the buffer / cut at its end) is shown to return Bits(data, s, s+n) - the affine "
                 "normaliser cancels 8*(s//8) + s%8 = s and the clamped length between the shift and the window end - "
                 "with all side conditions (shift >= 0, mask <= width, ...) discharged from the precondition and the "
                 "div8/mod8 lemma base; the derived summary is then used to show that every non-raising path of "
                 "read_as_int/read_as_bytes returns the window [pos, pos+n) taken at the old cursor (bytes: "
                 "right-aligned in ceil(n/8) bytes; the aligned slice path via x%8==0 => x=8x') and advances the "
                 "cursor exactly once by n. This is a proof for all buffers, positions and widths. A witness search "
                 "(abstract interpreter on all (pos, width) of buffers <= 3 bytes x 4 bit patterns, plus wide reads "
                 "up to 96 bits) turns any unprovable variant into a concrete counterexample and cross-checks the proof."
                 ' R3.w also runs sequences of reads on one object with the cursor set backwards and forwards between reads (no stale window kept on the object).'
                 ' The witness table also reads the windows of the CCSDS primary-header fields on buffers that are not well-formed packets, and buffers longer than the largest space packet (reads ending beyond octet 65536); the cursor is read the way the program reads it (attribute, class default or property).'
                 ' A last pass repeats the table with DEBUG logging enabled; reads beyond 64 KiB are included; an optional numpy fast path (frombuffer / unpackbits / packbits) is interpreted through an exact mini-model.'),
    rule_doc=("R3.1 one obligation per (path, slice mode) of _extract_bits; R3.2 per feasible path of the two readers; "
              "R3.3 immutability of the buffer class; R3.w witness search per function."),
    assumptions=["CPython semantics of int.from_bytes/to_bytes, >>, &, slicing", "lemma base L1-L8 (re-validated by --selftest)"],
    mutants=mutants,
    technique="symbolic evaluation in a bit-window abstract domain with affine normal forms; witness search by abstract interpretation",
)

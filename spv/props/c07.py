"""C07 - string and binary fields, including computed lengths, decode as documented (DESIGN 5, C07).

Decision tables by abstract interpretation of Binary/StringDataEncoding.parse_value (and their helpers) over model
packets; expected values come from the checker's own bit-string reference:
R7.bin  binary value = the field's bits left-padded to whole bytes, cursor += computed length, for every start offset
        0..7 x lengths {0,1,7,8,9,12,16,17,24} x the three length specifications (fixed / reference raw|calibrated with
        and without linear adjustment / discrete lookup incl. a matching value 0 and float values as loaded from XML).
R7.str  string raw value = the whole buffer right-padded to whole bytes; value = whole buffer / text before the first
        termination character / text of the leading size tag; cursor += computed length exactly (also when the
        length is not a whole number of bytes) x offsets x encodings (US-ASCII, UTF-8, UTF-16BE, UTF-16LE).
R7.xml  the length specification declared in a document (useCalibratedValue, LinearAdjustment, lookup values) is what
        the loaded encodings use (reader interpreted on the XML model).
"""
from __future__ import annotations

import itertools

from ..core import Ctx, PropSpec, Unsupported
from ..extract import where
from ..harness import Harness, cursor
from ..interp import pub, BytesObj, Raised
from ..models import new_packet
from ..xmlmodel import clark, make_elem, attach_nsmap
from . import xmlcommon as X

ENC = "xtce/encodings.py"
PATTERN = bytes([0xA7, 0x3C, 0x5A, 0xF0, 0x0F, 0x81, 0x7E, 0xC3, 0x99, 0x24])
CMP = "comparisons"


def bits_of(b: bytes) -> str:
    return "".join(f"{x:08b}" for x in b)


def left_padded(bits: str) -> bytes:
    n = len(bits)
    return int(bits, 2).to_bytes((n + 7) // 8, "big") if n else b""


def right_padded(bits: str) -> bytes:
    n = len(bits)
    pad = (8 - n % 8) % 8
    return int(bits + "0" * pad, 2).to_bytes((n + pad) // 8, "big") if n else b""


def mk_packet(h, offset, items=None, data=PATTERN):
    p = h.packet(data, items or {})
    pub(p, "raw_data").attrs["pos"] = offset
    return p


def binary_table(ctx: Ctx, h: Harness):
    fi = ctx.prog.func(f"{ENC}::BinaryDataEncoding.parse_value")
    lens = [0, 1, 7, 8, 9, 12, 16, 17, 24]
    specs = {
        "fixed": lambda n: (f"BinaryDataEncoding(fixed_size_in_bits={n})", {}, n) if n > 0 else None,
        "reference (calibrated)": lambda n: ("BinaryDataEncoding(size_reference_parameter='N')", {"N": ("Float", float(n), n + 5)}, n),
        "reference (raw)": lambda n: ("BinaryDataEncoding(size_reference_parameter='N', use_calibrated_value=False)", {"N": ("Float", float(n) + 40.0, n)}, n),
        "reference (raw) with adjustment 8x-8": lambda n: (("BinaryDataEncoding(size_reference_parameter='N', use_calibrated_value=False, "
                                                             "linear_adjuster=lambda x: 8 * x - 8)"), {"N": ("Float", 99.0, n // 8 + 1)}, 8 * (n // 8 + 1) - 8),
        "reference (calibrated 2.5 words) with adjustment 16x": lambda n: (("BinaryDataEncoding(size_reference_parameter='N', "
                                                                           "linear_adjuster=encodings_adjuster(16, 0))"), {"N": ("Float", 2.5, 5)}, 40) if n == 8 else None,
        "lookup (first match wins, later entries also match)": lambda n: ((f"BinaryDataEncoding(size_discrete_lookup_list=[{CMP}.DiscreteLookup([{CMP}.Comparison('7', 'M')], 99), "
                                                                           f"{CMP}.DiscreteLookup([{CMP}.Comparison('1', 'M')], {n}), {CMP}.DiscreteLookup([{CMP}.Comparison('1', 'M')], 40)])"),
                                                                          {"M": ("Int", 1, None)}, n),
        "lookup (float values as loaded from XML)": lambda n: ((f"BinaryDataEncoding(size_discrete_lookup_list=[{CMP}.DiscreteLookup([{CMP}.Comparison('1', 'M')], {float(n)!r})])"),
                                                               {"M": ("Int", 1, None)}, n),
    }
    for sname, mk in specs.items():
        site = f"{fi.key}::{sname}"
        bad = None
        n_cases = 0
        try:
            for off, n in itertools.product(range(8), lens):
                r = mk(n)
                if r is None:
                    continue
                src, items, size = r
                if off + size > 8 * len(PATTERN):
                    continue
                pkt = mk_packet(h, off, {k: h.val(kind, v, raw) for k, (kind, v, raw) in items.items()})
                kind, got = h.outcome(src + ".parse_value(pkt)", ENC, pkt=pkt)
                n_cases += 1
                want = left_padded(bits_of(PATTERN)[off:off + size])
                pos = cursor(h, pub(pkt, "raw_data"))
                ok = kind == "ok" and isinstance(got, bytes) and bytes(got) == want and getattr(got, "cls", "") == "BinaryParameter" \
                    and bytes(got.attrs.get("raw_value", b"?")) == want and pos == off + size
                if not ok:
                    bad = (f"length spec `{sname}`, start bit {off}, {size} bits: "
                           f"{'raises ' + str(got) if kind != 'ok' else 'value ' + bytes(got).hex() + ' cursor ' + str(pos)}; "
                           f"the field's bits are {want.hex() or '(empty)'} and the cursor must be {off + size}")
                    break
        except Unsupported as e:
            ctx.unknown("R7.bin", site, str(e))
            continue
        ctx.decide(bad is None, "R7.bin", site, f"{n_cases} (offset, length) cases", bad or "", where=where(fi, fi.node))
    # no lookup entry matches -> error (not a silent length)
    site = f"{fi.key}::lookup without a match"
    try:
        src = f"BinaryDataEncoding(size_discrete_lookup_list=[{CMP}.DiscreteLookup([{CMP}.Comparison('7', 'M')], 8)]).parse_value(pkt)"
        kind, got = h.outcome(src, ENC, pkt=mk_packet(h, 0, {"M": h.val("Int", 1)}))
        ctx.decide(kind == "raise", "R7.bin", site, "", f"a lookup list without a matching entry yields {got!r} instead of failing", where=where(fi, fi.node))
    except Unsupported as e:
        ctx.unknown("R7.bin", site, str(e))


def string_table(ctx: Ctx, h: Harness):
    fi = ctx.prog.func(f"{ENC}::StringDataEncoding.parse_value")
    texts = {
        "US-ASCII": ("US-ASCII", b"Hi!Xyz\x00AB", "58", 1),
        "UTF-8": ("UTF-8", "aé!Xyz".encode("utf-8") + b"Z", "58", 1),
        # single-byte code pages differ exactly in 0x80-0x9F (Windows-1252: printable; ISO-8859-1: C1 controls)
        "Windows-1252": ("Windows-1252", b"\x80a\x9fXyz\x00AB", "58", 1),
        "ISO-8859-1": ("ISO-8859-1", b"\x80\xe9\x9fXyz\x00AB", "58", 1),
        "UTF-16BE": ("UTF-16BE", "Hi!X".encode("utf-16-be") + b"\x00Q", "0058", 2),
        "UTF-16LE": ("UTF-16LE", "Hi!X".encode("utf-16-le") + b"Q\x00", "5800", 2),
    }
    for ename, (enc, payload, term_hex, cw) in texts.items():
        for off in (0, 3, 5):
            # buffer: `off` junk bits, then the payload bits, then trailing junk
            allbits = "1" * off + bits_of(payload) + "10110"
            data = right_padded(allbits)
            # (a) whole buffer, fixed length, also a length that is not a whole number of bytes
            for nbits, label in ((cw * 8 * 3, "whole buffer"), (cw * 8 * 3 + 4 if enc in ("US-ASCII", "UTF-8", "Windows-1252", "ISO-8859-1") else None, "whole buffer, length not a multiple of 8")):
                if nbits is None:
                    continue
                site = f"{fi.key}::{ename}::offset {off}::{label}"
                field = allbits[off:off + nbits]
                rawbuf = right_padded(field)
                try:
                    pkt = mk_packet(h, off, {}, data)
                    kind, got = h.outcome(f"StringDataEncoding(encoding={enc!r}, fixed_raw_length={nbits}).parse_value(pkt)", ENC, pkt=pkt)
                    try:
                        want = rawbuf.decode(enc)
                        ok = kind == "ok" and str(got) == want and got.attrs.get("raw_value") == rawbuf and type(got.attrs.get("raw_value")) is bytes \
                            and cursor(h, pub(pkt, "raw_data")) == off + nbits and getattr(got, "cls", "") == "StrParameter"
                    except UnicodeDecodeError:
                        ok = kind == "raise"
                        want = "<undecodable>"
                    ctx.decide(ok, "R7.str", site, "", _why(kind, got, pkt, want, rawbuf, off + nbits), where=where(fi, fi.node))
                except Unsupported as e:
                    ctx.unknown("R7.str", site, str(e))
            # (b) termination character: text before the first terminator; cursor still advances by the whole buffer
            nbits = 8 * len(payload)
            site = f"{fi.key}::{ename}::offset {off}::termination character"
            try:
                pkt = mk_packet(h, off, {}, data)
                kind, got = h.outcome(f"StringDataEncoding(encoding={enc!r}, fixed_raw_length={nbits}, termination_character={term_hex!r}).parse_value(pkt)",
                                      ENC, pkt=pkt)
                rawbuf = right_padded(allbits[off:off + nbits])
                idx = rawbuf.index(bytes.fromhex(term_hex))
                want = rawbuf[:idx].decode(enc)
                ok = kind == "ok" and str(got) == want and got.attrs.get("raw_value") == rawbuf and cursor(h, pub(pkt, "raw_data")) == off + nbits
                ctx.decide(ok, "R7.str", site, "", _why(kind, got, pkt, want, rawbuf, off + nbits), where=where(fi, fi.node))
            except Unsupported as e:
                ctx.unknown("R7.str", site, str(e))
        # (b2) the terminator is the last character of the buffer
        site = f"{fi.key}::{ename}::terminator in the last slot"
        try:
            body = {"US-ASCII": b"AB", "UTF-8": b"AB", "UTF-16BE": "AB".encode("utf-16-be"), "UTF-16LE": "AB".encode("utf-16-le"),
                    "Windows-1252": b"\x80B", "ISO-8859-1": b"\xe9B"}[ename]
            buf = body + bytes.fromhex(term_hex)
            pkt = mk_packet(h, 0, {}, buf + b"\xff")
            kind, got = h.outcome(f"StringDataEncoding(encoding={enc!r}, fixed_raw_length={8 * len(buf)}, termination_character={term_hex!r}).parse_value(pkt)",
                                  ENC, pkt=pkt)
            want_txt = body.decode(enc)
            ok = kind == "ok" and str(got) == want_txt and got.attrs.get("raw_value") == buf and cursor(h, pub(pkt, "raw_data")) == 8 * len(buf)
            ctx.decide(ok, "R7.str", site, "", _why(kind, got, pkt, want_txt, buf, 8 * len(buf)), where=where(fi, fi.node))
        except Unsupported as e:
            ctx.unknown("R7.str", site, str(e))
    # (b3) generic UTF-16 (byte order mark) with a leading size tag whose length is not a multiple of 32 bits
    for nch in (2, 4, 6):
        site = f"{fi.key}::UTF-16 leading size::{nch} chars"
        try:
            text = ("ABCDEF"[:nch]).encode("utf-16")            # BOM + native order
            field = format(8 * len(text), "016b") + bits_of(text)
            data = right_padded(field + "1")
            pkt = mk_packet(h, 0, {}, data)
            kind, got = h.outcome(f"StringDataEncoding(encoding='UTF-16', byte_order='leastSignificantByteFirst', fixed_raw_length={len(field)}, "
                                  f"leading_length_size=16).parse_value(pkt)", ENC, pkt=pkt)
            ok = kind == "ok" and str(got) == "ABCDEF"[:nch] and cursor(h, pub(pkt, "raw_data")) == len(field)
            ctx.decide(ok, "R7.str", site, "", _why(kind, got, pkt, "ABCDEF"[:nch], right_padded(field), len(field)), where=where(fi, fi.node))
        except Unsupported as e:
            ctx.unknown("R7.str", site, str(e))
    # (c) leading size tag (bits), several tag widths and offsets
    fi2 = fi
    for off, tagw, nchars in itertools.product((0, 2, 7), (8, 5, 16), (0, 1, 3)):
        site = f"{fi.key}::leading size::offset {off}, {tagw}-bit tag, {nchars} chars"
        text = b"ABCDE"[:nchars]
        tagbits = format(8 * nchars, f"0{tagw}b")
        field = tagbits + bits_of(text) + "1101101"          # slack after the text inside the buffer
        allbits = "0" * off + field + "111"
        data = right_padded(allbits)
        nbits = len(field)
        try:
            pkt = mk_packet(h, off, {}, data)
            kind, got = h.outcome(f"StringDataEncoding(encoding='US-ASCII', fixed_raw_length={nbits}, leading_length_size={tagw}).parse_value(pkt)", ENC, pkt=pkt)
            rawbuf = right_padded(field)
            want = text.decode("ascii")
            ok = kind == "ok" and str(got) == want and got.attrs.get("raw_value") == rawbuf and cursor(h, pub(pkt, "raw_data")) == off + nbits
            ctx.decide(ok, "R7.str", site, "", _why(kind, got, pkt, want, rawbuf, off + nbits), where=where(fi2, fi2.node))
        except Unsupported as e:
            ctx.unknown("R7.str", site, str(e))
    # (d) the three length specifications for strings, incl. lookup value 0 and selector raw/calibrated
    data = right_padded("101" + bits_of(b"QRSTUV") + "1")
    lspecs = {
        "reference (calibrated)": ("dynamic_length_reference='N'", {"N": ("Float", 16.0, 3)}, 16),
        "reference (raw)": ("dynamic_length_reference='N', use_calibrated_value=False", {"N": ("Float", 99.0, 24)}, 24),
        "reference (raw) with adjustment 8x+8": ("dynamic_length_reference='N', use_calibrated_value=False, length_linear_adjuster=lambda x: 8 * x + 8", {"N": ("Float", 77.0, 2)}, 24),
        "reference of 12 bits (not a whole byte)": ("dynamic_length_reference='N'", {"N": ("Int", 12, None)}, 12),
        "lookup, first match is 0 bits": (f"discrete_lookup_length=[{CMP}.DiscreteLookup([{CMP}.Comparison('1', 'M')], 0), {CMP}.DiscreteLookup([{CMP}.Comparison('1', 'M')], 16)]",
                                          {"M": ("Int", 1, None)}, 0),
        "lookup, second entry matches": (f"discrete_lookup_length=[{CMP}.DiscreteLookup([{CMP}.Comparison('2', 'M')], 8), {CMP}.DiscreteLookup([{CMP}.Comparison('1', 'M')], 16.0)]",
                                         {"M": ("Int", 1, None)}, 16),
    }
    for lname, (args, items, size) in lspecs.items():
        site = f"{fi.key}::length::{lname}"
        try:
            off = 3
            pkt = mk_packet(h, off, {k: h.val(kind, v, raw) for k, (kind, v, raw) in items.items()}, data)
            kind, got = h.outcome(f"StringDataEncoding(encoding='US-ASCII', {args}).parse_value(pkt)", ENC, pkt=pkt)
            field = bits_of(data)[off:off + size]
            rawbuf = right_padded(field)
            try:
                want = rawbuf.decode("ascii")
                ok = kind == "ok" and str(got) == want and got.attrs.get("raw_value") == rawbuf and cursor(h, pub(pkt, "raw_data")) == off + size
            except UnicodeDecodeError:
                want = "<undecodable>"
                ok = kind == "raise" or cursor(h, pub(pkt, "raw_data")) == off + size
            ctx.decide(ok, "R7.str", site, "", _why(kind, got, pkt, want, rawbuf, off + size), where=where(fi, fi.node))
        except Unsupported as e:
            ctx.unknown("R7.str", site, str(e))
    # (d2) a leading size tag inside a buffer whose length comes from each of the three length specifications: the computed
    # length is the whole raw buffer, tag included
    field = format(16, "08b") + bits_of(b"ABC")
    data2 = right_padded("101" + field + bits_of(b"Z") + "1")
    tagged = {
        "fixed": ("fixed_raw_length=32", {}),
        "reference (calibrated)": ("dynamic_length_reference='N'", {"N": ("Float", 32.0, 3)}),
        "reference (raw) with adjustment 8x": ("dynamic_length_reference='N', use_calibrated_value=False, length_linear_adjuster=lambda x: 8 * x", {"N": ("Float", 77.0, 4)}),
        "lookup": (f"discrete_lookup_length=[{CMP}.DiscreteLookup([{CMP}.Comparison('1', 'M')], 32)]", {"M": ("Int", 1, None)}),
    }
    for lname, (args, items) in tagged.items():
        site = f"{fi.key}::length::{lname} + leading size"
        try:
            pkt = mk_packet(h, 3, {k: h.val(kind, v, raw) for k, (kind, v, raw) in items.items()}, data2)
            kind, got = h.outcome(f"StringDataEncoding(encoding='US-ASCII', {args}, leading_length_size=8).parse_value(pkt)", ENC, pkt=pkt)
            rawbuf = right_padded(field)
            ok = kind == "ok" and str(got) == "AB" and got.attrs.get("raw_value") == rawbuf and cursor(h, pub(pkt, "raw_data")) == 3 + 32
            ctx.decide(ok, "R7.str", site, "", _why(kind, got, pkt, "AB", rawbuf, 3 + 32), where=where(fi, fi.node))
        except Unsupported as e:
            ctx.unknown("R7.str", site, str(e))


def _why(kind, got, pkt, want, rawbuf, pos):
    if kind != "ok":
        return f"raises {got}; expected text {want!r}, raw buffer {rawbuf.hex()}, cursor {pos}"
    return (f"text {str(got)!r}, raw value {got.attrs.get('raw_value')!r}, cursor {cursor(None, pub(pkt, 'raw_data'))}; "
            f"expected text {want!r}, raw buffer {rawbuf!r}, cursor {pos}")


def xml_lengths(ctx: Ctx):
    """Length specifications as declared in a document."""
    prog = ctx.prog
    h = X.harness(prog)
    ns = X.URI
    X.set_ns_state(h, "xtce", {"xtce": ns})

    def E(tag, attrib=None, children=None, text=None):
        return make_elem(clark(ns, tag), attrib or {}, text, children=children or [])
    data = right_padded("1" + bits_of(b"KLMNOPQ"))
    cases = []
    for cls, wrapper in (("BinaryDataEncoding", lambda dyn: E("BinaryDataEncoding", children=[E("SizeInBits", children=[dyn])])),
                         ("StringDataEncoding", lambda dyn: E("StringDataEncoding", {"encoding": "US-ASCII"}, [E("Variable", children=[dyn])]))):
        for usecal, attr in ((True, None), (True, "true"), (False, "false"), (False, "False"), (False, "0"), (True, "1")):   # xs:boolean: true | false | 1 | 0
            ref = E("ParameterInstanceRef", dict({"parameterRef": "N"}, **({"useCalibratedValue": attr} if attr else {})))
            dyn = E("DynamicValue", children=[ref, E("LinearAdjustment", {"slope": "8", "intercept": "-8"})])
            cases.append((cls, f"DynamicValue useCalibratedValue={attr!r} with LinearAdjustment 8x-8", wrapper(dyn), usecal))
        dyn = E("DynamicValue", children=[E("ParameterInstanceRef", {"parameterRef": "N", "useCalibratedValue": "false"}),
                                          E("LinearAdjustment", {"slope": "8"})])
        cases.append((cls, "LinearAdjustment with slope only", wrapper(dyn), "slope-only"))
        dyn = E("DynamicValue", children=[E("ParameterInstanceRef", {"parameterRef": "N", "useCalibratedValue": "false"}),
                                          E("LinearAdjustment", {"intercept": "16"})])
        cases.append((cls, "LinearAdjustment with intercept only (XTCE default slope 0)", wrapper(dyn), "intercept-only"))
        lk = E("DiscreteLookupList", children=[
            E("DiscreteLookup", {"value": "8"}, [E("Comparison", {"parameterRef": "N", "value": "9", "useCalibratedValue": "false"})]),
            E("DiscreteLookup", {"value": "24"}, [E("ComparisonList", children=[E("Comparison", {"parameterRef": "N", "value": "2", "useCalibratedValue": "false"}),
                                                                                 E("Comparison", {"parameterRef": "N", "value": "4"})])])])
        cases.append((cls, "DiscreteLookupList (second entry, comparison list)", wrapper(lk), "lookup"))
    for cls, desc, elem, mode in cases:
        site = f"{ENC}::{cls}.from_xml::{desc}"
        attach_nsmap(elem)
        try:
            enc = h.ev(f"{cls}.from_xml(el)", ENC, el=elem)
            pkt = mk_packet(h, 1, {"N": h.val("Float", 4.0, 2)}, data)     # calibrated 4, raw 2
            kind, got = h.outcome("enc.parse_value(pkt)", ENC, enc=enc, pkt=pkt)
            if mode == "lookup":
                size = 24
            elif mode == "slope-only":
                size = 8 * 2
            elif mode == "intercept-only":
                size = 16
            else:
                size = 8 * (4 if mode else 2) - 8
            pos = cursor(h, pub(pkt, "raw_data"))
            ctx.decide(kind == "ok" and pos == 1 + size, "R7.xml", site, f"{size} bits",
                       f"{cls} loaded from a document with {desc}: {'raises ' + str(got) if kind != 'ok' else 'consumed ' + str(pos - 1) + ' bits'}; "
                       f"the declared length is {size} bits")
        except Raised as r:
            ctx.refuted("R7.xml", site, f"{cls} with {desc} cannot be loaded/decoded: {r.exc.tname} {r.exc.args}")
        except Unsupported as e:
            ctx.unknown("R7.xml", site, str(e))


def declared_charsets(ctx: Ctx):
    """Every character-set name XTCE enumerates, as the `encoding` attribute of a declared string encoding (exact spelling, mixed
    case included): the document loads and the field decodes in that character set."""
    from ..xmlmodel import make_elem, clark, attach_nsmap
    from . import xmlcommon as X
    prog = ctx.prog
    h = X.harness(prog)
    ns = X.URI
    X.set_ns_state(h, "xtce", {"xtce": ns})
    E = lambda tag, attrib=None, children=None, text=None: make_elem(clark(ns, tag), attrib or {}, text, children=children or [])   # noqa: E731
    for cs, codec, width in (("US-ASCII", "ascii", 1), ("ISO-8859-1", "latin-1", 1), ("Windows-1252", "cp1252", 1), ("UTF-8", "utf-8", 1),
                             ("UTF-16BE", "utf-16-be", 2), ("UTF-16LE", "utf-16-le", 2), ("UTF-32BE", "utf-32-be", 4), ("UTF-32LE", "utf-32-le", 4)):
        site = f"{ENC}::StringDataEncoding.from_xml::encoding={cs!r}"
        text = "A\u00e9" if codec in ("latin-1", "cp1252") else "AZ"
        raw = text.encode(codec)
        el = E("StringDataEncoding", {"encoding": cs}, [E("SizeInBits", children=[E("Fixed", children=[E("FixedValue", text=str(8 * len(raw)))])])])
        attach_nsmap(el)
        try:
            enc = h.ev("StringDataEncoding.from_xml(el)", ENC, el=el)
            kind, got = h.outcome("enc.parse_value(pkt)", ENC, enc=enc, pkt=mk_packet(h, 0, {}, raw + b"\xff"))
            ctx.decide(kind == "ok" and str(got) == text, "R7.xml", site, "", f"a string declared with encoding={cs!r}: "
                       f"{'raises ' + str(got) if kind != 'ok' else 'decodes to ' + repr(str(got))}; the bytes {raw.hex()} are {text!r} in that character set")
        except Raised as r:
            ctx.refuted("R7.xml", site, f"a string encoding declared with encoding={cs!r} cannot be loaded: {r.exc.tname} {r.exc.args}")
        except Unsupported as e:
            ctx.unknown("R7.xml", site, str(e))


def _adjuster_factory(prog):
    """Linear adjusters built by the library's own LinearAdjustment reader from a model element."""
    from ..xmlmodel import make_elem
    from . import xmlcommon as X
    hx = X.harness(prog)
    X.set_ns_state(hx, None, {})

    def mk(slope, intercept):
        el = make_elem("P", children=[make_elem("LinearAdjustment", {"slope": str(slope), "intercept": str(intercept)})])
        return hx.ev(X.adjuster_factory(prog) + "(el)", ENC, el=el)
    return mk


def check(ctx: Ctx) -> None:
    h = Harness(ctx.prog)
    try:
        h.it.ext["encodings_adjuster"] = _adjuster_factory(ctx.prog)
    except Exception:
        pass
    ctx.guard("R7.bin", ENC, binary_table, ctx, h)
    ctx.guard("R7.str", ENC, string_table, ctx, h)
    ctx.guard("R7.xml", ENC, xml_lengths, ctx)
    ctx.guard("R7.xml", ENC, declared_charsets, ctx)
    # a length lookup whose first entry is only partly satisfied (all criteria of an entry must hold), end to end
    from .c01 import end_to_end_second
    ctx.guard("R7.e2", ENC, end_to_end_second, ctx, "R7.e2")
    # the computed length is a function of this packet only: the string / binary decoders keep nothing between packets
    from ..callgraph import CallGraph
    from .c11 import effect_rule
    roots = [f"{ENC}::StringDataEncoding.parse_value", f"{ENC}::BinaryDataEncoding.parse_value"]
    ctx.guard("R7.pure", ENC, effect_rule, ctx, CallGraph(ctx.prog), roots, "R7.pure", "string / binary decoding")


def mutants(prog):
    import re
    src = prog.files[ENC]
    out = []

    def sub(name, pattern, repl, expect="R7", flags=0):
        new, n = re.subn(pattern, repl, src, count=1, flags=flags)
        if n:
            out.append((name, ENC, new, expect))

    sub("xs:boolean 1 read as false (binary length reference)", r"param_inst_ref\.attrib\.get\('useCalibratedValue', \"true\"\)\.lower\(\) in \(\"true\", \"1\"\)",
        "param_inst_ref.attrib.get('useCalibratedValue', \"true\").lower() == \"true\"", "R7.xml")
    sub("xs:boolean 0 read as true (string length reference)", r"parameter_instance_ref_element\.attrib\.get\('useCalibratedValue', \"true\"\)\.lower\(\) in \(\"true\", \"1\"\)",
        "parameter_instance_ref_element.attrib.get('useCalibratedValue', \"true\").lower() != \"false\"", "R7.xml")
    sub("string lookup by truthiness", r"buflen_bits = discrete_lookup\.evaluate\(packet\)\n                if buflen_bits is not None:", "buflen_bits = discrete_lookup.evaluate(packet)\n                if buflen_bits:")
    sub("binary lookup by truthiness", r"len_bits = discrete_lookup\.evaluate\(packet\)\n                if len_bits is not None:", "len_bits = discrete_lookup.evaluate(packet)\n                if len_bits:")
    sub("binary selector inverted", r"            if self\.use_calibrated_value:\n                len_bits = packet\[field_length_reference\]\n", "            if not self.use_calibrated_value:\n                len_bits = packet[field_length_reference]\n")
    sub("string selector ignored", r"            if self\.use_calibrated_value:\n                buflen_bits = packet\[self\.dynamic_length_reference\]\n            else:\n                buflen_bits = packet\[self\.dynamic_length_reference\]\.raw_value",
        "            if True:\n                buflen_bits = packet[self.dynamic_length_reference]\n            else:\n                buflen_bits = packet[self.dynamic_length_reference].raw_value")
    sub("string reads the padded length", r"packet\.raw_data\.read_as_int\(buflen_bits\) << pad_bits", "packet.raw_data.read_as_int(buflen_bytes * 8) >> 0 << 0 if False else packet.raw_data.read_as_int(buflen_bits + pad_bits)")
    sub("pad on the left", r"\(\n                packet\.raw_data\.read_as_int\(buflen_bits\) << pad_bits\n        \)\.to_bytes", "(\n                packet.raw_data.read_as_int(buflen_bits)\n        ).to_bytes")
    sub("terminator included", r"raw_string_buffer\.read_as_bytes\(tchar_byte_index \* 8\)", "raw_string_buffer.read_as_bytes(tchar_byte_index * 8 + 8)")
    sub("raw value is the derived text's bytes", r"return common\.StrParameter\(parsed_string, bytes\(raw_string_buffer\)\)", "return common.StrParameter(parsed_string, parsed_string.encode(self.encoding))")
    sub("leading size read as bytes", r"strlen_bits = raw_string_buffer\.read_as_int\(self\.leading_length_size\)", "strlen_bits = raw_string_buffer.read_as_int(self.leading_length_size) * 8")
    sub("binary adjuster applied before the lookup only", r"        if self\.linear_adjuster is not None:\n            len_bits = self\.linear_adjuster\(len_bits\)\n", "")
    sub("binary read as int then bytes (right padding lost)", r"parsed_value = packet\.raw_data\.read_as_bytes\(nbits\)", "parsed_value = packet.raw_data.read_as_bytes((nbits + 7) // 8 * 8)")
    sub("string useCalibratedValue read from the wrong element", r"parameter_instance_ref_element\.attrib\.get\('useCalibratedValue', \"true\"\)", "dynamic_value_element.attrib.get('useCalibratedValue', \"true\")", "R7.xml")
    sub("missing slope defaults to 1", r"if 'slope' in linear_adjustment_element\.attrib else 0\)", "if 'slope' in linear_adjustment_element.attrib else 1)", "R7")
    return out


SPEC = PropSpec(
    pid="C07",
    title="String and binary fields, including computed lengths, decode as documented",
    check=check,
    floors={"R7.bin": 7, "R7.str": 40, "R7.xml": 10, "R7.e2": 10, "R7.pure": 3},
    explanation=("Decision tables by abstract interpretation of BinaryDataEncoding / StringDataEncoding (parse_value, "
                 "_calculate_size, _get_raw_buffer, the linear adjuster, the cursor readers) against the checker's own "
                 "bit-string reference: binary fields for all start offsets 0..7 x nine lengths x six length "
                 "specifications (fixed, reference calibrated / raw / raw with adjustment, lookup with several matching "
                 "entries, lookup with float values as loaded from XML) - value left-padded, raw value, cursor; strings "
                 "for four character encodings x offsets: whole buffer (also a length that is not a whole byte), text "
                 "before the first termination character, leading size tag of 5/8/16 bits, and the length specifications "
                 "incl. a matching lookup of 0 bits - text, whole raw buffer right-padded, cursor advanced by exactly the "
                 "computed length. R7.xml: encodings read from model XML elements (useCalibratedValue in every "
                 "spelling, LinearAdjustment, lookup lists) consume the declared number of bits. Character decoding "
                 "itself is Python's codec (trusted)."
                 ' R7.e2: the second end-to-end document of C01 (a length lookup whose first entry is only partly satisfied).'
                 ' R7.pure: the string / binary decoders keep nothing between packets (effect analysis); single-byte code pages are told apart in 0x80-0x9F (Windows-1252 vs ISO-8859-1).'
                 ' R7.str also crosses the leading size tag with every length specification (fixed, reference calibrated / raw with adjustment, lookup): the computed length is the whole raw buffer, tag included.'
                 ' R7.xml also covers the four xs:boolean spellings of useCalibratedValue and every character-set name XTCE enumerates as declared.'),
    rule_doc="R7.bin per length specification over 8 offsets x 9 lengths; R7.str per (encoding, offset, delimiting) and per length spec; R7.xml per declared form",
    assumptions=["Python codecs", "cursor reads are exact (C03)", "criteria evaluation (C06)"],
    mutants=mutants,
    technique="decision tables by abstract interpretation against a bit-string reference; reader interpreted on the XML model",
)

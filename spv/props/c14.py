"""C14 - bit consumption is accounted for; over-reads are never delivered as clean data (DESIGN 5, C14).

R14.1  must-facts: every cursor advance ``self.pos += n`` in RawPacketData is reached only with
       ``pos + n <= 8*len(self)`` and ``n >= 0`` established by a raising guard (forward dataflow; refutation by a
       witness path plus a small integer model of path-facts AND not-requirement).
R14.2  who-may-write: ``.pos`` is stored only by RawPacketData's own methods; ``_extract_bits`` is called only
       inside packets.py (decoders cannot bypass the cursor).
R14.3  decision table of the final comparison in packet_generator: consumed-bits delta in {-9..+9} x parse_bad_pkts:
       warning iff delta != 0, withheld iff delta != 0 and bad packets are excluded.
R14.4  end-to-end decision table (abstract interpretation of the whole decode path on model definitions): a
       length-dependent layout x packets shorter than / equal to / longer than what the definition consumes,
       including computed lengths that are negative or reach past the end: clean delivery iff exact consumption.
"""
from __future__ import annotations

import ast
import itertools

from ..affine import Aff, AffBuilder
from ..astutil import dotted, norm, walk_local
from ..cfg import CFG
from ..core import Ctx, PropSpec, Unsupported
from ..extract import where
from ..facts import FactFlow, entails
from ..normalize import inline_helpers
from ..roles import bits_fn, bits_name
from ..harness import Harness
from ..interp import pub, ExcVal, Obj, Raised
from ..models import ccsds_bytes, make_interp, model_definition, raw_packet, source_externals

PK = "packets.py"
DEF = "xtce/definitions.py"
GEN = f"{DEF}::XtcePacketDefinition.packet_generator"


def small_model(facts, negreq, atoms):
    """A small integer assignment satisfying all facts and negreq (each g >= 0); None if none in the box."""
    # only the facts connected to the requirement matter (others constrain unrelated variables)
    rel = set(negreq.atoms())
    changed = True
    while changed:
        changed = False
        for f in facts:
            if f.atoms() & rel and not f.atoms() <= rel:
                rel |= f.atoms()
                changed = True
    facts = [f for f in facts if f.atoms() & rel]
    atoms = sorted(a for a in rel if not a.startswith(("div8(", "mod8(", "pow2(")))
    if len(atoms) > 4 or any(a.startswith(("div8(", "mod8(", "pow2(")) for a in rel):
        return None
    ranges = []
    for a in atoms:
        ranges.append(range(0, 5) if a.startswith("len(") else range(-9, 41, 1))

    def val(aff: Aff, env):
        s = aff.const
        for a, c in aff.terms.items():
            if a not in env:
                return None
            s += c * env[a]
        return s
    for combo in itertools.product(*ranges):
        env = dict(zip(atoms, combo))
        ok = True
        for g in list(facts) + [negreq]:
            v = val(g, env)
            if v is None or v < 0:
                ok = False
                break
        if ok:
            return env
    return None


def guarded_advance(ctx: Ctx):
    prog = ctx.prog
    ci = prog.cls("RawPacketData")
    n_adv = 0
    for mname, fi in ci.methods.items():
        fi = inline_helpers(prog, fi)
        advs = [n for n in walk_local(fi.node) if isinstance(n, (ast.AugAssign, ast.Assign)) and
                any(dotted(t) == f"{fi.params[0]}.pos" for t in ([n.target] if isinstance(n, ast.AugAssign) else n.targets))] \
            if fi.params else []
        if not advs:
            continue
        SELF = fi.params[0]

        def res(e, fi=fi):
            c = prog.fold_opt(e, PK, cls="RawPacketData") if isinstance(e, ast.Attribute) and dotted(e) != f"{SELF}.pos" else None
            return Aff.k(c) if isinstance(c, int) and not isinstance(c, bool) else None
        b = AffBuilder(res)
        cfg = CFG(fi.node)
        ff = FactFlow(cfg, b)
        for adv in advs:
            n_adv += 1
            if mname in ("__init__", "__new__"):
                continue        # initialisation of the cursor is not an advance
            try:
                if isinstance(adv, ast.AugAssign) and isinstance(adv.op, ast.Add):
                    d = b.build(adv.value)
                elif isinstance(adv, ast.Assign) and len(adv.targets) == 1:
                    d = b.build(adv.value) - Aff.atom(f"{SELF}.pos")       # pos = E  advances by E - pos
                else:
                    ctx.unknown("R14.1", f"{fi.key}::{norm(adv)}", "cursor written by something other than `pos += n` / `pos = e`",
                                where=where(fi, adv))
                    continue
            except Unsupported as e:
                ctx.unknown("R14.1", f"{fi.key}::{norm(adv)}", str(e))
                continue
            node = cfg.node_of(adv)
            reqs = [("end-guard", Aff.atom(f"len({SELF})").scale(8) - Aff.atom(f"{SELF}.pos") - d,
                     "the read may run past the end of the packet: the remaining bits are returned as if they were the "
                     "whole field and the cursor moves beyond the end"),
                    ("sign-guard", d, "a negative width moves the cursor backwards; later fields re-read the same bits and "
                                      "the packet can still end exactly on its last bit")]
            for name, req, consequence in reqs:
                site = f"{fi.key}::{name}"
                if ff.proves(node.id, req):
                    ctx.proved("R14.1", site, f"{req!r} >= 0 established by a raising guard on every path", where=where(fi, adv))
                    continue
                # refutation: some path reaches the advance with facts compatible with NOT req
                negreq = -req - Aff.k(1)
                witness = None
                path = None
                # all path fact-sets reaching the node (BFS states)
                for facts, pth in _paths_to(ff, cfg, node.id):
                    atoms = set(negreq.atoms())
                    for f in facts:
                        atoms |= f.atoms()
                    m = small_model(facts, negreq, atoms)
                    if m is not None:
                        witness, path = m, pth
                        break
                if witness is not None:
                    ctx.refuted("R14.1", site, f"`{norm(adv)}` is reachable with {witness}: {consequence}",
                                where=where(fi, adv), model=witness,
                                path=cfg.describe_path(path[-8:], "space_packet_parser/" + PK))
                else:
                    ctx.unknown("R14.1", site, f"cannot establish {req!r} >= 0 before `{norm(adv)}`", where=where(fi, adv))
    ctx.stats["cursor_advances"] = n_adv


def _paths_to(ff: FactFlow, cfg: CFG, target: int, limit: int = 3000):
    """Distinct (facts, path) states reaching target, breadth-first; tests outside the affine vocabulary make a path
    opaque (skipped: no model-based refutation through them)."""
    from collections import deque
    from ..affine import cmp_to_aff
    start = (cfg.entry, frozenset(), False)
    prev = {start: None}
    q = deque([start])
    n = 0
    while q:
        st = q.popleft()
        nid, facts, opaque = st
        n += 1
        if n > limit:
            return
        if nid == target:
            if not opaque:
                path = []
                cur = st
                while prev[cur] is not None:
                    p, lab = prev[cur]
                    path.append((p[0], lab))
                    cur = p
                path.reverse()
                yield set(facts), path
            continue
        node = cfg.nodes[nid]
        base = ff.transfer_stmt(node, set(facts))
        for t, lab in cfg.succ[nid]:
            if lab == "exc":
                continue
            op2 = opaque
            if node.kind == "test" and lab in (True, False):
                try:
                    cmp_to_aff(node.ast, ff.b.build)
                except Unsupported:
                    op2 = True
            out = frozenset(ff.edge_facts(node, lab, base))
            nxt = (t, out, op2)
            if nxt not in prev:
                prev[nxt] = (st, lab)
                q.append(nxt)


def single_writer(ctx: Ctx):
    prog = ctx.prog
    writers = []
    for fi in prog.functions.values():
        for n in walk_local(fi.node):
            tgts = []
            if isinstance(n, ast.Assign):
                tgts = n.targets
            elif isinstance(n, (ast.AugAssign, ast.AnnAssign)):
                tgts = [n.target]
            elif isinstance(n, ast.Call) and dotted(n.func) == "setattr" and len(n.args) >= 2 and \
                    isinstance(n.args[1], ast.Constant) and n.args[1].value == "pos":
                tgts = [ast.Attribute(value=n.args[0], attr="pos", ctx=ast.Store())]
            for t in tgts:
                if isinstance(t, ast.Attribute) and t.attr == "pos":
                    writers.append((fi, n))
    ok_n = 0
    for fi, n in writers:
        inside = fi.cls is not None and fi.cls.name == "RawPacketData"
        if inside:
            ok_n += 1
            ctx.proved("R14.2", f"{fi.key}::{norm(n)}", "cursor written by RawPacketData itself")
        else:
            ctx.refuted("R14.2", f"{fi.key}::{norm(n)}",
                        "the bit cursor is written outside RawPacketData: consumption is no longer accounted for by the reads",
                        where=where(fi, n))
    if ok_n == 0:
        ctx.unknown("R14.2", f"{PK}::RawPacketData", "no cursor write found at all")
    for fi in prog.functions.values():
        for n in walk_local(fi.node):
            if isinstance(n, ast.Call) and (dotted(n.func) or "").split(".")[-1] == bits_name(prog) and fi.relpath not in (PK, getattr(bits_fn(prog), "relpath", PK)):
                ctx.refuted("R14.2", f"{fi.key}::_extract_bits", "a decoder extracts bits without moving the cursor", where=where(fi, n))
    ctx.proved("R14.2", f"{PK}::_extract_bits::callers", "only called inside packets.py")


def final_comparison(ctx: Ctx):
    prog = ctx.prog
    fi = prog.func(GEN)
    for pbp in (True, False, 0, 1):        # the option is tested for truth: 0 excludes bad packets like False does
        site = f"{GEN}::final-comparison::parse_bad_pkts={pbp!r}"
        bad = None
        try:
            for delta, flags in [(dl, 3) for dl in range(-9, 10)] + [(dl, fl) for fl in (0, 1, 2) for dl in (-8, -1, 0, 1, 16)]:
                warned = []

                def parse_stub(selfv, packet, root_container_name=None, delta=delta):
                    raw = pub(packet, "raw_data")
                    raw.attrs["pos"] = 8 * len(raw) + delta
                    return packet
                it = make_interp(prog, {"XtcePacketDefinition.parse_ccsds_packet": parse_stub,
                                        "space_packet_parser.packets.ccsds_generator": lambda b, **k: b})
                it.on_event = lambda ev: warned.append(1) if ev[0] == "warn" else None
                # the accounting does not depend on the sequence flags: a segment parsed on its own is a packet like any other
                ys = it.call(fi, [model_definition(it, "R"), [raw_packet(b"\x01\x02\x03", apid=9, flags=flags)]],
                             {"parse_bad_pkts": pbp})
                want_warn = delta != 0
                want_yield = delta == 0 or bool(pbp)
                if bool(warned) != want_warn or (len(ys) == 1) != want_yield:
                    bad = (f"sequence flags {flags:02b}: definition consumed {delta:+d} bits relative to the packet length: warned={bool(warned)}, "
                           f"yielded={len(ys) == 1}; expected warned={want_warn}, yielded={want_yield}")
                    break
        except (Unsupported, Raised) as e:
            ctx.unknown("R14.3", site, str(e))
            continue
        ctx.decide(bad is None, "R14.3", site, "19 consumption deltas; every sequence-flag value", bad or "", where=where(fi, fi.node))


HDR = ('[parameters.Parameter(n, parameter_types.IntegerParameterType(n + "_T", '
       'parameter_types.encodings.IntegerDataEncoding(w, "unsigned"))) for n, w in [("VERSION", 3), ("TYPE", 1), '
       '("SEC_HDR_FLG", 1), ("PKT_APID", 11), ("SEQ_FLGS", 2), ("SRC_SEQ_CTR", 14), ("PKT_LEN", 16)]]')


def _u8(name):
    return (f'parameters.Parameter("{name}", parameter_types.IntegerParameterType("{name}_T", '
            f'parameter_types.encodings.IntegerDataEncoding(8, "unsigned")))')


LAYOUTS = {
    # name: (entries after the header, function(user bytes) -> bits consumed or None when a field is invalid)
    "fixed 3x8": ([_u8("A"), _u8("B"), _u8("C")], lambda u: 24),
    "fixed 12-bit int": ([f'parameters.Parameter("W", parameter_types.IntegerParameterType("W_T", parameter_types.encodings.IntegerDataEncoding(12, "unsigned")))'],
                         lambda u: 12),
    "binary sized by LEN*8-16, then TAIL": (
        [_u8("LEN"),
         'parameters.Parameter("BLOB", parameter_types.BinaryParameterType("BLOB_T", parameter_types.encodings.BinaryDataEncoding('
         'size_reference_parameter="LEN", linear_adjuster=lambda x: 8 * x - 16)))', _u8("TAIL")],
        lambda u: (None if not u or 8 * u[0] - 16 < 0 else 8 + (8 * u[0] - 16) + 8)),
    "binary sized by LEN*8 as last field": (
        [_u8("LEN"),
         'parameters.Parameter("BLOB", parameter_types.BinaryParameterType("BLOB_T", parameter_types.encodings.BinaryDataEncoding('
         'size_reference_parameter="LEN", linear_adjuster=lambda x: 8 * x)))'],
        lambda u: (None if not u else 8 + 8 * u[0])),
    "string sized by LEN bits (unaligned), then TAIL": (
        [_u8("LEN"),
         'parameters.Parameter("S", parameter_types.StringParameterType("S_T", parameter_types.encodings.StringDataEncoding('
         'dynamic_length_reference="LEN", encoding="US-ASCII")))', _u8("TAIL")],
        lambda u: (None if not u else 8 + u[0] + 8)),
    "one parameter listed twice (A, B, A)": (["*(lambda a: [a, " + _u8("B") + ", a])(" + _u8("A") + ")"], lambda u: 24),
    "string with an 8-bit leading size tag in a 24-bit buffer, then TAIL": (
        ['parameters.Parameter("LS", parameter_types.StringParameterType("LS_T", parameter_types.encodings.StringDataEncoding('
         'fixed_raw_length=24, leading_length_size=8, encoding="US-ASCII")))', _u8("TAIL")],
        lambda u: (None if not u or u[0] > 16 or u[0] % 8 else 32)),          # a tag that points beyond its buffer is invalid
    "32-bit int after one byte": ([_u8("A"), 'parameters.Parameter("BIG", parameter_types.IntegerParameterType("BIG_T", parameter_types.encodings.IntegerDataEncoding(32, "unsigned")))'],
                                  lambda u: 40),
    "32-bit float after one byte": ([_u8("A"), 'parameters.Parameter("FL", parameter_types.FloatParameterType("FL_T", parameter_types.encodings.FloatDataEncoding(32)))'],
                                    lambda u: 40),
}


def end_to_end(ctx: Ctx):
    prog = ctx.prog
    fi = prog.func(GEN)
    h = Harness(prog, source_externals(), max_steps=400000)
    total = 0
    for lname, (entries, consumed) in LAYOUTS.items():
        site = f"{GEN}::layout::{lname}"
        src = f'XtcePacketDefinition([containers.SequenceContainer("CCSDSPacket", {HDR} + [{", ".join(entries)}])])'
        bad = None
        try:
            d = h.ev(src, DEF)
            users = [bytes([0x41] * n) for n in range(1, 8)]
            for first in (0, 1, 2, 3, 5, 9, 12, 13, 20, 40):
                for n in (1, 2, 3, 4, 6):
                    users.append(bytes([first] + [0x41] * (n - 1)))
            for u in users:
                for pbp in (True, False):
                    total += 1
                    h.it.events.clear()
                    kind, got = h.outcome("d.packet_generator(src, parse_bad_pkts=pbp)", DEF, d=d, src=ccsds_bytes(u, apid=3), pbp=pbp)
                    warned = any(e[0] == "warn" for e in h.it.events)
                    c = consumed(u)
                    clean = c is not None and c == 8 * len(u)
                    if clean:
                        ok = kind == "ok" and len(got) == 1 and not warned
                    else:
                        # never delivered as clean: exception, or warning (and withheld when bad packets are excluded)
                        ok = kind == "raise" or (warned and (len(got) == (1 if pbp else 0)))
                    if not ok:
                        bad = (f"user data {u.hex()} ({8 * len(u)} bits), definition consumes "
                               f"{'an invalid (negative / empty) length' if c is None else str(c) + ' bits'}: "
                               f"{'raised ' + str(got) if kind != 'ok' else str(len(got)) + ' packet(s) yielded'}, "
                               f"warned={warned}, parse_bad_pkts={pbp}; "
                               f"{'must be delivered clean' if clean else 'must be flagged, withheld or fail - never clean'}")
                        break
                if bad:
                    break
        except Unsupported as e:
            ctx.unknown("R14.4", site, str(e))
            continue
        ctx.decide(bad is None, "R14.4", site, "", bad or "", where=where(fi, fi.node))
    ctx.stats["end_to_end_runs"] = total


def check(ctx: Ctx) -> None:
    from .c11 import reparse_rule
    ctx.guard("R14.fresh", "packets.py::CCSDSPacket", reparse_rule, ctx, "R14.fresh")    # consumption is counted from bit 0 of each parse
    ctx.guard("R14.1", f"{PK}::RawPacketData", guarded_advance, ctx)
    ctx.guard("R14.2", PK, single_writer, ctx)
    ctx.guard("R14.3", GEN, final_comparison, ctx)
    ctx.guard("R14.4", GEN, end_to_end, ctx)


def controls():
    files = {
        "packets.py": '''
class RawPacketData(bytes):
    pos = 0
    def read_as_int(self, nbits):
        v = 0
        self.pos += nbits
        return v
def _extract_bits(d, s, n):
    return 0
''',
        "xtce/encodings.py": '''
class BinaryDataEncoding:
    def parse_value(self, packet):
        packet.raw_data.pos += 8
''',
    }
    return [("unguarded advance", files, "R14.1"), ("cursor written by a decoder", files, "R14.2")]


def mutants(prog):
    import re
    out = []

    def sub(rel, name, pattern, repl, expect="R14", flags=0):
        src = prog.files[rel]
        new, n = re.subn(pattern, repl, src, count=1, flags=flags)
        if n:
            out.append((name, rel, new, expect))

    sub(PK, "end guard removed from read_as_int", r"(raise ValueError\(f\"Cannot read a negative number of bits \(\{nbits\}\)\"\)\n)        if self\.pos \+ nbits > len\(self\) \* 8:\n            raise ValueError\(\"End of packet reached\"\)\n(        int_data)", r"\1\2", "R14.1")
    sub(PK, "sign guard removed from read_as_bytes", r"        if nbits < 0:\n            raise ValueError\(f\"Cannot read a negative number of bits \(\{nbits\}\)\"\)\n(        if self\.pos \+ nbits > len\(self\) \* 8:\n            raise ValueError\(\"End of packet reached\"\)\n        if self\.pos % 8)", r"\1", "R14.1")
    sub(PK, "end guard off by one byte", r"if self\.pos \+ nbits > len\(self\) \* 8:\n            raise ValueError\(\"End of packet reached\"\)\n        int_data", "if self.pos + nbits > len(self) * 8 + 8:\n            raise ValueError(\"End of packet reached\")\n        int_data", "R14.1")
    sub(PK, "guard after the advance", r"(        if self\.pos \+ nbits > len\(self\) \* 8:\n            raise ValueError\(\"End of packet reached\"\)\n)(        int_data = _extract_bits\(self, self\.pos, nbits\)\n        self\.pos \+= nbits\n)", r"\2\1", "R14.1")
    sub(DEF, "one-sided final comparison", r"if packet\.raw_data\.pos != len\(packet\.raw_data\) \* 8:", "if packet.raw_data.pos < len(packet.raw_data) * 8:", "R14.3")
    sub(DEF, "byte-granular final comparison", r"if packet\.raw_data\.pos != len\(packet\.raw_data\) \* 8:", "if (packet.raw_data.pos + 7) // 8 != len(packet.raw_data):", "R14.3")
    sub(DEF, "bad packets always yielded", r"if not parse_bad_pkts:\n", "if False:\n", "R14.3")
    sub("xtce/encodings.py", "binary decoder clamps the length", r"nbits = self\._calculate_size\(packet\)\n        parsed_value", "nbits = max(0, self._calculate_size(packet))\n        parsed_value", "R14.4")
    sub("xtce/encodings.py", "binary decoder clamps to what remains", r"nbits = self\._calculate_size\(packet\)\n        parsed_value",
        "nbits = min(self._calculate_size(packet), len(packet.raw_data) * 8 - packet.raw_data.pos)\n        parsed_value", "R14.4")
    sub("xtce/encodings.py", "decoder resets the cursor", r"(nbits = self\._calculate_size\(packet\)\n)(        parsed_value = packet\.raw_data\.read_as_bytes)", r"\1        packet.raw_data.pos = min(packet.raw_data.pos, len(packet.raw_data) * 8)\n\2", "R14.2")
    return out


SPEC = PropSpec(
    pid="C14",
    title="Bit consumption is accounted for; over-reads are never delivered as clean data",
    check=check,
    floors={"R14.1": 2, "R14.2": 2, "R14.3": 2, "R14.4": 6, "R14.fresh": 1},
    fallback={"R14.1": ("R14.4",)},
    explanation=("R14.1: forward must-facts over the CFG of each RawPacketData method that advances the cursor: at every "
                 "`self.pos += n` the facts `8*len(self) - pos - n >= 0` and `n >= 0` must have been established by "
                 "raising guards on every path; otherwise a witness path plus a small integer model of (path facts AND "
                 "NOT requirement) is reported. R14.2: no function outside RawPacketData stores to `.pos`, and "
                 "_extract_bits has no caller outside packets.py, so decoders cannot consume bits unaccounted. R14.3: "
                 "decision table of the consumed-vs-available comparison for deltas -9..+9 x parse_bad_pkts. R14.4: "
                 "end-to-end decision table - the whole decode path (framer, container walk, decoders, readers) is "
                 "interpreted on model definitions with fixed and length-dependent layouts over packets shorter, "
                 "equal and longer than what the definition consumes, with computed lengths negative / zero / beyond "
                 "the end: clean delivery iff exact consumption, otherwise warning (+withheld) or exception."
                 ' R14.fresh: consumption is counted from bit 0 of each parse (two packets built from the same raw bytes do not share a cursor).'
                 ' R14.3 is taken for every sequence-flag value (a segment parsed on its own is a packet like any other); R14.4 includes a layout that lists one parameter twice.'
                 ' R14.3 also takes the option values 0 / 1; R14.4 a leading-size tag that points beyond its buffer.'),
    rule_doc="R14.1 per (advance site, guard kind); R14.2 per writer; R14.3 per option; R14.4 per layout over all packets",
    assumptions=["packet_generator is the only delivery path of parsed packets"],
    controls=controls,
    mutants=mutants,
    technique="must-facts dominance with model-based refutation; who-may-write; decision tables by abstract interpretation",
)

"""C05 - container inheritance selects the unique matching structure, in order (DESIGN 5, C05).

Decision table of the descend loop (parse_ccsds_packet), the entry-list walk (SequenceContainer.parse), the loader's
inheritor back-population and abstract-flag reading, by abstract interpretation of a checker-authored container tree
loaded through the XML model: at the root and one level below, |satisfied children| in {0, 1, >=2} x {abstract,
concrete}; nested container references (one reused) expanded in place; criteria as single comparison, comparison
list (conjunction), boolean expression, and none (unconditional inheritance); header / user-data views.
R5.5: the error paths contain no lookup that can fail for documents that name their header parameters differently.
"""
from __future__ import annotations

import ast

from ..astutil import dotted, norm, walk_local
from ..core import Ctx, PropSpec, Unsupported
from ..extract import where
from ..interp import pub, ExcVal, Raised, StepLimit
from ..models import ccsds_bytes
from ..xmlmodel import all_elements, attach_nsmap, split_tag
from . import xmlcommon as X
from .c16 import clone_tree

DEF = X.DEF
PARSE = f"{DEF}::XtcePacketDefinition.parse_ccsds_packet"
M = X.M
HDR = ["VERSION", "TYPE", "SEC_HDR_FLG", "APID_FIELD", "SEQ_FLGS", "SRC_SEQ_CTR", "PKT_LEN"]
WIDTHS = [3, 1, 1, 11, 2, 14, 16]


def tree_src() -> str:
    def u8(n):
        return f'parameters.Parameter("{n}", parameter_types.IntegerParameterType("{n}_T", {X._int(8)}))'
    hdr = ", ".join(f'parameters.Parameter("{n}", parameter_types.IntegerParameterType("{n}_T", {X._int(w)}))' for n, w in zip(HDR, WIDTHS))
    names = ["X", "Y", "Z", "W", "P", "Q", "R", "S", "T", "U"]
    others = ", ".join(u8(n) for n in names)

    def sc(name, entries, base=None, crit=None, abstract=False):
        ents = "[" + ", ".join(entries) + "]"
        extra = ""
        if base:
            extra += f', base_container_name="{base}", restriction_criteria=[{", ".join(crit)}]'
        if abstract:
            extra += ", abstract=True"
        return f'containers.SequenceContainer("{name}", {ents}{extra})'

    def cmp_(param, op, val, cal=True):
        return f'{M}.Comparison("{val}", "{param}", operator="{op}", use_calibrated_value={cal})'
    boolexp = (f'{M}.BooleanExpression({M}.Ored([{M}.Condition("APID_FIELD", "==", right_value="8", right_use_calibrated_value=False)], '
               f'[{M}.Anded([{M}.Condition("APID_FIELD", "==", right_value="9", right_use_calibrated_value=False), '
               f'{M}.Condition("SEQ_FLGS", "==", right_value="3", right_use_calibrated_value=False)], [])]))')
    P = lambda n: f'P["{n}"]'  # noqa: E731
    conts = [
        sc("CCSDSPacket", [P(n) for n in HDR], abstract=True),
        "BLK",
        sc("A", [P("X"), "BLK", P("W")], "CCSDSPacket", [cmp_("APID_FIELD", "==", 1)]),
        sc("B", [P("X")], "CCSDSPacket", [cmp_("APID_FIELD", "==", 2)], abstract=True),
        sc("B1", [P("P")], "B", [cmp_("X", ">=", 5)]),
        sc("B2", [P("Q")], "B", [cmp_("X", ">=", 3)]),
        sc("D", [P("X")], "CCSDSPacket", [cmp_("APID_FIELD", "==", 4)]),
        sc("D1", ["BLK", P("R")], "D", [cmp_("X", "==", 9)]),
        sc("E", [P("X")], "CCSDSPacket", [cmp_("APID_FIELD", "==", 5)]),
        sc("E1", [P("S")], "E", [cmp_("X", "!=", 999999)]),        # criteria removed in the document: unconditional
        sc("F", [P("X")], "CCSDSPacket", [cmp_("APID_FIELD", "==", 6)]),
        sc("F1", [P("T")], "F", [cmp_("X", ">=", 1)]),
        sc("F2", [P("U")], "F", [cmp_("X", ">=", 2)]),
        sc("G", [P("X")], "CCSDSPacket", [cmp_("APID_FIELD", "==", 7), cmp_("VERSION", "==", 0, False)]),
        sc("H", [P("X")], "CCSDSPacket", [boolexp]),
        sc("I", ["BLK", P("X"), "BLK", P("W")], "CCSDSPacket", [cmp_("APID_FIELD", "==", 10)]),
    ]
    return (f'(lambda P: (lambda BLK: XtcePacketDefinition([{", ".join(conts)}], ns={{"xtce": "{X.URI}"}}, xtce_ns_prefix="xtce", '
            f'date="2024-01-01"))(containers.SequenceContainer("BLK", [P["Y"], P["Z"]])))({{p.name: p for p in [{hdr}, {others}]}})')


def pkt(apid, user: bytes, version=0, flags=3):
    return ccsds_bytes(user, apid=apid, version=version, flags=flags)


def hdr_items(apid, n_user, version=0, flags=3):
    return [("VERSION", version), ("TYPE", 0), ("SEC_HDR_FLG", 0), ("APID_FIELD", apid), ("SEQ_FLGS", flags), ("SRC_SEQ_CTR", 0),
            ("PKT_LEN", n_user - 1)]


# (description, packet bytes, expected kind, expected items)   kind: 'ok' | 'unrecognized'
def cases():
    c = []

    def add(desc, apid, user, kind, tail, version=0, flags=3):
        c.append((desc, pkt(apid, bytes(user), version, flags), kind, hdr_items(apid, len(user), version, flags) + tail))
    add("root: exactly one child (A), nested container expanded in place", 1, [10, 11, 12, 13], "ok", [("X", 10), ("Y", 11), ("Z", 12), ("W", 13)])
    add("root abstract, no child matches", 100, [1], "unrecognized", [])
    add("root: comparison list is a conjunction (second criterion false)", 7, [1], "unrecognized", [], version=1)
    add("root: comparison list satisfied", 7, [1], "ok", [("X", 1)])
    add("root: boolean expression, first disjunct", 8, [4], "ok", [("X", 4)])
    add("root: boolean expression, nested conjunction true", 9, [4], "ok", [("X", 4)], flags=3)
    add("root: boolean expression, nested conjunction false", 9, [4], "unrecognized", [], flags=1)
    add("abstract B (abstract=\"True\"): no child", 2, [2, 0], "unrecognized", [("X", 2)])
    add("abstract B: exactly one child (B2) by a user-data field", 2, [4, 77], "ok", [("X", 4), ("Q", 77)])
    add("abstract B: two children match", 2, [6, 77], "unrecognized", [("X", 6)])
    add("concrete D: no child -> packet ends there", 4, [1], "ok", [("X", 1)])
    add("concrete D: one child, reused nested container expanded in place", 4, [9, 21, 22, 23], "ok", [("X", 9), ("Y", 21), ("Z", 22), ("R", 23)])
    add("concrete E: unconditional child (BaseContainer without RestrictionCriteria)", 5, [3, 44], "ok", [("X", 3), ("S", 44)])
    add("concrete F: no child", 6, [0], "ok", [("X", 0)])
    add("concrete F: one child", 6, [1, 5], "ok", [("X", 1), ("T", 5)])
    add("concrete F: two children match -> ambiguous", 6, [2, 5], "unrecognized", [("X", 2)])
    add("container nesting the same container twice: both references expanded, in place", 10, [1, 2, 3, 4, 5, 6], "ok",
        [("Y", 4), ("Z", 5), ("X", 3), ("W", 6)])
    return c


def build_document(h):
    d = h.ev(tree_src(), DEF)
    g = X.write_tree(h, d)
    # edits that only a document can express
    for e in all_elements(g):
        loc = split_tag(e.attrs["tag"])[1]
        if loc == "SequenceContainer" and e.attrs["attrib"].get("name") == "B":
            e.attrs["attrib"]["abstract"] = "True"
        if loc == "SequenceContainer" and e.attrs["attrib"].get("name") == "CCSDSPacket":
            e.attrs["attrib"]["abstract"] = "1"           # xs:boolean: true | false | 1 | 0
        if loc == "SequenceContainer" and e.attrs["attrib"].get("name") == "E1":
            for b in all_elements(e):
                if split_tag(b.attrs["tag"])[1] == "BaseContainer":
                    b.attrs["__children__"][:] = []
        if loc == "SequenceContainer" and e.attrs["attrib"].get("name") == "A":
            e.attrs["attrib"].pop("abstract", None)       # absent attribute = concrete
        if loc == "SequenceContainer" and e.attrs["attrib"].get("name") == "D1":
            e.attrs["attrib"]["abstract"] = "0"
    # the nested block is declared AFTER the containers that use it (it is parsed on demand from inside their entry lists) and
    # carries its own abstract flag, which must not leak into its users
    for cs in [e for e in all_elements(g) if split_tag(e.attrs["tag"])[1] == "ContainerSet"]:
        kids = cs.attrs["__children__"]
        blk = [k for k in kids if getattr(k, "attrs", {}).get("attrib", {}).get("name") == "BLK"]
        for b in blk:
            kids.remove(b)
            b.attrs["attrib"]["abstract"] = "true"
            kids.append(b)
    attach_nsmap(g)
    return g


def table(ctx: Ctx):
    prog = ctx.prog
    fi = prog.func(PARSE)
    h = X.harness(prog)
    try:
        g = build_document(h)
        d = X.load(h, clone_tree(g), "xtce")
    except Raised as r:
        ctx.refuted("R5.1", f"{PARSE}::document", f"the checker's container tree cannot be written/loaded: {r.exc.tname} {r.exc.args}")
        return
    for desc, data, kind, items in cases():
        site = f"{PARSE}::{desc}"
        try:
            h.it.events.clear()
            k, got = h.outcome("d.packet_generator(src, yield_unrecognized_packet_errors=True)", DEF, d=d, src=data)
        except (Unsupported, StepLimit) as e:
            ctx.unknown("R5.1", site, str(e))
            continue
        if k != "ok":
            ctx.refuted("R5.1", site, f"{desc}: the generator ends in {got} instead of {'a packet' if kind == 'ok' else 'an unrecognized-packet report'}",
                        where=where(fi, fi.node))
            continue
        if len(got) != 1:
            ctx.refuted("R5.1", site, f"{desc}: {len(got)} items yielded, expected one", where=where(fi, fi.node))
            continue
        y = got[0]
        if kind == "ok":
            ok = isinstance(y, dict) and [(k2, int(v)) for k2, v in y.items()] == items
            why = (f"{desc}: decoded {[(k2, int(v)) for k2, v in y.items()] if isinstance(y, dict) else y!r}; the containers on the "
                   f"unique matching path prescribe {items}")
            if ok:
                # header / user-data views
                kh, hv = h.outcome("p.header", DEF, p=y)
                ku, uv = h.outcome("p.user_data", DEF, p=y)
                ok = kh == "ok" and ku == "ok" and list(hv.items()) == list(y.items())[:7] and list(uv.items()) == list(y.items())[7:]
                why = f"{desc}: header view {list(hv) if kh == 'ok' else hv} / user-data view {list(uv) if ku == 'ok' else uv} do not split the items 7 | rest"
        else:
            pd = y.kwargs.get("partial_data") if isinstance(y, ExcVal) else None
            ok = isinstance(y, ExcVal) and y.tname == "UnrecognizedPacketTypeError" and isinstance(pd, dict) and \
                [(k2, int(v)) for k2, v in pd.items()] == items and getattr(pd, "cls", None) == "CCSDSPacket" and \
                pub(pd, "raw_data") is not None       # the packet object itself (items, header/user views, raw bytes)
            why = (f"{desc}: yielded {('a packet with ' + str(list(y))) if isinstance(y, dict) else repr(y)}"
                   f"{' with partial data ' + str([(k2, int(v)) for k2, v in pd.items()]) + ' held in a ' + str(getattr(pd, 'cls', None) or type(pd).__name__) if isinstance(pd, dict) else ''}; expected an "
                   f"unrecognized-packet report carrying the packet object with {items}")
        ctx.decide(bool(ok), "R5.1", site, "", why, where=where(fi, fi.node))
    # the definition's own root container is where decoding starts when the caller names none
    site = f"{PARSE}::definition with its own root container"
    try:
        d2 = X.load(h, clone_tree(g), "xtce", root_container_name="D")
        raw = ccsds_bytes(bytes([9, 21, 22, 23]), apid=77)          # decoded from its first bit by container D: X=first byte
        k, got = h.outcome("d.packet_generator(src)", DEF, d=d2, src=raw)
        # D: X (8 bits of the header's first byte = 0), no child for X != 9 -> ends; the rest of the packet is unparsed (warning)
        first = raw[0]
        want = [("X", first)]
        ok = k == "ok" and len(got) == 1 and [(k2, int(v)) for k2, v in got[0].items()] == want
        ctx.decide(ok, "R5.1", site, "", f"a definition loaded with root container D decodes {[(k2, int(v)) for k2, v in got[0].items()] if k == 'ok' and got else got}; "
                                          f"starting at D gives {want}", where=where(fi, fi.node))
    except (Unsupported, StepLimit, Raised) as e:
        ctx.unknown("R5.1", site, str(e))
    # without error reporting the unrecognized packets are skipped silently and the others unaffected
    try:
        stream = b"".join(c[1] for c in cases())
        k, got = h.outcome("d.packet_generator(src)", DEF, d=d, src=stream)
        want = [c[3] for c in cases() if c[2] == "ok"]
        ok = k == "ok" and [[(k2, int(v)) for k2, v in y.items()] for y in got] == want
        ctx.decide(ok, "R5.1", f"{PARSE}::whole-stream", "", f"the whole stream yields {len(got) if k == 'ok' else got} packets; expected {len(want)} in order",
                   where=where(fi, fi.node))
    except (Unsupported, StepLimit) as e:
        ctx.unknown("R5.1", f"{PARSE}::whole-stream", str(e))


def error_path(ctx: Ctx):
    """R5.5: inside the argument expressions of `raise UnrecognizedPacketTypeError(...)` nothing subscripts the packet
    mapping with a literal parameter name (documents choose their own names)."""
    prog = ctx.prog
    fi = prog.func(PARSE)
    raises = [n for n in walk_local(fi.node) if isinstance(n, ast.Raise) and n.exc is not None]
    n_ok = 0
    for r in raises:
        bad = [s for s in ast.walk(r.exc) if isinstance(s, ast.Subscript) and dotted(s.value) == "packet" and
               isinstance(s.slice, ast.Constant) and isinstance(s.slice.value, str)]
        if bad:
            for s in bad:
                ctx.refuted("R5.5", f"{PARSE}::error-path::{norm(s)}",
                            f"the error message looks up `{norm(s)}`, a parameter name the document need not define: such a packet "
                            f"escapes as KeyError and ends the generator instead of being reported as unrecognized", where=where(fi, s))
        else:
            n_ok += 1
            ctx.proved("R5.5", f"{PARSE}::error-path::line-shape-{n_ok}", "no literal-keyed lookup on the packet mapping")
    if not raises:
        ctx.unknown("R5.5", PARSE, "no raise found in parse_ccsds_packet")


def views(ctx: Ctx):
    """R5.view: for every number of decoded items 0..10 (header only partly decoded, exactly the header, header plus user
    data) the header view is the first seven items and the user-data view is the rest - in order, nothing twice."""
    h = X.harness(ctx.prog)
    site = "packets.py::CCSDSPacket::header/user_data"
    bad = None
    try:
        for n in range(0, 11):
            items = {f"P{i}": h.val("Int", 10 + i) for i in range(n)}
            p = h.packet(b"", items)
            kh, hv = h.outcome("p.header", DEF, p=p)
            ku, uv = h.outcome("p.user_data", DEF, p=p)
            want_h, want_u = list(items)[:7], list(items)[7:]
            if kh != "ok" or ku != "ok" or list(hv) != want_h or list(uv) != want_u:
                bad = (f"a packet with {n} decoded items has header view {list(hv) if kh == 'ok' else hv} and user-data view "
                       f"{list(uv) if ku == 'ok' else uv}; the first seven items are the header, the rest ({want_u}) the user data")
                break
    except Unsupported as e:
        ctx.unknown("R5.view", site, str(e))
        return
    ctx.decide(bad is None, "R5.view", site, "item counts 0..10 split 7 | rest", bad or "")


def check(ctx: Ctx) -> None:
    ctx.guard("R5.1", PARSE, table, ctx)
    ctx.guard("R5.view", "packets.py::CCSDSPacket", views, ctx)
    # container selection with (A or B) and (C or D) criteria, two matching siblings, a concrete root with no matching child
    from .c01 import end_to_end, end_to_end_second
    ctx.guard("R5.e2", PARSE, end_to_end_second, ctx, "R5.e2")
    from .c01 import end_to_end_third
    ctx.guard("R5.e3", PARSE, end_to_end_third, ctx, "R5.e3")
    ctx.guard("R5.e", PARSE, end_to_end, ctx, "R5.e")     # two-level inheritance with conditions on raw / calibrated operands
    # the child is chosen from this packet's values alone: container selection keeps nothing on the definition between packets
    from ..callgraph import CallGraph
    from .c11 import effect_rule, reparse_rule
    ctx.guard("R5.pure", PARSE, effect_rule, ctx, CallGraph(ctx.prog), [PARSE], "R5.pure", "container selection")
    ctx.guard("R5.fresh", "packets.py::CCSDSPacket", reparse_rule, ctx, "R5.fresh")   # decoding starts at the root, bit 0, every time
    ctx.guard("R5.5", PARSE, error_path, ctx)


def mutants(prog):
    import re
    out = []

    def sub(rel, name, pattern, repl, expect="R5", flags=0):
        src = prog.files[rel]
        new, n = re.subn(pattern, repl, src, count=1, flags=flags)
        if n:
            out.append((name, rel, new, expect))

    cont = "xtce/containers.py"
    sub(DEF, "ambiguity only for abstract containers", r"            if len\(valid_inheritors\) == 0:\n                if current_container\.abstract:",
        "            if not current_container.abstract:\n                break\n            if len(valid_inheritors) == 0:\n                if current_container.abstract:")
    sub(DEF, "first matching child wins", r"if len\(valid_inheritors\) == 1:", "if len(valid_inheritors) >= 1:")
    sub(DEF, "any instead of all criteria", r"if all\(rc\.evaluate\(packet\)\n", "if any(rc.evaluate(packet)\n")
    sub(DEF, "abstract dead end returns the packet", r"                if current_container\.abstract:\n                    raise UnrecognizedPacketTypeError\(", "                if False:\n                    raise UnrecognizedPacketTypeError(")
    sub(DEF, "partial data dropped", r"f\"APID=\{packet\.raw_data\.apid\}\.\",\n                        partial_data=packet\)", 'f"APID={packet.raw_data.apid}.")')
    sub(DEF, "error path uses a fixed parameter name", r"f\"APID=\{packet\.raw_data\.apid\}\.\"", 'f"APID={packet[\'PKT_APID\']}."', "R5.5")
    sub(DEF, "children tested before the container is parsed", r"(        while True:\n)            current_container\.parse\(packet\)\n\n(            valid_inheritors = \[\]\n            for inheritor_name in current_container\.inheritors:\n                if all\(rc\.evaluate\(packet\)\n                       for rc in self\.containers\[inheritor_name\]\.restriction_criteria\):\n                    valid_inheritors\.append\(inheritor_name\)\n)",
        r"\1\2            current_container.parse(packet)\n")
    sub(DEF, "inheritors only for restricted children", r"if sc\.base_container_name:\n", "if sc.base_container_name and sc.restriction_criteria:\n")
    sub(cont, "abstract read case-sensitively", r"\(element\.attrib\['abstract'\]\.lower\(\) in \('true', '1'\)\)", "(element.attrib['abstract'] in ('true', '1'))")
    sub(cont, "entry list walked in reverse", r"for entry in self\.entry_list:\n            entry\.parse\(packet=packet\)", "for entry in reversed(self.entry_list):\n            entry.parse(packet=packet)")
    sub(cont, "nested containers skipped", r"for entry in self\.entry_list:\n            entry\.parse\(packet=packet\)", "for entry in self.entry_list:\n            if not isinstance(entry, SequenceContainer):\n                entry.parse(packet=packet)")
    sub("packets.py", "header view of six items", r"return dict\(list\(self\.items\(\)\)\[:7\]\)", "return dict(list(self.items())[:6])")
    sub("packets.py", "user data view overlaps", r"return dict\(list\(self\.items\(\)\)\[7:\]\)", "return dict(list(self.items())[6:])")
    return out


SPEC = PropSpec(
    pid="C05",
    title="Container inheritance selects the unique matching structure, in order",
    check=check,
    floors={"R5.e3": 20, "R5.1": 19, "R5.5": 2, "R5.view": 1, "R5.e2": 10, "R5.e": 12, "R5.pure": 10, "R5.fresh": 1},
    explanation=("Decision table of the descend loop by abstract interpretation: a checker-authored tree (abstract root with "
                 "eight children; an abstract and two concrete second-level containers with 0/1/2 satisfiable children; "
                 "a nested container referenced twice; an unconditional child whose BaseContainer has no "
                 "RestrictionCriteria; abstract flags spelled true/True/TRUE/absent; criteria as comparison, comparison "
                 "list, boolean expression) is written, edited at document level, loaded through the XML model (so the "
                 "loader's inheritor back-population and abstract parsing are inside the check) and 16 packets steer into "
                 "every class {0, 1, >=2 satisfied children} x {abstract, concrete} at both levels; expected items, order, "
                 "partial data of the unrecognized reports and the header/user-data split are stated by the checker. R5.5 "
                 "structural: no literal-keyed lookup on the packet mapping inside the raise expressions."
                 ' R5.view: header / user-data views for 0..10 decoded items. R5.e2 / R5.e: the two end-to-end documents of C01 (selection clauses: ambiguous siblings, nested boolean criteria, conditions on raw vs calibrated operands, concrete root without a matching child).'
                 ' R5.pure: container selection keeps nothing on the definition between packets (effect analysis); R5.fresh: decoding starts at bit 0 of every packet; the nested block of the tree document is declared after its users and carries its own abstract flag; an unrecognized-packet report carries the packet object itself.'
                 ' R5.e3: the hand-written document of R1.e3 (range and contradiction comparison lists as restriction criteria, APID 0 and 2047).'
                 ' Boolean attributes are read in all four xs:boolean spellings (abstract="1" / "0").'),
    rule_doc="R5.1 one obligation per steering packet (+ whole stream); R5.5 per raise site",
    assumptions=["criteria evaluation is correct (C06)", "integer decoding is correct (C03/C04)"],
    mutants=mutants,
    technique="decision table by abstract interpretation of loader + descend loop over a model container tree; shape rule on error paths",
)

"""C18 - the xarray dataset holds every parsed value, per APID, in order, without loss (DESIGN 5, C18).

``xarr.create_dataset`` and its two dtype functions are interpreted from source with numpy/xarray replaced by
recording stubs and the packet generator replaced by model packets; the checker's own numpy dtype table (capacity of
int/uint N, float32/64 exactness, and that fixed-width ``S``/``U`` dtypes drop trailing NULs / convert bytes to text)
decides whether a stored cell equals the parsed value.

R18.1 dtype table: for every integer width 1..64 x every encoding spelling x {raw, derived}, float 16/32/64, the dtype
      returned holds every value of that encoding (sign and capacity).
R18.2 losslessness of each parameter kind's cells (uncalibrated, default-calibrated, context-calibrated-only,
      enumerated, boolean, string, binary, time) in both modes.
R18.4 accumulation: per-APID rows in stream order, files in the order given, one variable per parameter, field-set
      mismatch -> ValueError.
"""
from __future__ import annotations

import ast
import struct

from ..core import Ctx, PropSpec, Unsupported
from ..extract import where
from ..harness import Harness
from ..interp import DictObj, ExcVal, Obj, Raised
from ..models import VALUE_CLASSES, new_raw, source_externals
from ..program import AnchorMissing
from . import xmlcommon as X

XR = "xarr.py"
E = "parameter_types.encodings"


def dtype_ok(dtype, v):
    """None if the numpy array cell equals v, else the reason (the checker's numpy dtype table)."""
    if dtype is None:
        return None                      # numpy's own inference: int64/float64/object/exact-width strings
    if not isinstance(dtype, str):
        return f"unexpected dtype object {dtype!r}"
    if dtype.startswith(("uint", "int")):
        signed = dtype.startswith("int")
        try:
            bits = int(dtype[4 if not signed else 3:])
        except ValueError:
            return f"unknown dtype {dtype}"
        if isinstance(v, float):
            return f"float value {v!r} stored in {dtype}: the fraction is truncated"
        if isinstance(v, (str, bytes)):
            return f"{type(v).__name__} value {v!r} given to dtype {dtype}: numpy raises ValueError"
        lo, hi = (-(2 ** (bits - 1)), 2 ** (bits - 1) - 1) if signed else (0, 2 ** bits - 1)
        if not (lo <= int(v) <= hi):
            return f"value {int(v)} does not fit {dtype} [{lo}, {hi}] (overflow / wrap-around)"
        return None
    if dtype in ("float16", "float32"):
        if isinstance(v, (int, float)) and not isinstance(v, bool):
            fmt = "e" if dtype == "float16" else "f"
            try:
                back = struct.unpack(">" + fmt, struct.pack(">" + fmt, float(v)))[0]
            except (OverflowError, struct.error):
                return f"value {v!r} overflows {dtype}"
            if back != float(v) and v == v:
                return f"value {v!r} is rounded to {back!r} in {dtype}"
            return None
        return f"{type(v).__name__} value in {dtype}"
    if dtype == "float64" or dtype == "float":
        if isinstance(v, int) and abs(v) > 2 ** 53:
            return f"integer {v} is rounded in float64"
        if isinstance(v, (str, bytes)):
            return f"{type(v).__name__} value {v!r} given to dtype {dtype}"
        return None
    if dtype in ("bytes", "S", "bytes_"):
        if isinstance(v, str):
            return f"text {v!r} stored with a bytes dtype"
        if isinstance(v, bytes) and v.endswith(b"\x00"):
            return f"bytes value {v!r} loses its trailing NUL bytes in numpy's fixed-width S dtype"
        return None
    if dtype in ("str", "U", "str_"):
        if isinstance(v, bytes):
            return f"bytes value {v!r} is converted to text (and stripped of trailing NULs) by the `str` dtype"
        if isinstance(v, str) and v.endswith("\x00"):
            return f"string value {v!r} loses its trailing NUL characters in numpy's fixed-width U dtype"
        if not isinstance(v, str):
            return f"{type(v).__name__} value {v!r} stored as text"
        return None
    if dtype in ("object", "O"):
        return None
    if dtype in ("bool", "bool_", "?"):
        if isinstance(v, (int, bool)) and not isinstance(v, float) and int(v) in (0, 1):
            return None
        return f"value {v!r} stored with dtype bool becomes {bool(v)!r}"
    return f"dtype {dtype!r} is not in the checker's numpy table"


def loss_category(dtype, v) -> str:
    if dtype in ("bytes", "S", "bytes_") and isinstance(v, bytes) and v.endswith(b"\x00"):
        return "S-dtype-strips-trailing-NUL"
    if dtype in ("str", "U", "str_") and isinstance(v, bytes):
        return "bytes-converted-to-text-by-str-dtype"
    if dtype in ("str", "U", "str_") and isinstance(v, str) and v.endswith("\x00"):
        return "U-dtype-strips-trailing-NUL"
    if isinstance(dtype, str) and dtype.startswith(("int", "uint")):
        if isinstance(v, float):
            return "fraction-truncated-by-integer-dtype"
        if isinstance(v, (str, bytes)):
            return "text-into-integer-dtype"
        return "integer-overflow"
    if isinstance(dtype, str) and dtype.startswith("float"):
        return "float-rounding"
    return "other-loss"


class PathStub(str):
    """pathlib.Path for the purposes of create_dataset: a comparable, hashable file name."""


# the first two bytes of a packet file are its first packet's identification word; 1F 8B (version 0, type 1, secondary header
# flag 1, APID 1931) is a legal one that happens to equal the gzip magic number
HEADS = {"fileB": b"\x1f\x8b"}


class FileBytes(bytes):
    """What `Path(f).read_bytes()` / `open(f,'rb').read()` returns in the model: a marker naming the file (joining several
    gives plain bytes with several markers, which the generator stub recognises as "files glued together")."""
    def __new__(cls, path):
        o = bytes.__new__(cls, HEADS.get(str(path), b"\x08\x03") + b"<file:" + str(path).encode() + b">")
        o.path = str(path)
        return o


def _file_obj(path, gz=False):
    st = {"pos": 0}

    def read(n=-1):
        if gz:      # a packet file is not a gzip stream: reading it through gzip fails (wrong method byte / CRC)
            raise Raised(ExcVal("BadGzipFile", ("Not a gzipped file",)))
        data = FileBytes(path)
        if n is None or n < 0:
            out, st["pos"] = (data if st["pos"] == 0 else bytes(data)[st["pos"]:]), len(data)
            return out
        out = bytes(data)[st["pos"]:st["pos"] + n]
        st["pos"] += len(out)
        return out

    def seek(off, whence=0):
        st["pos"] = off if whence == 0 else (st["pos"] + off if whence == 1 else len(FileBytes(path)) + off)
        return st["pos"]
    return Obj(None, __kind__="file", __path__=str(path), __gzip__=gz, read=read, seek=seek, tell=lambda: st["pos"],
               peek=lambda n=0: bytes(FileBytes(path))[st["pos"]:st["pos"] + max(n, 2)], close=lambda: None)


def _native_attr(base, attr):
    if isinstance(base, PathStub):
        if attr == "read_bytes":
            return lambda: FileBytes(base)
        if attr == "open":
            return lambda mode="r", *a, **k: _file_obj(base)
        if attr == "name":
            return str(base).rsplit("/", 1)[-1]
        if attr in ("exists", "is_file"):
            return lambda: True
    return NotImplemented


def files_of(f):
    """File names a generator argument stands for: a file object, the bytes of one file, or several files glued together."""
    import re as _re
    if isinstance(f, Obj) and "__path__" in f.attrs:
        return [f.attrs["__path__"]]
    if isinstance(f, (bytes, bytearray)):
        return [m.decode() for m in _re.findall(rb"<file:([^>]*)>", bytes(f))]
    if isinstance(f, str):
        return [str(f)]
    raise Unsupported(f"packet_generator is given {type(f).__name__}")


class Rec:
    def __init__(self):
        self.arrays = []      # (values, dtype)
        self.datasets = []

    def ext(self, files):
        rec = self

        def mk(vals, dtype):
            def getitem(key):
                if isinstance(key, Obj) and "__array__" in key.attrs:
                    key = key.attrs["__array__"]
                if isinstance(key, (list, tuple)):
                    if key and all(isinstance(k, bool) for k in key):
                        return mk([v for v, k in zip(vals, key) if k], dtype)
                    return mk([vals[k] for k in key], dtype)        # fancy indexing: rows in the order of the index array
                if isinstance(key, slice):
                    return mk(vals[key], dtype)
                return vals[key]
            return Obj(None, __array__=vals, dtype=dtype, __getitem__=getitem, __len__=lambda: len(vals),
                       __iter__=lambda: iter(vals), tolist=lambda: list(vals), shape=(len(vals),), size=len(vals))

        def plain(a):
            return list(a.attrs["__array__"]) if isinstance(a, Obj) and "__array__" in a.attrs else list(a)

        def asarray(values, dtype=None):
            vals = plain(values)
            rec.arrays.append((vals, dtype))
            return mk(vals, dtype)

        def argsort(a, axis=-1, kind=None, order=None, stable=None):
            vals = plain(a)
            return mk(sorted(range(len(vals)), key=lambda i: vals[i]), "int64")       # Python's sort is stable, as every numpy kind is on ties here

        def np_sort(a, axis=-1, kind=None, order=None, stable=None):
            return mk(sorted(plain(a)), None)

        def arange(n):
            return mk(list(range(n)), "int64")

        def dataset(data_vars=None, **k):
            o = Obj(None, data_vars=data_vars)
            rec.datasets.append(o)
            return o
        import collections
        e = dict(source_externals())
        e.update({
            "np": Obj(None, asarray=asarray, array=asarray, argsort=argsort, sort=np_sort, arange=arange),
            "numpy": Obj(None, asarray=asarray, array=asarray, argsort=argsort, sort=np_sort, arange=arange),
            "xr": Obj(None, Dataset=dataset), "xarray": Obj(None, Dataset=dataset),
            "open": lambda path, mode="r", *a, **k: _file_obj(path),
            "gzip.open": lambda path, mode="rb", *a, **k: _file_obj(path, gz=True),
            "gzip": Obj(None, open=lambda path, mode="rb", *a, **k: _file_obj(path, gz=True), __extmodule__="gzip"),
            "Path": PathStub, "pathlib.Path": PathStub, "native_attr": _native_attr,
            "collections.defaultdict": collections.defaultdict, "collections": Obj(None, defaultdict=collections.defaultdict),
        })
        return e


def column_ok(dtype, vals):
    """numpy's dtype inference for a column given without dtype (the checker's table of np.asarray on Python lists): Python
    ints that all fit int64 -> int64, all >= 0 with one beyond int64 -> uint64, but a MIX of int64-only and uint64-only values
    (or ints with floats) -> float64, which rounds integers beyond 2**53."""
    if dtype is not None:
        return None
    ints = [int(v) for v in vals if isinstance(v, int) and not isinstance(v, bool)]
    floats = [v for v in vals if isinstance(v, float)]
    if not ints or len(ints) + len(floats) != len(vals):
        return None
    big = [v for v in ints if v > 2 ** 63 - 1]
    neg = [v for v in ints if v < 0]
    small = [v for v in ints if v <= 2 ** 63 - 1]
    if floats or (big and (neg or small)):
        lossy = [v for v in ints if abs(v) > 2 ** 53 and float(v) != v or int(float(v)) != v]
        if lossy:
            return (f"no dtype is given, so numpy infers float64 for a column holding {sorted(set(ints))[:3]}...: {lossy[0]} is stored as "
                    f"{float(lossy[0])!r} (integers beyond 2**53 are rounded)")
    return None


def V(kind, v, raw=None):
    return VALUE_CLASSES[kind + "Parameter"](v, raw)


# parameter kinds: name -> (type source, [(derived value, raw value) per packet])
KINDS = {
    "U8": (f'parameter_types.IntegerParameterType("U8_T", {E}.IntegerDataEncoding(8, "unsigned"))', [("Int", 255, None), ("Int", 0, None)]),
    "U12": (f'parameter_types.IntegerParameterType("U12_T", {E}.IntegerDataEncoding(12, "unsigned"))', [("Int", 4095, None), ("Int", 1, None)]),
    "S16": (f'parameter_types.IntegerParameterType("S16_T", {E}.IntegerDataEncoding(16, "signed"))', [("Int", -32768, None), ("Int", 32767, None)]),
    "T8": (f'parameter_types.IntegerParameterType("T8_T", {E}.IntegerDataEncoding(8, "twosComplement"))', [("Int", -128, None), ("Int", 127, None)]),
    "U64": (f'parameter_types.IntegerParameterType("U64_T", {E}.IntegerDataEncoding(64, "unsigned"))', [("Int", 2 ** 64 - 1, None), ("Int", 5, None)]),
    "S64": (f'parameter_types.IntegerParameterType("S64_T", {E}.IntegerDataEncoding(64, "signed"))', [("Int", -2 ** 63, None), ("Int", 2 ** 63 - 1, None)]),
    "F32": (f'parameter_types.FloatParameterType("F32_T", {E}.FloatDataEncoding(32))', [("Float", 1.5, None), ("Float", 3.4028234663852886e+38, None)]),
    "F64": (f'parameter_types.FloatParameterType("F64_T", {E}.FloatDataEncoding(64))', [("Float", 0.1, None), ("Float", 1e300, None)]),
    "F16": (f'parameter_types.FloatParameterType("F16_T", {E}.FloatDataEncoding(16))', [("Float", 0.333251953125, None), ("Float", 65504.0, None)]),
    "FCAL": (f'parameter_types.FloatParameterType("FCAL_T", {E}.FloatDataEncoding(32, default_calibrator={E}.calibrators.PolynomialCalibrator([{E}.calibrators.PolynomialCoefficient(0.001, 1), {E}.calibrators.PolynomialCoefficient(0.1, 0)])))',
             [("Float", 0.101, 1.0), ("Float", 0.30000000000000004, 200.0)]),          # calibrated doubles that binary32 cannot hold
    "CAL": (f'parameter_types.IntegerParameterType("CAL_T", {E}.IntegerDataEncoding(8, "unsigned", default_calibrator={E}.calibrators.PolynomialCalibrator([{E}.calibrators.PolynomialCoefficient(0.25, 1)])))',
            [("Float", 1.75, 7), ("Float", 63.75, 255)]),
    "CTX": (f'parameter_types.IntegerParameterType("CTX_T", {E}.IntegerDataEncoding(8, "unsigned", context_calibrators=[{E}.calibrators.ContextCalibrator([{E}.comparisons.Comparison("1", "U8", operator=">=")], {E}.calibrators.PolynomialCalibrator([{E}.calibrators.PolynomialCoefficient(0.25, 1)]))]))',
            [("Float", 1.75, 7), ("Int", 9, None)]),
    "EN": (f'parameter_types.EnumeratedParameterType("EN_T", {E}.IntegerDataEncoding(8, "unsigned"), {{0: "OFF", 200: "LONG_LABEL_ON"}})', [("Str", "LONG_LABEL_ON", 200), ("Str", "OFF", 0)]),
    "BO": (f'parameter_types.BooleanParameterType("BO_T", {E}.IntegerDataEncoding(8, "unsigned"))', [("Bool", 1, 200), ("Bool", 0, 0)]),
    "STR": (f'parameter_types.StringParameterType("STR_T", {E}.StringDataEncoding(fixed_raw_length=16, encoding="US-ASCII"))', [("Str", "ab", b"ab"), ("Str", "c\x00", b"c\x00")]),
    "BIN": (f'parameter_types.BinaryParameterType("BIN_T", {E}.BinaryDataEncoding(fixed_size_in_bits=16))', [("Binary", b"a\x00", None), ("Binary", b"\x01\x02", None)]),
    "TIM": (f'parameter_types.AbsoluteTimeParameterType("TIM_T", {E}.IntegerDataEncoding(32, "unsigned", default_calibrator={E}.calibrators.PolynomialCalibrator([{E}.calibrators.PolynomialCoefficient(0.5, 1)])), unit="s")',
            [("Float", 2147483647.5, 4294967295), ("Float", 0.5, 1)]),
}


def dtype_table(ctx: Ctx):
    prog = ctx.prog
    fi = prog.func_opt(f"{XR}::_min_dtype_for_encoding")
    if fi is None:      # renamed: the one-argument module function of xarr.py that distinguishes Integer/Float encodings
        for f2 in prog.functions.values():
            if f2.relpath == XR and f2.cls is None and f2.parent is None and len(f2.params) == 1:
                names = {n.attr if isinstance(n, ast.Attribute) else getattr(n, "id", None) for n in ast.walk(f2.node)}
                if {"IntegerDataEncoding", "FloatDataEncoding"} <= names:
                    fi = f2
        if fi is None:
            raise AnchorMissing("no dtype selector (function of one encoding) found in xarr.py")
    FN = fi.name
    h = Harness(prog, Rec().ext({}))
    spellings = ["unsigned", "signed", "twosComplement", "twosCompliment", "onesComplement", "signMagnitude"]
    for enc in spellings:
        site = f"{fi.key}::integer::{enc}"
        bad = None
        try:
            for bits in range(1, 65):
                k, dt = h.outcome(f"{FN}(encodings.IntegerDataEncoding(bits, enc))", XR, bits=bits, enc=enc)
                if k != "ok":
                    bad = f"{bits}-bit {enc} integer: dtype selection raises {dt}"
                    break
                lo, hi = (0, 2 ** bits - 1) if enc == "unsigned" else (-(2 ** (bits - 1)), 2 ** (bits - 1) - 1)
                for v in (lo, hi):
                    why = dtype_ok(dt, v)
                    if why:
                        bad = f"{bits}-bit `{enc}` integer gets dtype {dt}: {why}"
                        break
                why = column_ok(dt, [lo, hi, 1, hi - 1])
                if why and not bad:
                    bad = f"{bits}-bit `{enc}` integer gets dtype {dt}: {why}"
                if bad:
                    break
        except Unsupported as e:
            ctx.unknown("R18.1", site, str(e))
            continue
        ctx.decide(bad is None, "R18.1", site, "widths 1..64 hold their extremes", bad or "", where=where(fi, fi.node))
    site = f"{fi.key}::float"
    try:
        bad = None
        for bits, v in ((16, 0.333251953125), (32, 3.4028234663852886e+38), (64, 0.1), (64, 1e300)):
            k, dt = h.outcome(f"{FN}(encodings.FloatDataEncoding(bits))", XR, bits=bits)
            why = dtype_ok(dt, v) if k == "ok" else f"raises {dt}"
            if why:
                bad = f"{bits}-bit float gets dtype {dt}: {why}"
        ctx.decide(bad is None, "R18.1", site, "", bad or "", where=where(fi, fi.node))
    except Unsupported as e:
        ctx.unknown("R18.1", site, str(e))


def build(h):
    params = ", ".join(f'parameters.Parameter("{n}", {src})' for n, (src, _) in KINDS.items())
    return h.ev(f"""definitions.XtcePacketDefinition([definitions.containers.SequenceContainer("CCSDSPacket", [{params}])])"""
                .replace("parameters.Parameter", "definitions.parameters.Parameter").replace("parameter_types.", "definitions.parameter_types."), XR)


# the 14-bit sequence count of each APID's packets in stream order: it wraps (16383 -> 0) inside the stream and a later file
# restarts lower - the count is no sort key for rows
_SEQ = {}


def _raw_data(apid):
    n = _SEQ.get(apid, 0)
    _SEQ[apid] = n + 1
    seq = (16382 + n) % 16384 if n < 3 else n - 3
    return Obj("RawPacketData", apid=apid, version_number=0, type=0, secondary_header_flag=0, sequence_flags=3,
               sequence_count=seq, data_length=40)


def packets_for(apid, idx_list):
    out = []
    for i in idx_list:
        p = DictObj(cls="CCSDSPacket", raw_data=_raw_data(apid))
        for n, (_, vals) in KINDS.items():
            kind, v, raw = vals[i % len(vals)]
            p[n] = V(kind, v, raw)
        p.attrs["__idx__"] = i
        out.append(p)
    return out


def dataset_rule(ctx: Ctx):
    prog = ctx.prog
    fi = prog.func(f"{XR}::create_dataset")
    for raw_mode in (False, True):
        rec = Rec()
        h = Harness(prog, rec.ext({}), max_steps=2_000_000)
        try:
            d = build(h)
        except (Unsupported, Raised) as e:
            ctx.unknown("R18.2", f"{fi.key}::definition", f"cannot build the model definition: {e}")
            return
        _SEQ.clear()
        fb = packets_for(2047, [0]) + packets_for(3, [0]) + packets_for(0, [1])
        streams = {"fileA": packets_for(3, [0, 1]) + packets_for(2047, [1]) + packets_for(3, [1]), "fileB": fb}

        seen_kwargs = []

        glued = []

        def pg(selfv, f, **kw):
            seen_kwargs.append(dict(kw))
            names = files_of(f)
            if isinstance(f, Obj) and f.attrs.get("__gzip__"):
                f.attrs["read"](6)          # the framer reads the handle it is given
            if len(names) != 1:
                glued.append(names)
            return [p for n in names for p in streams[n]]
        h.it.ext["XtcePacketDefinition.packet_generator"] = pg
        mode = "raw" if raw_mode else "derived"
        try:
            k, got = h.outcome("create_dataset(['fileB', 'fileA'], d, use_raw_values=raw)", XR, d=d, raw=raw_mode)
        except Unsupported as e:
            ctx.unknown("R18.2", f"{fi.key}::{mode}", str(e))
            continue
        if k != "ok":
            ctx.refuted("R18.4", f"{fi.key}::{mode}::runs", f"create_dataset({mode}) raises {got} on a stream with a fixed field set per APID",
                        where=where(fi, fi.node))
            continue
        # the generator is called with exactly the keyword arguments the caller gave (none here): every packet the
        # generator would yield by default must reach the dataset
        ctx.decide(all(k2 == {} for k2 in seen_kwargs) and len(seen_kwargs) == 2 and not glued, "R18.4", f"{fi.key}::{mode}::generator-arguments",
                   "packet_generator called once per file with the caller's keyword arguments only",
                   (f"create_dataset frames {glued[0]} as one byte stream: framing does not restart at each file, so an incomplete tail "
                    f"of one file is completed with bytes of the next" if glued else
                    f"create_dataset calls packet_generator {len(seen_kwargs)} time(s) for 2 files with {seen_kwargs}: options the caller did "
                    f"not give change which packets reach the dataset"), where=where(fi, fi.node))
        # accumulation: got = {apid: dataset}; dataset.data_vars = {name: (dims, array)}
        want_rows = {3: [("fileB", 0), ("fileA", 0), ("fileA", 1), ("fileA", 1)], 2047: [("fileB", 0), ("fileA", 1)], 0: [("fileB", 1)]}
        ok_acc = isinstance(got, dict) and sorted(got) == [0, 3, 2047]
        why_acc = (f"datasets for APIDs {sorted(got) if isinstance(got, dict) else got!r}, expected [0, 3, 2047] (every APID the generator "
                   f"yields packets for, the reserved idle APID 2047 and APID 0 included)")
        cells = {}
        if ok_acc:
            for apid, ds in got.items():
                dv = ds.attrs["data_vars"]
                if list(dv) != list(KINDS):
                    ok_acc, why_acc = False, f"APID {apid}: variables {list(dv)} differ from the parameters {list(KINDS)}"
                    break
                for name, (dims, arr) in dv.items():
                    vals, dt = arr.attrs["__array__"], arr.attrs["dtype"]
                    exp = []
                    for fname, i in want_rows[apid]:
                        kind, v, raw = KINDS[name][1][i % 2]
                        exp.append((raw if raw is not None else v) if raw_mode else v)
                    if len(vals) != len(exp) or any(not _same(a, b) for a, b in zip(vals, exp)):
                        ok_acc, why_acc = False, (f"APID {apid} variable {name}: rows {[_plain(x) for x in vals]} but the stream order "
                                                  f"(files in the order given) gives {exp}")
                        break
                    cells[(apid, name)] = (vals, dt)
                if not ok_acc:
                    break
        ctx.decide(ok_acc, "R18.4", f"{fi.key}::{mode}::accumulation", "per-APID rows in stream order, one variable per parameter",
                   why_acc, where=where(fi, fi.node))
        # losslessness per parameter kind
        for name in KINDS:
            site = f"{fi.key}::{mode}::{name}"
            bad = None
            cat = ""
            for (apid, n2), (vals, dt) in cells.items():
                if n2 != name:
                    continue
                for v in vals:
                    why = dtype_ok(dt, _plain(v))
                    if why:
                        bad = f"{mode} mode, parameter kind {name}, dtype {dt!r}: {why}"
                        cat = loss_category(dt, _plain(v))
                        break
                why = column_ok(dt, [_plain(v) for v in vals])
                if why and not bad:
                    bad, cat = f"{mode} mode, parameter kind {name}: {why}", "float64-inference-rounds-integers"
                if bad:
                    break
            if (3, name) not in cells:
                ctx.unknown("R18.2", site, "no cells recorded")
            elif bad is None:
                ctx.proved("R18.2", site, "cells equal the parsed values")
            else:
                # the kind of loss is part of the finding's identity: a different loss on the same kind is a new finding
                ctx.refuted("R18.2", f"{site}::{cat}", bad, where=where(fi, fi.node))
    # the list of files in another legal form (tuple, one-shot iterator, Path objects): the same datasets
    for form, src in (("tuple", "('fileB', 'fileA')"), ("one-shot iterator", "iter(['fileB', 'fileA'])"), ("generator expression", "(f for f in ['fileB', 'fileA'])"),
                      ("Path objects", "[Path('fileB'), Path('fileA')]")):
        site = f"{fi.key}::files given as {form}"
        rec = Rec()
        h = Harness(prog, rec.ext({}), max_steps=2_000_000)
        try:
            d = build(h)
            _SEQ.clear()
            fb = packets_for(2047, [0]) + packets_for(3, [0]) + packets_for(0, [1])
            streams = {"fileA": packets_for(3, [0, 1]) + packets_for(2047, [1]) + packets_for(3, [1]), "fileB": fb}
            h.it.ext["XtcePacketDefinition.packet_generator"] = lambda selfv, f, **kw: [p for n in files_of(f) for p in streams[n]]
            k, got = h.outcome(f"create_dataset({src}, d)", XR, d=d)
            rows = {a: len(ds.attrs["data_vars"]["U8"][1].attrs["__array__"]) for a, ds in got.items()} if k == "ok" and isinstance(got, dict) else None
            ctx.decide(rows == {0: 1, 3: 4, 2047: 2}, "R18.4", site, "same rows", f"create_dataset with the files given as a {form}: "
                       f"{'raises ' + str(got) if k != 'ok' else 'rows per APID ' + str(rows)}; the list form gives {{0: 1, 3: 4, 2047: 2}}", where=where(fi, fi.node))
        except (Unsupported, KeyError, AttributeError) as e:
            ctx.unknown("R18.4", site, str(e))
    # generator options given by the caller reach the generator for EVERY file (and nothing else does)
    rec = Rec()
    h = Harness(prog, rec.ext({}), max_steps=2_000_000)
    site = f"{fi.key}::generator options for every file"
    try:
        d = build(h)
        streams = {"f1": packets_for(3, [0]), "f2": packets_for(3, [1]), "f3": packets_for(3, [0, 1])}
        calls = []

        def pg3(selfv, f, **kw):
            calls.append((files_of(f), dict(kw)))
            return [p for n in files_of(f) for p in streams[n]]
        h.it.ext["XtcePacketDefinition.packet_generator"] = pg3
        given = {"parse_bad_pkts": False, "skip_header_bytes": 4, "root_container_name": "CCSDSPacket"}
        k, got = h.outcome("create_dataset(['f1', 'f2', 'f3'], d, parse_bad_pkts=False, skip_header_bytes=4, root_container_name='CCSDSPacket')",
                           XR, d=d)
        bad = None
        if k != "ok":
            bad = f"create_dataset with generator options raises {got}"
        elif [c[0] for c in calls] != [["f1"], ["f2"], ["f3"]]:
            bad = f"the generator was called for {[c[0] for c in calls]}; expected once per file in the order given"
        else:
            for names, kw in calls:
                if kw != given:
                    bad = (f"file {names[0]}: packet_generator received {kw}; the caller gave {given} for every file (an option that is dropped "
                           f"after the first file changes which packets are delivered)")
                    break
        ctx.decide(bad is None, "R18.4", site, "", bad or "", where=where(fi, fi.node))
    except Unsupported as e:
        ctx.unknown("R18.4", site, str(e))
    # no state survives a call: a second call in the same process with another definition that reuses a parameter name
    rec = Rec()
    h = Harness(prog, rec.ext({}), max_steps=2_000_000)
    try:
        d1 = build(h)
        src2 = f'definitions.parameter_types.IntegerParameterType("U8_T", {E}.IntegerDataEncoding(8, "unsigned", default_calibrator={E}.calibrators.PolynomialCalibrator([{E}.calibrators.PolynomialCoefficient(0.25, 1)])))'
        d2 = h.ev(f'definitions.XtcePacketDefinition([definitions.containers.SequenceContainer("CCSDSPacket", [definitions.parameters.Parameter("U8", {src2})])])'
                  .replace("parameter_types.encodings", "definitions.parameter_types.encodings") if False else
                  f'definitions.XtcePacketDefinition([definitions.containers.SequenceContainer("CCSDSPacket", [definitions.parameters.Parameter("U8", {src2.replace("parameter_types.encodings", "definitions.parameter_types.encodings").replace("definitions.definitions.", "definitions.")})])])', XR)
        first = packets_for(3, [0])

        def pg_a(selfv, f, **kw):
            return list(first)
        h.it.ext["XtcePacketDefinition.packet_generator"] = pg_a
        h.outcome("create_dataset('a', d)", XR, d=d1)
        p2 = DictObj(cls="CCSDSPacket", raw_data=Obj("RawPacketData", apid=3))
        p2["U8"] = V("Float", 40.25, 161)
        h.it.ext["XtcePacketDefinition.packet_generator"] = lambda selfv, f, **kw: [p2]
        rec.arrays.clear()
        k, got = h.outcome("create_dataset('b', d)", XR, d=d2)
        bad = None
        if k != "ok":
            bad = f"second call raises {got}"
        else:
            for vals, dt in rec.arrays:
                for v in vals:
                    why = dtype_ok(dt, _plain(v))
                    if why:
                        bad = f"after a call with another definition, parameter U8 (now calibrated) is stored with dtype {dt!r}: {why}"
        ctx.decide(bad is None, "R18.4", f"{fi.key}::no-state-between-calls", "", bad or "", where=where(fi, fi.node))
    except (Unsupported, Raised) as e:
        ctx.unknown("R18.4", f"{fi.key}::no-state-between-calls", str(e))
    # field-set mismatch
    rec = Rec()
    h = Harness(prog, rec.ext({}), max_steps=2_000_000)
    try:
        d = build(h)
        last = list(KINDS)[-1]

        def variant(which):
            a = packets_for(3, [0, 1, 0])
            if which == "later packet lacks a field":
                del a[1][last]
            elif which == "first packet lacks a field (later ones have more)":
                del a[0][last]
            elif which == "middle packet has an extra field":
                a[1]["EXTRA"] = V("Int", 1)
            elif which == "same number of fields, one renamed":
                v = a[2].pop(last)
                a[2]["OTHER"] = v
            return a
        bad = None
        for which in ("later packet lacks a field", "first packet lacks a field (later ones have more)",
                      "middle packet has an extra field", "same number of fields, one renamed"):
            a = variant(which)
            h.it.ext["XtcePacketDefinition.packet_generator"] = lambda selfv, f, a=a, **kw: list(a)
            k, got = h.outcome("create_dataset('only', d)", XR, d=d)
            if not (k == "raise" and got == "ValueError"):
                bad = (f"packets of one APID with different field sets ({which}): "
                       f"{'accepted' if k == 'ok' else 'raises ' + str(got)}; must be rejected with ValueError")
                break
        ctx.decide(bad is None, "R18.4", f"{fi.key}::field-set-mismatch", "rejected with ValueError", bad or "", where=where(fi, fi.node))
    except Unsupported as e:
        ctx.unknown("R18.4", f"{fi.key}::field-set-mismatch", str(e))


def _plain(v):
    for t in (bytes, str, float, int):
        if isinstance(v, t):
            return t(v)
    return v


def _same(a, b):
    a, b = _plain(a), _plain(b)
    return type(a) is type(b) and (a == b or (a != a and b != b))


def check(ctx: Ctx) -> None:
    ctx.guard("R18.1", XR, dtype_table, ctx)
    ctx.guard("R18.2", XR, dataset_rule, ctx)


def mutants(prog):
    import re
    out = []

    def sub(name, pattern, repl, expect="R18", flags=0):
        src = prog.files[XR]
        new, n = re.subn(pattern, repl, src, count=1, flags=flags)
        if n:
            out.append((name, XR, new, expect))

    sub("8-bit bound too wide", r"if nbits <= 8:", "if nbits <= 9:", "R18.1")
    sub("32-bit bound too wide", r"elif nbits <= 32:", "elif nbits <= 33:", "R18.1")
    sub("uint by default", r'datatype = "int"\n        if data_encoding\.encoding == "unsigned":\n            datatype = "uint"',
        'datatype = "uint"\n        if data_encoding.encoding in ("signed", "twosComplement"):\n            datatype = "int"', "R18.1")
    sub("float32 for everything", r'if nbits == 32:\n            datatype \+= "32"', 'if nbits >= 16:\n            datatype += "32"', "R18")
    sub("enum branch after numeric", r"    if isinstance\(parameter_type, parameter_types\.EnumeratedParameterType\):\n        # Enums are always strings in their derived state\n        return \"str\"\n\n(    if isinstance\(data_encoding, encodings\.NumericDataEncoding\):)",
        r"\1", "R18")
    sub("context calibrators ignored", r"if not \(data_encoding\.context_calibrators is not None or data_encoding\.default_calibrator is not None\):",
        "if data_encoding.default_calibrator is None:", "R18.2")
    sub("files sorted", r"(    if isinstance\(packet_files, \(str, Path\)\):\n        packet_files = \[packet_files\]\n)", r"\1    packet_files = sorted(packet_files)\n", "R18.4")
    sub("raw mode stores derived values", r"                    val = value\.raw_value\n", "                    val = value\n", "R18")
    sub("mismatch only warns", r"            if variable_mapping\[apid\] != packet\.keys\(\):\n                raise ValueError\(", "            if False:\n                raise ValueError(", "R18.4")
    sub("one dataset for all APIDs", r"apid = packet\.raw_data\.apid\n", "apid = 0\n", "R18.4")
    return out


SPEC = PropSpec(
    pid="C18",
    title="The xarray dataset holds every parsed value, per APID, in order, without loss",
    check=check,
    floors={"R18.1": 7, "R18.2": 32, "R18.4": 6},
    explanation=("xarr.create_dataset and both dtype functions are interpreted from source; numpy.asarray and xarray.Dataset "
                 "are recording stubs and the packet generator yields model packets. R18.1: the dtype chosen for every "
                 "integer width 1..64 x six encoding spellings and for 16/32/64-bit floats must hold the extremes of that "
                 "encoding according to the checker's numpy dtype table (capacity and sign of (u)intN, float32/float16 "
                 "exactness, float64). R18.2: for 16 parameter kinds (every encoding, default- and context-only "
                 "calibration, enumerated, boolean, string, binary, time) in raw and derived mode the recorded cells with "
                 "their dtype must equal the parsed values - fixed-width S/U dtypes drop trailing NULs and the `str` "
                 "dtype converts bytes to text, which is loss. R18.4: per-APID accumulation in stream order with files in "
                 "the order given, one variable per parameter, ValueError on a field-set mismatch. numpy's conversion of "
                 "any particular value is the checker's table, not numpy itself."
                 ' The generator must be called once per file (files glued into one byte stream are a violation) and a field-set mismatch must be rejected in every order (subset first, superset first, extra field, renamed field).'
                 ' Generator options given by the caller reach the generator for every file; files have first bytes (a legal identification word equal to the gzip magic) and gzip.open fails on them.'
                 ' Rows: APIDs 0, 3 and 2047 whose sequence counts wrap and restart (stream order, not counter order); numpy sorting/indexing helpers are modelled.'
                 " The file list is also given as tuple / one-shot iterator / generator / Path objects; a column given to numpy without dtype is judged by numpy's column-level inference (int64-only mixed with uint64-only values -> float64)."),
    rule_doc="R18.1 per encoding spelling over all widths; R18.2 per (mode, parameter kind); R18.4 accumulation and mismatch",
    assumptions=["numpy: (u)intN capacity, float16/32 rounding, S/U dtypes strip trailing NULs, dtype=None infers a lossless dtype"],
    mutants=mutants,
    technique="abstract interpretation with recording stubs for numpy/xarray; dtype capacity/losslessness table",
)

"""C09 - writing a definition to XTCE XML and loading it back preserves its meaning (DESIGN 5, C09).

The writer (every to_xml) and the reader (from_xtce and every from_xml) are interpreted from source on a model of the
lxml API.  R9.rt: a checker-authored definition that uses every model class and every persistent constructor field with
a non-default value - and a second one that leaves every optional field at its default - is written, loaded, and
compared with an independent structural comparison (names, order, encodings, byte orders, calibrators, criteria, length
specifications incl. the linear adjustments probed at 0/1/5, enumerations, units, descriptions, inheritance, abstract
flags); the loaded definition is written and loaded again and must be equal including the inheritor lists.
R9.cov: every constructor parameter of every model class reachable from the definition is exercised with a
non-default value (so a dropped-and-defaulted attribute cannot hide).  R9.dec: packets reaching every container decode
identically before and after the second cycle.
"""
from __future__ import annotations

import ast

from ..astutil import walk_local
from ..core import Ctx, PropSpec, Unsupported
from ..interp import BoundMethod, Closure, Obj, Raised, StepLimit, TupleObj
from ..models import ccsds_bytes
from . import xmlcommon as X

DEF = X.DEF


def round_trip(ctx: Ctx, name: str, build, prelude=None):
    prog = ctx.prog
    site0 = f"{DEF}::XtcePacketDefinition::{name}"
    h = X.harness(prog)
    try:
        if prelude is not None:
            # another definition was written earlier in the same process (same type names, other contents): what is written
            # for this one must not depend on that
            X.write_tree(h, prelude(h))
        d = build(h)
        g1 = X.write_tree(h, d)
    except Raised as r:
        ctx.refuted("R9.rt", f"{site0}::write", f"writing the {name} definition raises {r.exc.tname}: {r.exc.args}")
        return None
    try:
        d1 = X.load(h, g1, "xtce")
    except Raised as r:
        ctx.refuted("R9.rt", f"{site0}::reload", f"the XML written for the {name} definition cannot be loaded: {r.exc.tname} {r.exc.args}")
        return None
    diff = X.compare_ignoring_inheritors(h, d, d1)
    ctx.decide(diff is None, "R9.rt", f"{site0}::object-built-vs-loaded", "write+load preserves every field",
               f"after write+load the definition differs at {diff}")
    try:
        g2 = X.write_tree(h, d1)
        d2 = X.load(h, g2, "xtce")
    except Raised as r:
        ctx.refuted("R9.rt", f"{site0}::second-cycle", f"second write/load cycle raises {r.exc.tname}: {r.exc.args}")
        return None
    diff = X.compare(h, d1, d2)
    ctx.decide(diff is None, "R9.rt", f"{site0}::loaded-vs-reloaded", "second cycle preserves every field incl. inheritors",
               f"after a second write+load the definition differs at {diff}")
    return h, d, d1, d2


def coverage(ctx: Ctx, d):
    """Every constructor parameter with a default is given a non-default value somewhere in the kitchen-sink graph."""
    prog = ctx.prog
    insts = {}
    seen = set()

    def walk(v, depth=0):
        if depth > 50 or id(v) in seen:
            return
        seen.add(id(v))
        if isinstance(v, Obj) and v.cls and not X.is_elem(v):
            insts.setdefault(v.cls, []).append(v)
            for x in v.attrs.values():
                walk(x, depth + 1)
        elif isinstance(v, dict):
            for x in v.values():
                walk(x, depth + 1)
        elif isinstance(v, (list, tuple)):
            for x in v:
                walk(x, depth + 1)
    walk(d)
    ctx.stats["model_classes_in_graph"] = sorted(insts)
    h = X.harness(prog)
    for cname, objs in sorted(insts.items()):
        ci = prog.classes.get(cname)
        if ci is None or cname == "XtcePacketDefinition":
            continue
        params = []
        if "dataclass" in ci.decorators:
            for c in reversed(prog.mro(cname)):
                cc = prog.classes.get(c)
                if cc and "dataclass" in cc.decorators:
                    for f, ann in cc.ann_attrs.items():
                        if ann.value is not None:
                            params.append((f, ann.value, cc.relpath))
        else:
            init = prog.resolve_method(cname, "__init__")
            if init is None:
                continue
            a = init.node.args
            pos = a.posonlyargs + a.args
            for arg, dflt in zip(pos[len(pos) - len(a.defaults):], a.defaults):
                params.append((arg.arg, dflt, init.relpath))
            for arg, dflt in zip(a.kwonlyargs, a.kw_defaults):
                if dflt is not None:
                    params.append((arg.arg, dflt, init.relpath))
        for pname, dflt, rel in params:
            if (cname, pname) in NOT_PERSISTENT:
                continue
            site = f"{cname}::{pname}"
            try:
                dv = h.ev(ast.unparse(dflt), rel)
                if isinstance(dv, Obj) and "__default_factory__" in dv.attrs:
                    dv = []
            except (Unsupported, Raised):
                dv = "<unevaluated>"
            attr = ATTR_OF.get((cname, pname), pname)
            vals = [o.attrs.get(attr, "<missing>") for o in objs]
            nondefault = [v for v in vals if v != "<missing>" and not _same(v, dv)]
            if all(v == "<missing>" for v in vals):
                ctx.unknown("R9.cov", site, f"constructor parameter {pname} of {cname} is not stored under `{attr}`: the "
                                            f"coverage table of the checker needs this field")
            else:
                ctx.decide(bool(nondefault) or None, "R9.cov", site, "exercised with a non-default value",
                           f"the checker's definition never gives {cname}.{pname} a non-default value")


# constructor parameter -> attribute name where they differ; parameters that are not part of XTCE
ATTR_OF = {("StringDataEncoding", "fixed_raw_length"): "fixed_length", ("SplineCalibrator", "points"): "points"}
NOT_PERSISTENT = {("SequenceContainer", "inheritors")}


def _same(a, b):
    if isinstance(a, (Closure, BoundMethod)):
        return False
    try:
        return a == b and type(a) is type(b) or (a is None and b is None)
    except Exception:
        return False


def decode_equivalence(ctx: Ctx, h, d1, d2):
    """Packets steering into every container decode identically with L(W(D)) and L(W(L(W(D))))."""
    site = f"{DEF}::decode-equivalence"
    u16 = lambda x: x.to_bytes(2, "big")  # noqa: E731
    sci_lo = bytes([2, 0x1F]) + u16(500)[::-1] + b"\x00\x00\x80\x3f" + b"\x40\x00\x00\x01" + b"\x3c\x00" + bytes([1, 0])
    sci_hi = bytes([7, 0x1A]) + u16(2)[::-1] + b"\x00\x00\x80\x3f" + b"\x40\x00\x00\x01" + b"\x3c\x00" + bytes([255, 10]) + bytes([0x50])
    streams = {
        "SCI (MODE<=4)": ccsds_bytes(sci_lo, apid=100),
        "SCI_HI (MODE>4)": ccsds_bytes(sci_hi, apid=100),
        "unknown APID": ccsds_bytes(b"\x01\x02", apid=5),
    }
    bad = None
    try:
        for name, s in streams.items():
            outs = []
            for d in (d1, d2):
                h.it.events.clear()
                k, got = h.outcome("d.packet_generator(src, yield_unrecognized_packet_errors=True)", DEF, d=d, src=s)
                outs.append((k, X.fingerprint(got) if k == "ok" else got, sum(1 for e in h.it.events if e[0] == "warn")))
            if outs[0] != outs[1]:
                bad = f"packet `{name}` decodes differently after a further write/load cycle: {outs[0][1][:160]} vs {outs[1][1][:160]}"
                break
            if outs[0][0] != "ok":
                bad = f"packet `{name}` cannot be decoded with the re-loaded definition: {outs[0][1]}"
                break
    except (Unsupported, StepLimit) as e:
        ctx.unknown("R9.dec", site, str(e))
        return
    ctx.decide(bad is None, "R9.dec", site, f"{len(streams)} packets reaching every container", bad or "")


def other_order(ctx: Ctx):
    """The same definition with its containers listed leaf-first (SCI_HI before its parent SCI, users before COMMON): the
    written document loads to a consistent graph (inheritor lists complete) that decodes like the base order."""
    from .c17 import graph_consistency
    prog = ctx.prog
    h = X.harness(prog)
    site = f"{DEF}::XtcePacketDefinition::kitchen-sink listed leaf-first"
    try:
        d = X.build_kitchen_sink(h)
        c = d.attrs["containers"]
        order = ["SCI_HI", "TXT", "SCI", "COMMON", "CCSDSPacket"]
        d.attrs["containers"] = {k: c[k] for k in order}
        g = X.write_tree(h, d)
        d1 = X.load(h, g, "xtce")
    except Raised as r:
        ctx.refuted("R9.ord", site, f"write/load of the leaf-first definition raises {r.exc.tname}: {r.exc.args}")
        return
    bad = graph_consistency(ctx, d1, site)
    ctx.decide(bad is None, "R9.ord", site, "consistent graph, complete inheritor lists",
               f"the definition written with its containers listed leaf-first re-loads inconsistently: {bad}")


def hand_written(ctx: Ctx):
    """The hand-written document (spellings the writer never produces): loaded, written, loaded again - same definition, and
    every packet of its decision table decodes identically with the original and with the re-loaded definition."""
    from ..xmlmodel import parse_text
    from .c01 import third_cases
    r = round_trip(ctx, "hand-written document", lambda h: X.load(h, parse_text(X.third_text()), "xtce"))
    if not r:
        return
    h, d, d1, d2 = r
    site = f"{DEF}::XtcePacketDefinition::hand-written document::decode-equivalence"
    bad = None
    try:
        for desc, apid, user in third_cases():
            outs = []
            for dd in (d, d1, d2):
                h.it.events.clear()
                k, got = h.outcome("d.packet_generator(src, yield_unrecognized_packet_errors=True)", DEF, d=dd, src=ccsds_bytes(user, apid=apid))
                outs.append((k, X.fingerprint(got) if k == "ok" else got, sum(1 for e in h.it.events if e[0] == "warn")))
            if not (outs[0] == outs[1] == outs[2]):
                j = 1 if outs[0] != outs[1] else 2
                bad = (f"packet `{desc}` decodes differently after {j} write/load cycle(s): {str(outs[0][1])[:200]} vs {str(outs[j][1])[:200]}")
                break
    except (Unsupported, StepLimit) as e:
        ctx.unknown("R9.dec", site, str(e))
        return
    ctx.decide(bad is None, "R9.dec", site, "every packet of the document's decision table", bad or "")


def check(ctx: Ctx) -> None:
    r = ctx.guard("R9.rt", DEF, round_trip, ctx, "kitchen-sink", X.build_kitchen_sink)
    if r:
        h, d, d1, d2 = r
        ctx.guard("R9.cov", DEF, coverage, ctx, d)
        ctx.guard("R9.dec", DEF, decode_equivalence, ctx, h, d1, d2)
    ctx.guard("R9.rt", DEF, round_trip, ctx, "all-defaults", lambda h: h.ev(X.minimal_src(), DEF))
    ctx.guard("R9.rt", DEF, round_trip, ctx, "all-defaults, written after a definition whose types have the same names but other contents",
              lambda h: h.ev(X.minimal_src(), DEF),
              lambda h: h.ev(X.minimal_src().replace('IntegerDataEncoding(8, "unsigned"', 'IntegerDataEncoding(16, "signed"')
                             .replace("FloatDataEncoding(32)", "FloatDataEncoding(64)").replace("fixed_raw_length=16", "fixed_raw_length=24"), DEF))
    r3 = ctx.guard("R9.rt", DEF, round_trip, ctx, "nested three deep, only the root listed", lambda h: h.ev(X.nested_src(), DEF))
    if r3:
        h3, d, d1, d2 = r3
        names = list(d1.attrs["containers"]) if isinstance(d1.attrs.get("containers"), dict) else None
        ctx.decide(names is not None and sorted(names) == ["CCSDSPacket", "INNER", "LEAF", "OUTER"] and
                   all(n in d1.attrs.get("parameters", {}) for n in ("PA", "PB", "PC", "PD")),
                   "R9.rt", f"{DEF}::XtcePacketDefinition::nested three deep, only the root listed::registered",
                   "every nested container and its parameters are registered and written",
                   f"containers after write+load: {names}; parameters: {sorted(d1.attrs.get('parameters', {}))}")
    ctx.guard("R9.rt", DEF, round_trip, ctx, "equal-but-distinguishable enumeration keys; every supported character set",
              lambda h: h.ev(X.twins_src(X.supported_charsets(h)), DEF))
    ctx.guard("R9.ord", DEF, other_order, ctx)
    ctx.guard("R9.rt", DEF, hand_written, ctx)


def mutants(prog):
    import re
    out = []

    def sub(rel, name, pattern, repl, expect="R9", flags=0):
        src = prog.files[rel]
        new, n = re.subn(pattern, repl, src, count=1, flags=flags)
        if n:
            out.append((name, rel, new, expect))

    enc, cmp_, cal, cont, pt, par = ("xtce/encodings.py", "xtce/comparisons.py", "xtce/calibrators.py", "xtce/containers.py",
                                     "xtce/parameter_types.py", "xtce/parameters.py")
    sub(enc, "byteOrder not written (numeric)", r"            byteOrder=self\.byte_order,\n", "")
    sub(enc, "byteOrder not written (string)", r"        if self\.byte_order:\n            element\.attrib\[\"byteOrder\"\] = self\.byte_order\n", "")
    sub(enc, "useCalibratedValue not written (string)", r"                        useCalibratedValue=str\(self\.use_calibrated_value\)\.lower\(\),\n                    \)\n                \)\n\n                if self\.length_linear_adjuster",
        "                    )\n                )\n\n                if self.length_linear_adjuster")
    sub(enc, "useCalibratedValue read from the wrong element", r"parameter_instance_ref_element\.attrib\.get\('useCalibratedValue', \"true\"\)", "dynamic_value_element.attrib.get('useCalibratedValue', \"true\")")
    sub(enc, "slope written as f(1)", r"slope = self\.linear_adjuster\(1\) - intercept", "slope = self.linear_adjuster(1)")
    sub(enc, "leading size not written", r"        if self\.leading_length_size:\n            size_element\.append\(\n                elmaker\.LeadingSize\(sizeInBitsOfSizeTag=str\(self\.leading_length_size\)\)\n            \)\n", "")
    sub(enc, "context calibrators not written", r"        if self\.context_calibrators:\n            element\.append\(\n                elmaker\.ContextCalibratorList\(\n.*\n                \)\n            \)\n", "")
    sub(enc, "float byteOrder not read", r"(encoding = element\.get\(\"encoding\", \"IEEE754\"\)\n        byte_order = )element\.get\(\"byteOrder\", \"mostSignificantByteFirst\"\)", r'\1"mostSignificantByteFirst"')
    sub(cal, "extrapolate not written", r"            extrapolate=str\(self\.extrapolate\)\.lower\(\),\n", "")
    sub(cal, "spline order not read", r"order = int\(element\.attrib\['order'\]\) if 'order' in element\.attrib else 0", "order = 0")
    sub(cal, "coefficient written with %g", r"coefficient=str\(coeff\.coefficient\)", 'coefficient=f"{coeff.coefficient:g}"')
    sub(cmp_, "comparisonOperator not written", r"            comparisonOperator=self\.operator,\n", "")
    sub(cmp_, "right flag written from left", r"useCalibratedValue=str\(self\.right_use_calibrated_value\)\.lower\(\)", "useCalibratedValue=str(self.left_use_calibrated_value).lower()")
    sub(cmp_, "nested ors dropped on write", r"                \*\(_serialize_ored\(ored\) for ored in anded\.ors\)\n", "")
    sub(cont, "abstract not written", r'            "abstract": str\(self\.abstract\)\.lower\(\),\n', "")
    sub(cont, "short description of containers dropped", r"        if self\.short_description:\n            sc_attrib\[\"shortDescription\"\] = self\.short_description\n", "")
    sub(cont, "abstract read case-sensitively", r"\(element\.attrib\['abstract'\]\.lower\(\) in \('true', '1'\)\)", "(element.attrib['abstract'] == 'True')")
    sub(cont, "entry order reversed on write", r"for entry in self\.entry_list:\n            if isinstance\(entry, parameters\.Parameter\)", "for entry in reversed(self.entry_list):\n            if isinstance(entry, parameters.Parameter)")
    sub(pt, "unit not written", r"        if self\.unit:\n            param_type_element\.append\(\n                elmaker\.UnitSet\(\n                    elmaker\.Unit\(self\.unit\)\n                \)\n            \)\n\n        param_type_element\.append\(self\.encoding\.to_xml\(elmaker=elmaker\)\)\n        return param_type_element", "        param_type_element.append(self.encoding.to_xml(elmaker=elmaker))\n        return param_type_element")
    sub(pt, "epoch not written", r"            if self\.epoch:\n                reference_time\.append\(\n                    elmaker\.Epoch\(str\(self\.epoch\)\)\n                \)\n", "")
    sub(pt, "enumeration label/value swapped on write", r"label=label,\n                        value=str\(value", "label=str(value),\n                        value=str(label")
    sub(par, "long description not written", r"        if self\.long_description:\n            element\.append\(\n                elmaker\.LongDescription\(self\.long_description\)\n            \)\n", "")
    sub("xtce/definitions.py", "space system name not read", r"space_system_name=space_system\.attrib\.get\(\"name\", None\)", "space_system_name=None")
    return out


SPEC = PropSpec(
    pid="C09",
    title="Writing a definition to XTCE XML and loading it back preserves its meaning",
    check=check,
    floors={"R9.rt": 4, "R9.cov": 30, "R9.dec": 1},
    explanation=("Writer and reader are interpreted from source on a model of the lxml API (elements, ElementPath subset, "
                 "ElementMaker). A checker-authored definition using all 22 model classes with every persistent "
                 "constructor field at a non-default value (R9.cov verifies this against the constructors' current "
                 "signatures, so a new or renamed field makes the check fail closed), and a second definition with "
                 "every optional field at its default, are written and loaded; an independent structural comparison "
                 "(which also probes the linear length adjustments) must find no difference between D and L(W(D)) "
                 "(inheritor lists excepted: they are back-populated by the loader) nor between L(W(D)) and "
                 "L(W(L(W(D)))); packets reaching every container decode identically after the further cycle. "
                 "A dropped, renamed, mis-converted or re-ordered attribute/element on either side shows up as a named "
                 "field difference. Does not decide equality for definitions outside these two (the classes and fields "
                 "are covered, their value spaces are not)."
                 ' A definition assembled from objects whose container_set lists only the root of a three-deep nesting must be written and re-loaded completely.'
                 ' The hand-written document of R1.e3 (step spline, little-endian termination character, range comparison lists) is loaded, written and loaded again: same definition, and every packet of its decision table decodes identically with all three.'
                 ' The twins document carries time types whose polynomial is not a scale/offset pair.'),
    rule_doc="R9.rt per (definition, comparison); R9.cov per (class, constructor parameter); R9.dec decode equivalence",
    assumptions=["lxml ElementPath/ElementMaker semantics as modelled in spv/xmlmodel.py", "str(float)/float(str) are mutually inverse (CPython)"],
    mutants=mutants,
    technique="abstract interpretation of writer and reader over a model DOM; structural comparison of object graphs; field-coverage table",
)

"""C04 - integer and float fields decode correctly at every size, offset and byte order (DESIGN 5, C04).

Decision tables by abstract interpretation of Integer/FloatDataEncoding (constructors, _get_raw_value,
_twos_complement, the IEEE / MIL-1750A closures, NumericDataEncoding.parse_value, cursor readers) against the
checker's own reference (bit strings; struct for IEEE-754; the MIL-STD-1750A formula mantissa/2**23 * 2**exponent):
R4.int   widths x {unsigned, signed, twosComplement} x bit offsets x boundary bit patterns (all zeros, all ones, sign
         bit only, lowest bit only, alternating, mixed); least-significant-byte-first for whole-byte widths.
R4.float IEEE 16/32/64 and MIL-1750A x byte order x bit offsets x {0, -0, 1, -2.5, inf, -inf, NaN, smallest
         subnormal, largest finite, mixed}.
R4.cls   uncalibrated integers come back as IntParameter, floats as FloatParameter, raw_value = value, cursor += width.
R4.tab   structural: the IEEE struct-code table agrees with struct.calcsize for each admitted size; two's-complement
         constants use one width.
"""
from __future__ import annotations

import ast
import itertools
import math
import struct

from ..astutil import dotted, norm, walk_local
from ..core import Ctx, PropSpec, Unsupported
from ..extract import where
from ..harness import Harness, cursor
from ..interp import pub, Raised

ENC = "xtce/encodings.py"


def bits_of(b: bytes) -> str:
    return "".join(f"{x:08b}" for x in b)


def pack_bits(bits: str) -> bytes:
    pad = (8 - len(bits) % 8) % 8
    bits = bits + "0" * pad
    return int(bits, 2).to_bytes(len(bits) // 8, "big") if bits else b""


def patterns(w: int):
    yield "zeros", "0" * w
    yield "ones", "1" * w
    yield "sign bit only", "1" + "0" * (w - 1)
    yield "lowest bit only", "0" * (w - 1) + "1"
    yield "alternating", ("10" * w)[:w]
    yield "mixed", (bits_of(bytes([0x9C, 0x3A, 0xE1, 0x07, 0xB6, 0x58, 0xF2, 0x4D, 0x81, 0x6B] * 2)))[:w]
    if w > 8:
        yield "low byte ones", "0" * (w - 8) + "1" * 8


def int_table(ctx: Ctx, h: Harness, thorough: bool):
    fi = ctx.prog.func_opt(f"{ENC}::IntegerDataEncoding._get_raw_value") or ctx.prog.resolve_method("IntegerDataEncoding", "parse_value") \
        or ctx.prog.func(f"{ENC}::NumericDataEncoding.parse_value")
    widths = list(range(1, 66)) + [72, 96, 128] if thorough else [1, 2, 3, 7, 8, 9, 12, 15, 16, 17, 24, 31, 32, 33, 48, 63, 64, 65]
    offsets = range(8) if thorough else (0, 3, 7)
    n = 0
    for enc in ("unsigned", "signed", "twosComplement", "twosCompliment"):
        for order in ("mostSignificantByteFirst", "leastSignificantByteFirst"):
            site = f"{fi.key}::{enc}::{order}"
            bad = None
            try:
                for w in widths:
                    if order.startswith("least") and w % 8:
                        continue                     # byte order is defined for whole-byte widths
                    e = h.ev("IntegerDataEncoding(w, enc, byte_order=order)", ENC, w=w, enc=enc, order=order)
                    for off in offsets:
                        for pname, fbits in patterns(w):
                            n += 1
                            data = pack_bits("1" * off + fbits + "101")
                            pkt = h.packet(data, {})
                            pub(pkt, "raw_data").attrs["pos"] = off
                            kind, got = h.outcome("e.parse_value(pkt)", ENC, e=e, pkt=pkt)
                            fb = fbits
                            if order.startswith("least"):
                                by = [fb[i:i + 8] for i in range(0, w, 8)]
                                fb = "".join(reversed(by))
                            val = int(fb, 2)
                            if enc != "unsigned" and fb[0] == "1":
                                val -= 1 << w
                            pos = cursor(h, pub(pkt, "raw_data"))
                            ok = kind == "ok" and got == val and getattr(got, "cls", "") == "IntParameter" and isinstance(got, int) \
                                and got.attrs.get("raw_value") == val and pos == off + w
                            if not ok:
                                bad = (f"{w}-bit {enc} integer, {order}, bit offset {off}, pattern {pname} ({fbits[:40]}{'...' if w > 40 else ''}): "
                                       f"{'raises ' + str(got) if kind != 'ok' else repr(got) + ' (' + str(getattr(got, 'cls', type(got).__name__)) + '), cursor ' + str(pos)}; "
                                       f"expected {val} as IntParameter, cursor {off + w}")
                                break
                        if bad:
                            break
                    if bad:
                        break
            except Unsupported as e2:
                ctx.unknown("R4.int", site, str(e2))
                continue
            ctx.decide(bad is None, "R4.int", site, "", bad or "", where=where(fi, fi.node))
    ctx.stats["int_cases"] = n
    # "uncalibrated integers are returned as integer values": calibrators that are declared but do not apply to this packet
    site = f"{fi.key}::context calibrators that do not match"
    try:
        bad = None
        cal = "calibrators.PolynomialCalibrator([calibrators.PolynomialCoefficient(2.0, 1)])"
        for w, bits in ((16, "1000000000000001"), (64, "1" + "0" * 62 + "1")):
            e = h.ev(f"IntegerDataEncoding(w, 'unsigned', context_calibrators=[calibrators.ContextCalibrator("
                     f"[comparisons.Comparison('1', 'MODE')], {cal})])", ENC, w=w)
            for mode, calibrated in ((0, False), (1, True)):
                pkt = h.packet(pack_bits(bits), {"MODE": h.val("Int", mode)})
                kind, got = h.outcome("e.parse_value(pkt)", ENC, e=e, pkt=pkt)
                raw = int(bits, 2)
                if calibrated:
                    ok = kind == "ok" and isinstance(got, float) and got == 2.0 * raw and got.attrs.get("raw_value") == raw
                    want = f"{2.0 * raw!r} as FloatParameter with raw value {raw}"
                else:
                    ok = kind == "ok" and isinstance(got, int) and not isinstance(got, bool) and got == raw and \
                        getattr(got, "cls", "") == "IntParameter" and got.attrs.get("raw_value") == raw
                    want = f"{raw} as IntParameter (no calibrator applies)"
                if not ok:
                    bad = (f"{w}-bit unsigned integer with a context calibrator for MODE==1, packet has MODE={mode}: "
                           f"{'raises ' + str(got) if kind != 'ok' else repr(got) + ' (' + str(getattr(got, 'cls', type(got).__name__)) + ')'}; expected {want}")
                    break
            if bad:
                break
        ctx.decide(bad is None, "R4.int", site, "", bad or "", where=where(fi, fi.node))
    except Unsupported as e2:
        ctx.unknown("R4.int", site, str(e2))


def mil1750a(bits32: str) -> float:
    m = int(bits32[:24], 2)
    e = int(bits32[24:], 2)
    if m & (1 << 23):
        m -= 1 << 24
    if e & 0x80:
        e -= 256
    return (m / float(1 << 23)) * (2.0 ** e)


FLOAT_VALUES = [0.0, -0.0, 1.0, -2.5, float("inf"), float("-inf"), float("nan")]


def float_table(ctx: Ctx, h: Harness, thorough: bool):
    fi = ctx.prog.func_opt(f"{ENC}::FloatDataEncoding._get_raw_value") or ctx.prog.resolve_method("FloatDataEncoding", "parse_value") \
        or ctx.prog.func(f"{ENC}::NumericDataEncoding.parse_value")
    offsets = range(8) if thorough else (0, 1, 5)
    n = 0
    for size, code in ((16, "e"), (32, "f"), (64, "d")):
        extremes = {16: [5.960464477539063e-08, 65504.0, 0.333251953125], 32: [1.401298464324817e-45, 3.4028234663852886e+38, 0.10000000149011612],
                    64: [5e-324, 1.7976931348623157e+308, 0.1]}[size]
        for order, pre in (("mostSignificantByteFirst", ">"), ("leastSignificantByteFirst", "<")):
            for encname in ("IEEE754", "IEEE754_1985", "IEEE-754"):      # the last is the tolerated non-XTCE spelling (warns)
                site = f"{fi.key}::{encname} binary{size}::{order}"
                bad = None
                try:
                    e = h.ev("FloatDataEncoding(size, encoding=encname, byte_order=order)", ENC, size=size, encname=encname, order=order)
                    for v in FLOAT_VALUES + extremes:
                        field = struct.pack(pre + code, v)
                        want = struct.unpack(pre + code, field)[0]
                        for off in offsets:
                            n += 1
                            data = pack_bits("0" * off + bits_of(field) + "11")
                            pkt = h.packet(data, {})
                            pub(pkt, "raw_data").attrs["pos"] = off
                            kind, got = h.outcome("e.parse_value(pkt)", ENC, e=e, pkt=pkt)
                            pos = cursor(h, pub(pkt, "raw_data"))
                            same = kind == "ok" and isinstance(got, float) and ((got != got and want != want) or
                                                                                (got == want and math.copysign(1, got) == math.copysign(1, want)))
                            ok = same and getattr(got, "cls", "") == "FloatParameter" and pos == off + size
                            if not ok:
                                bad = (f"binary{size} {order} at bit offset {off}, bytes {field.hex()}: "
                                       f"{'raises ' + str(got) if kind != 'ok' else repr(float(got)) + ' (' + str(getattr(got, 'cls', '')) + '), cursor ' + str(pos)}; "
                                       f"IEEE-754 value is {want!r}, cursor {off + size}")
                                break
                        if bad:
                            break
                except Unsupported as e2:
                    ctx.unknown("R4.float", site, str(e2))
                    continue
                except Raised as r:
                    ctx.refuted("R4.float", site, f"FloatDataEncoding({size}, {encname}) cannot be constructed: {r.exc.tname}")
                    continue
                ctx.decide(bad is None, "R4.float", site, "", bad or "", where=where(fi, fi.node))
    # MIL-STD-1750A
    vectors = ["01111111111111111111111101111111", "01000000000000000000000001111111", "01010000000000000000000000000100",
               "01000000000000000000000000000001", "01000000000000000000000000000000", "01000000000000000000000011111111",
               "01000000000000000000000010000000", "00000000000000000000000000000000", "10000000000000000000000000000000",
               "10111111111111111111111110000000", "10011111111111111111111100000100", "11010000000000000000001100000011"]
    for order in ("mostSignificantByteFirst", "leastSignificantByteFirst"):
        site = f"{fi.key}::MILSTD_1750A::{order}"
        bad = None
        try:
            e = h.ev("FloatDataEncoding(32, encoding=name, byte_order=order)", ENC, order=order,
                     name="MILSTD_1750A" if order.startswith("most") else "MIL-1750A")      # tolerated spelling on the second pass
            for v in vectors:
                want = mil1750a(v)
                fieldbytes = pack_bits(v)
                if order.startswith("least"):
                    fieldbytes = fieldbytes[::-1]
                for off in offsets:
                    n += 1
                    data = pack_bits("1" * off + bits_of(fieldbytes) + "0")
                    pkt = h.packet(data, {})
                    pub(pkt, "raw_data").attrs["pos"] = off
                    kind, got = h.outcome("e.parse_value(pkt)", ENC, e=e, pkt=pkt)
                    pos = cursor(h, pub(pkt, "raw_data"))
                    ok = kind == "ok" and isinstance(got, float) and got == want and getattr(got, "cls", "") == "FloatParameter" and pos == off + 32
                    if not ok:
                        bad = (f"MIL-1750A word {int(v, 2):08x} ({order}) at bit offset {off}: "
                               f"{'raises ' + str(got) if kind != 'ok' else repr(float(got)) + ', cursor ' + str(pos)}; the format gives {want!r}, cursor {off + 32}")
                        break
                if bad:
                    break
        except Unsupported as e2:
            ctx.unknown("R4.float", site, str(e2))
            continue
        except Raised as r:
            ctx.refuted("R4.float", site, f"a MIL-STD-1750A encoding ({order}) cannot be constructed after the earlier ones: {r.exc.tname} {r.exc.args}")
            continue
        ctx.decide(bad is None, "R4.float", site, "", bad or "", where=where(fi, fi.node))
    ctx.stats["float_cases"] = n
    # constructor admits exactly the IEEE sizes 16/32/64 and 32 for MIL
    site = f"{ENC}::FloatDataEncoding.__init__::admitted-sizes"
    try:
        bad = None
        for size in (8, 16, 24, 32, 48, 64, 128):
            k, _ = h.outcome("FloatDataEncoding(size)", ENC, size=size)
            if (k == "ok") != (size in (16, 32, 64)):
                bad = f"IEEE float of {size} bits is {'accepted' if k == 'ok' else 'rejected'}"
        for size in (16, 32, 64):
            k, _ = h.outcome("FloatDataEncoding(size, encoding='MILSTD_1750A')", ENC, size=size)
            if (k == "ok") != (size == 32):
                bad = f"MIL-1750A float of {size} bits is {'accepted' if k == 'ok' else 'rejected'}"
        ctx.decide(bad is None, "R4.tab", site, "", bad or "")
    except Unsupported as e2:
        ctx.unknown("R4.tab", site, str(e2))


def struct_table(ctx: Ctx):
    """R4.tab: every `self._struct_format += "<code>"` under a test `size_in_bits == N` has 8*calcsize(code) == N."""
    prog = ctx.prog
    fi = prog.func(f"{ENC}::FloatDataEncoding.__init__")
    rows = 0
    for n in walk_local(fi.node):
        if isinstance(n, ast.If) and isinstance(n.test, ast.Compare) and len(n.test.ops) == 1 and isinstance(n.test.ops[0], ast.Eq) \
                and (dotted(n.test.left) or "").endswith("size_in_bits"):
            size = prog.fold_opt(n.test.comparators[0], ENC)
            for st in n.body:
                if isinstance(st, ast.AugAssign) and (dotted(st.target) or "").endswith("_struct_format") and isinstance(st.value, ast.Constant):
                    code = st.value.value
                    rows += 1
                    try:
                        sz = 8 * struct.calcsize(">" + code)
                    except struct.error:
                        sz = None
                    ctx.decide(sz == size, "R4.tab", f"{fi.key}::struct-code::{size}", f"'{code}' is {sz} bits",
                               f"size {size} is unpacked with struct code '{code}' ({sz} bits)", where=where(fi, st))
    if rows == 0:
        ctx.note("no size->struct-code table found in FloatDataEncoding.__init__ (decided by R4.float only)")


def xml_declared(ctx: Ctx):
    """Size, encoding and byte order as declared in a document are what the loaded encoding decodes with."""
    from ..xmlmodel import attach_nsmap, clark, make_elem
    from . import xmlcommon as X
    h = X.harness(ctx.prog)
    X.set_ns_state(h, "xtce", {"xtce": X.URI})
    field = bytes([0x01, 0x02, 0x03, 0x84])
    cases = [
        ("IntegerDataEncoding", {"sizeInBits": "32", "encoding": "unsigned", "byteOrder": "leastSignificantByteFirst"}, 0x84030201),
        ("IntegerDataEncoding", {"sizeInBits": "32", "encoding": "twosComplement", "byteOrder": "leastSignificantByteFirst"}, 0x84030201 - (1 << 32)),
        ("IntegerDataEncoding", {"sizeInBits": "32", "encoding": "signed"}, 0x01020384),
        ("IntegerDataEncoding", {"sizeInBits": "32"}, 0x01020384),
        ("IntegerDataEncoding", {"sizeInBits": "12", "encoding": "twosComplement"}, 0x010),
        ("FloatDataEncoding", {"sizeInBits": "32", "byteOrder": "leastSignificantByteFirst"}, struct.unpack("<f", field)[0]),
        ("FloatDataEncoding", {"sizeInBits": "32", "encoding": "IEEE754_1985"}, struct.unpack(">f", field)[0]),
        ("FloatDataEncoding", {"sizeInBits": "32", "encoding": "MILSTD_1750A", "byteOrder": "leastSignificantByteFirst"}, mil1750a(bits_of(field[::-1]))),
        ("FloatDataEncoding", {"sizeInBits": "32", "encoding": "MILSTD_1750A"}, mil1750a(bits_of(field))),
    ]
    for cls, attrs, want in cases:
        site = f"{ENC}::{cls}.from_xml::{sorted(attrs.items())}"
        el = make_elem(clark(X.URI, cls), attrs)
        attach_nsmap(el)
        try:
            e = h.ev(f"{cls}.from_xml(el)", ENC, el=el)
            pkt = h.packet(field + b"\xff", {})
            kind, got = h.outcome("e.parse_value(pkt)", ENC, e=e, pkt=pkt)
            ctx.decide(kind == "ok" and got == want, "R4.xml", site, "",
                       f"<{cls} {' '.join(k + '=' + repr(v) for k, v in attrs.items())}/> decodes bytes {field.hex()} to "
                       f"{'an error ' + str(got) if kind != 'ok' else repr(got)}; the declared encoding gives {want!r}")
        except Raised as r:
            ctx.refuted("R4.xml", site, f"{cls} with {attrs} cannot be loaded: {r.exc.tname} {r.exc.args}")
        except Unsupported as e2:
            ctx.unknown("R4.xml", site, str(e2))


def result_classes(ctx: Ctx):
    """Uncalibrated integer encodings come back as integers and float encodings as floats whatever parameter type wraps
    them (an IntegerDataEncoding under a FloatParameterType is still an exact integer)."""
    PT = "xtce/parameter_types.py"
    h = Harness(ctx.prog)
    big = (1 << 64) - 1
    for ptype in ("IntegerParameterType", "FloatParameterType", "AbsoluteTimeParameterType", "RelativeTimeParameterType"):
        for encsrc, data, want, cls in (("encodings.IntegerDataEncoding(64, 'unsigned')", big.to_bytes(8, "big"), big, "IntParameter"),
                                        ("encodings.IntegerDataEncoding(16, 'signed')", b"\xff\xfe", -2, "IntParameter"),
                                        ("encodings.FloatDataEncoding(64)", struct.pack(">d", 0.1), 0.1, "FloatParameter")):
            site = f"{PT}::{ptype}.parse_value::{encsrc.split('(')[0].split('.')[-1]}{encsrc.split('(')[1][:2]}"
            try:
                kind, got = h.outcome(f"{ptype}('T', {encsrc}).parse_value(pkt)", PT, pkt=h.packet(data + b"\x00", {}))
                ok = kind == "ok" and got == want and getattr(got, "cls", "") == cls and isinstance(got, float) == isinstance(want, float) \
                    and got.attrs.get("raw_value") == want
                ctx.decide(ok, "R4.cls", site, f"{cls}",
                           f"{ptype} over {encsrc}: {'raises ' + str(got) if kind != 'ok' else repr(got) + ' (' + str(getattr(got, 'cls', type(got).__name__)) + ')'}; "
                           f"the uncalibrated encoded value is {want!r} as {cls}")
            except Unsupported as e:
                ctx.unknown("R4.cls", site, str(e))


def check(ctx: Ctx) -> None:
    ctx.guard("R4.cls", ENC, result_classes, ctx)
    ctx.guard("R4.xml", ENC, xml_declared, ctx)
    thorough = ctx.stats.get("tier") == "thorough"
    h = Harness(ctx.prog, max_steps=400000)
    ctx.guard("R4.int", ENC, int_table, ctx, h, thorough)
    ctx.guard("R4.float", ENC, float_table, ctx, h, thorough)
    ctx.guard("R4.tab", ENC, struct_table, ctx)
    # decoding is a function of the bits: nothing reachable from the numeric decoders (incl. the value constructor) writes to an
    # encoding, a class or a module-level object (no interning, no memo tables: 0.0 / -0.0, 1 / 1.0 / True are distinguishable)
    from ..callgraph import CallGraph
    from .c11 import effect_rule
    roots = [k for k in (f"{ENC}::NumericDataEncoding.parse_value", f"{ENC}::IntegerDataEncoding._get_raw_value",
                         f"{ENC}::FloatDataEncoding._get_raw_value") if ctx.prog.func_opt(k) is not None] or \
            [f"{ENC}::NumericDataEncoding.parse_value"]
    ctx.guard("R4.pure", ENC, effect_rule, ctx, CallGraph(ctx.prog), roots, "R4.pure", "numeric decoding")
    from .c11 import reparse_rule
    ctx.guard("R4.fresh", "packets.py::CCSDSPacket", reparse_rule, ctx, "R4.fresh")     # "for every packet and bit offset": each parse starts at bit 0
    # the decoded integer is what the *encoding* says, whatever the parameter type around it declares (`signed` attribute)
    from .c01 import end_to_end_third
    ctx.guard("R4.e3", "xtce/definitions.py", end_to_end_third, ctx, "R4.e3")


def mutants(prog):
    import re
    src = prog.files[ENC]
    out = []

    def sub(name, pattern, repl, expect="R4", flags=0):
        new, n = re.subn(pattern, repl, src, count=1, flags=flags)
        if n:
            out.append((name, ENC, new, expect))

    sub("sign test on the wrong bit", r"\(val & \(1 << \(bit_width - 1\)\)\) != 0", "(val & (1 << (bit_width - 2))) != 0")
    sub("sign extension off by one", r"return val - \(1 << bit_width\)", "return val - (1 << (bit_width - 1))")
    sub("signed treated as unsigned", r"if self\.encoding == 'unsigned':\n            return val", "if self.encoding in ('unsigned', 'signed'):\n            return val")
    sub("byte swap only for 16 bits", r"if self\.byte_order == 'leastSignificantByteFirst':\n            # Convert little", "if self.byte_order == 'leastSignificantByteFirst' and self.size_in_bits <= 16:\n            # Convert little")
    sub("byte swap rotates", r"int\.from_bytes\(\n                val\.to_bytes\(\n                    length=\(self\.size_in_bits \+ 7\) // 8,\n                    byteorder=\"little\"\n                \),\n                byteorder=\"big\"\n            \)",
        "((val & 0xFF) << (8 * ((self.size_in_bits + 7) // 8 - 1))) | (val >> 8)")
    sub("float32 code for 64 bits", r'elif self\.size_in_bits == 64:\n                self\._struct_format \+= "d"', 'elif self.size_in_bits == 64:\n                self._struct_format += "f"')
    sub("float16 unsupported code", r'if self\.size_in_bits == 16:\n                self\._struct_format \+= "e"', 'if self.size_in_bits == 16:\n                self._struct_format += "h"')
    sub("little-endian floats read big-endian", r'self\._struct_format = "<"', 'self._struct_format = ">"')
    sub("MIL exponent mask", r"exponent = bytes_as_int & 0xFF  # last 8 bits", "exponent = bytes_as_int & 0x7F  # last 8 bits")
    sub("MIL mantissa scale", r"2\.0 \*\* \(exponent - \(24 - 1\)\)", "2.0 ** (exponent - 24)")
    sub("MIL byte order ignored", r"if self\.byte_order == \"leastSignificantByteFirst\":\n                    bytes_as_int = int\.from_bytes\(mil_bytes, byteorder='little'\)", "if False:\n                    bytes_as_int = int.from_bytes(mil_bytes, byteorder='little')")
    sub("uncalibrated ints returned as floats", r"_data_return_class = common\.IntParameter", "_data_return_class = common.FloatParameter")
    sub("whole-byte fast path ignores twosComplement", r"        val = packet\.raw_data\.read_as_int\(self\.size_in_bits\)\n", "        if self.size_in_bits % 8 == 0 and self.byte_order != 'leastSignificantByteFirst':\n            return int.from_bytes(packet.raw_data.read_as_bytes(self.size_in_bits), 'big', signed=self.encoding == 'signed')\n        val = packet.raw_data.read_as_int(self.size_in_bits)\n")
    return out


SPEC = PropSpec(
    pid="C04",
    title="Integer and float fields decode correctly at every size, offset and byte order",
    check=check,
    floors={"R4.e3": 20, "R4.int": 6, "R4.float": 20, "R4.tab": 4, "R4.xml": 9, "R4.cls": 12, "R4.pure": 3},
    fallback={"R4.tab": ("R4.float",)},
    explanation=("Decision tables by abstract interpretation of the numeric decoders against the checker's reference: "
                 "integers for 18 widths (thorough: every width 1..65 plus 72/96/128) x three encodings x both byte "
                 "orders (whole-byte widths) x bit offsets x seven boundary bit patterns (zeros, ones, sign bit only, "
                 "lowest bit only, alternating, mixed, low byte ones) - value, IntParameter class, raw value, cursor; "
                 "IEEE-754 binary16/32/64 in both byte orders and both encoding spellings x offsets x {0, -0, 1, -2.5, "
                 "inf, -inf, NaN, smallest subnormal, largest finite, an inexact value}; MIL-STD-1750A for twelve words "
                 "covering sign/exponent extremes in both byte orders; the sizes the constructor admits; and the "
                 "structural struct-code table (8*calcsize(code) = size). IEEE bit-exactness itself is struct's."
                 ' Also the spelling twosCompliment and integers whose declared context calibrators do not apply (they stay integers).'
                 ' R4.pure: nothing reachable from the numeric decoders writes to an encoding, a class or a module-level object (effect analysis); R4.fresh: every parsed packet owns a fresh cursor; the tolerated spellings IEEE-754 / MIL-1750A are constructed in sequence with the others.'
                 ' R4.e3: the hand-written document of R1.e3 (the decoded integer follows the encoding, whatever the `signed` attribute of the parameter type says).'),
    rule_doc="R4.int per (encoding, byte order) over widths x offsets x patterns; R4.float per (format, byte order, spelling); R4.tab per table row",
    assumptions=["struct.unpack implements IEEE-754 binary16/32/64", "MIL-STD-1750A: value = mantissa/2**23 * 2**exponent, both two's complement",
                 "cursor reads are exact (C03)"],
    mutants=mutants,
    technique="decision tables by abstract interpretation against bit-string / struct / 1750A references; struct-code table check",
)

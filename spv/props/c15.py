"""C15 - serialization is deterministic and stable under repeated write/load cycles (DESIGN 5, C15).

R15.1 effect analysis: nothing reachable from to_xml_tree writes to the definition (or any model object).
R15.2 no nondeterminism source reachable from to_xml_tree other than the documented date fallback.
R15.3 namespace: every element of W(D) lies in D's XTCE namespace (checker's definition uses a namespace URI different
      from the library default, so a hard-coded URI shows); elements are created through the factory only.
R15.w model evaluation of the writer/reader on the XML model: W(D) == W(D) (with and without a header date, the date
      stubbed), D unchanged by writing (graph fingerprint), G2 == G3 for the kitchen-sink and the all-defaults definition.
"""
from __future__ import annotations

import ast

from ..astutil import dotted, norm, walk_local
from ..callgraph import CallGraph
from ..core import Ctx, PropSpec, Unsupported
from ..extract import where
from ..interp import Raised
from ..xmlmodel import all_elements, serialize, split_tag
from . import xmlcommon as X
from .c11 import effect_rule

DEF = X.DEF
ROOT = f"{DEF}::XtcePacketDefinition.to_xml_tree"
NONDET = {"id", "hash", "random", "uuid", "uuid4", "uuid1", "time", "time_ns", "perf_counter", "monotonic", "getpid",
          "urandom", "getenv", "environ", "today", "utcnow", "now", "shuffle", "sample", "choice", "gethostname"}


def nondeterminism(ctx: Ctx, cg: CallGraph):
    prog = ctx.prog
    cl = cg.closure([ROOT])
    for k in sorted(cl):
        fi = prog.functions[k]
        bad = []
        for n in walk_local(fi.node):
            if isinstance(n, ast.Call):
                d = dotted(n.func) or ""
                last = d.split(".")[-1]
                if last in NONDET:
                    # datetime.now() is tolerated only as the fallback operand of `self.date or ...`
                    ok = False
                    if last == "now":
                        for p in ast.walk(fi.node):
                            if isinstance(p, ast.BoolOp) and isinstance(p.op, ast.Or) and len(p.values) == 2 and \
                                    dotted(p.values[0]) == "self.date" and any(x is n for x in ast.walk(p.values[1])):
                                ok = True
                    if not ok:
                        bad.append(n)
                if last in ("set", "frozenset") and d in ("set", "frozenset"):
                    # iteration over a set has no defined order
                    for p in ast.walk(fi.node):
                        if isinstance(p, (ast.For, ast.comprehension)) and any(x is n for x in ast.walk(p.iter)):
                            bad.append(n)
            if isinstance(n, (ast.For, ast.comprehension)) and isinstance(n.iter, (ast.Set, ast.SetComp)):
                bad.append(n.iter)
        if bad:
            for n in bad:
                ctx.refuted("R15.2", f"{k}::{norm(n)}", f"`{norm(n)}` makes the written XML depend on something other than the definition",
                            where=where(fi, n))
        else:
            ctx.proved("R15.2", k, "no nondeterminism source")


def factory_only(ctx: Ctx, cg: CallGraph):
    prog = ctx.prog
    cl = cg.closure([ROOT])
    makers = 0
    for k in sorted(cl):
        fi = prog.functions[k]
        for n in walk_local(fi.node):
            if isinstance(n, ast.Call):
                d = dotted(n.func) or ""
                last = d.split(".")[-1]
                if last in ("Element", "SubElement", "fromstring", "XML", "QName") and (d.startswith("ElementTree") or d.startswith("etree") or "." not in d):
                    if last == "QName":
                        continue
                    ctx.refuted("R15.3", f"{k}::{norm(n)[:80]}", f"element created with `{d}` instead of the namespace-bound factory handed "
                                                                  f"down from to_xml_tree", where=where(fi, n))
                if last == "ElementMaker":
                    makers += 1
                    ns = next((kw.value for kw in n.keywords if kw.arg == "namespace"), None)
                    from ..extract import resolve_local
                    nsr = resolve_local(fi, ns) if ns is not None else None
                    if k != ROOT:
                        ctx.refuted("R15.3", f"{k}::ElementMaker", f"a second element factory is constructed in {k}: its elements "
                                                                     f"do not come from the factory bound to the definition's namespace", where=where(fi, n))
                    elif nsr is not None and dotted(nsr) == "self.xtce_schema_uri":
                        ctx.proved("R15.3", f"{k}::ElementMaker", "the one factory is bound to self.xtce_schema_uri")
                    elif nsr is not None and isinstance(nsr, ast.Constant):
                        ctx.refuted("R15.3", f"{k}::ElementMaker", f"the element factory is bound to the constant namespace {nsr.value!r}, "
                                                                     f"not to the definition's", where=where(fi, n))
                    else:
                        ctx.proved("R15.3", f"{k}::ElementMaker", "one factory, in to_xml_tree (its namespace is decided by R15.w::namespace)")
    if makers == 0:
        ctx.unknown("R15.3", ROOT, "no ElementMaker construction found in the writer closure")


def writer_model(ctx: Ctx):
    prog = ctx.prog
    for name, build in (("kitchen-sink", lambda h, **k: X.build_kitchen_sink(h, **k)),
                        ("all-defaults", lambda h, **k: h.ev(X.minimal_src(**k), DEF)),
                        ("enumeration keys and character sets", lambda h, **k: h.ev(X.twins_src(X.supported_charsets(h), **k), DEF))):
        site0 = f"{ROOT}::{name}"
        h = X.harness(prog)
        try:
            d = build(h)
            fp0 = X.fingerprint(d)
            g1a = X.write_tree(h, d)
            fp1 = X.fingerprint(d)
            g1b = X.write_tree(h, d)
            ctx.decide(serialize(g1a) == serialize(g1b), "R15.w", f"{site0}::W(D)==W(D)", "two writes give the same tree",
                       "writing the same definition twice gives different XML: " + _first_diff(serialize(g1a), serialize(g1b)))
            ctx.decide(fp0 == fp1, "R15.w", f"{site0}::writing-leaves-D-unchanged", "definition graph identical before and after writing",
                       "writing changed the definition: " + _first_diff(fp0, fp1))
            # namespace of every element
            wrong = [e.attrs["tag"] for e in all_elements(g1a) if split_tag(e.attrs["tag"])[0] != X.URI]
            ctx.decide(not wrong, "R15.w", f"{site0}::namespace", "every element lies in the definition's XTCE namespace",
                       f"elements outside the definition's namespace {X.URI}: {wrong[:3]}")
            d1 = X.load(h, g1a, "xtce")
            g2 = X.write_tree(h, d1)
            d2 = X.load(h, g2, "xtce")
            g3 = X.write_tree(h, d2)
            ctx.decide(serialize(g2) == serialize(g3), "R15.w", f"{site0}::G2==G3", "a further cycle reproduces the document",
                       "after one write/load cycle a further cycle changes the document: " + _first_diff(serialize(g2), serialize(g3)))
            # what is written for a definition does not depend on what else was loaded and written in between (another
            # document with another prefix and another namespace URI)
            from ..xmlmodel import clone, clark, attach_nsmap
            other = clone(g1a, rename=lambda t: clark("http://other.example/ns", split_tag(t)[1]), nsdecl={"custom": "http://other.example/ns"})
            attach_nsmap(other)
            d_other = X.load(h, other, "custom")
            X.write_tree(h, d_other)
            g3b = X.write_tree(h, d2)
            ctx.decide(serialize(g3) == serialize(g3b), "R15.w", f"{site0}::W(D) unaffected by another document", "",
                       "after another document (prefix `custom`, another namespace URI) was loaded and written, writing the same definition again gives "
                       "different XML: " + _first_diff(serialize(g3), serialize(g3b)))
            g4 = X.write_tree(h, X.load(h, g3, "xtce"))
            ctx.decide(serialize(g3) == serialize(g4), "R15.w", f"{site0}::G3==G4", "", "the document keeps drifting: " + _first_diff(serialize(g3), serialize(g4)))
        except Raised as r:
            ctx.refuted("R15.w", site0, f"write/load cycle raises {r.exc.tname}: {r.exc.args}")
        except Unsupported as e:
            ctx.unknown("R15.w", site0, str(e))
    # no header date: the fallback is the only allowed time dependence, and it must not be stored
    h = X.harness(prog)
    try:
        d = h.ev(X.minimal_src(date=None), DEF)
        fp0 = X.fingerprint(d)
        g = X.write_tree(h, d)
        ctx.decide(X.fingerprint(d) == fp0, "R15.w", f"{ROOT}::no-date::writing-leaves-D-unchanged", "",
                   "writing a definition without a header date changed the definition: " + _first_diff(fp0, X.fingerprint(d)))
    except (Raised, Unsupported) as e:
        ctx.unknown("R15.w", f"{ROOT}::no-date", str(e))


def _first_diff(a: str, b: str) -> str:
    la, lb = a.splitlines() or [a], b.splitlines() or [b]
    for x, y in zip(la, lb):
        if x != y:
            i = next((k for k in range(min(len(x), len(y))) if x[k] != y[k]), min(len(x), len(y)))
            return f"`{x.strip()[max(0, i - 60):i + 60]}` vs `{y.strip()[max(0, i - 60):i + 60]}`"
    return f"{len(la)} vs {len(lb)} lines"


def check(ctx: Ctx) -> None:
    cg = CallGraph(ctx.prog)
    ctx.guard("R15.1", ROOT, effect_rule, ctx, cg, [ROOT], "R15.1", "writing")
    ctx.guard("R15.2", ROOT, nondeterminism, ctx, cg)
    ctx.guard("R15.3", ROOT, factory_only, ctx, cg)
    ctx.guard("R15.w", ROOT, writer_model, ctx)


def controls():
    files = {"xtce/definitions.py": '''
class XtcePacketDefinition:
    def to_xml_tree(self):
        self.parameters = dict(sorted(self.parameters.items()))
        return None
'''}
    return [("writer sorts the definition in place", files, "R15.1")]


def mutants(prog):
    import re
    out = []

    def sub(rel, name, pattern, repl, expect="R15", flags=0):
        src = prog.files[rel]
        new, n = re.subn(pattern, repl, src, count=1, flags=flags)
        if n:
            out.append((name, rel, new, expect))

    enc = "xtce/encodings.py"
    sub(DEF, "date stored on the definition", r'"date": self\.date or datetime\.now\(\)\.isoformat\(\),',
        '"date": self.date or self.__dict__.setdefault("date", datetime.now().isoformat()),', "R15")
    sub(DEF, "date stored (plain)", r"(        header_attrib = \{\n)", r"        self.date = self.date or datetime.now().isoformat()\n\1", "R15.1")
    sub(DEF, "always a fresh date", r'"date": self\.date or datetime\.now\(\)\.isoformat\(\),', '"date": datetime.now().isoformat(),', "R15.2")
    sub(DEF, "parameters sorted in place", r"(        elmaker = ElementMaker\(namespace=self\.xtce_schema_uri, nsmap=self\.ns\)\n)",
        r"\1        self.parameters = dict(sorted(self.parameters.items()))\n", "R15.1")
    sub(DEF, "parameter types iterated through a set", r"for ptype in self\.parameter_types\.values\(\)\)", "for ptype in set(self.parameter_types.values()))", "R15.2")
    sub(DEF, "factory bound to the default namespace", r"ElementMaker\(namespace=self\.xtce_schema_uri, nsmap=self\.ns\)", "ElementMaker(namespace=DEFAULT_XTCE_NSMAP[DEFAULT_XTCE_NS_PREFIX], nsmap=self.ns)", "R15")
    sub(enc, "slope drifts by the intercept", r"slope = self\.linear_adjuster\(1\) - intercept", "slope = self.linear_adjuster(1)", "R15.w")
    sub(enc, "element built outside the factory", r"                        elmaker\.LinearAdjustment\(\n                            intercept=str\(intercept\),\n                            slope=str\(slope\),\n                        \)\n                    \)\n\n                size_element",
        '                        ElementTree.Element("LinearAdjustment", intercept=str(intercept), slope=str(slope))\n                    )\n\n                size_element', "R15")
    sub("xtce/containers.py", "writer normalises restriction criteria in place", r"(        if len\(self\.restriction_criteria\) == 1:)", r"        self.restriction_criteria = list(self.restriction_criteria)\n\1", "R15.1")
    return out


SPEC = PropSpec(
    pid="C15",
    title="Serialization is deterministic and stable under repeated write/load cycles",
    check=check,
    floors={"R15.1": 15, "R15.2": 15, "R15.3": 1, "R15.w": 10},
    explanation=("R15.1 effect analysis over the call-graph closure of to_xml_tree: no attribute/item store, delete or "
                 "mutator call rooted at self, a parameter, a class or a global (fresh elements and attribute dicts "
                 "only) - writing cannot alter the definition. R15.2 no nondeterminism source (time, random, uuid, id, "
                 "hash, environment, set iteration) reachable from the writer except datetime.now() as the right "
                 "operand of `self.date or ...`. R15.3 the only ElementMaker is built in to_xml_tree with "
                 "namespace=self.xtce_schema_uri and no element is created by Element/SubElement/fromstring. R15.w "
                 "writer and reader interpreted on the XML model: W(D)==W(D), the definition's graph fingerprint "
                 "unchanged by writing (also when the header date is missing), every element in D's namespace (a URI "
                 "that differs from the library default), and G2==G3==G4 for the kitchen-sink and the all-defaults "
                 "definition. Byte equality of lxml's serialisation itself is not decided (tree equality including "
                 "attribute order is)."),
    rule_doc="R15.1/R15.2 per function of the writer closure; R15.3 per factory construction; R15.w per (definition, claim)",
    assumptions=["lxml serialises equal trees (same attribute order) to equal bytes", "dict iteration order = insertion order"],
    controls=controls,
    mutants=mutants,
    technique="effect analysis and source/sink scan over the writer's call-graph closure; abstract interpretation of write/load cycles",
)

"""Shared pieces of the XML properties C09/C15/C16/C17: a checker-authored definition that uses every model class
and every persistent field with a non-default value, writer/loader drivers on the XML model, an independent
structural comparison (which, unlike the library's own equality, also compares length adjustments), and
re-spellings of a document (namespace conventions, comments, whitespace)."""
from __future__ import annotations

from typing import Optional

from ..core import Unsupported
from ..harness import Harness
from ..interp import BoundMethod, ClassRef, Closure, Obj, Raised, TupleObj
from ..models import source_externals
from ..xmlmodel import (all_elements, append, attach_nsmap, clark, clone, is_comment, is_elem, make_comment, make_elem,
                        make_tree, serialize, split_tag, xml_externals)

DEF = "xtce/definitions.py"
URI = "http://checker.example/xtce"

E = "parameter_types.encodings"
C = "parameter_types.encodings.calibrators"
M = "parameter_types.encodings.comparisons"


def _int(bits, enc="unsigned", **kw):
    extra = "".join(f", {k}={v}" for k, v in kw.items())
    return f'{E}.IntegerDataEncoding({bits}, "{enc}"{extra})'


# free text with every character XML escapes (in attribute values and in element text)
MARKUP_LABEL = 'T<5C & "hot" \'x\' >'
HEADER = [("VERSION", 3), ("TYPE", 1), ("SEC_HDR_FLG", 1), ("PKT_APID", 11), ("SEQ_FLGS", 2), ("SRC_SEQ_CTR", 14), ("PKT_LEN", 16)]


def kitchen_sink_src(date="2024-01-01T00:00:00", ns_prefix="xtce") -> str:
    """Python source (interpreted by the checker's interpreter in the namespace of definitions.py) that builds a
    definition through the public constructors."""
    poly = f"{C}.PolynomialCalibrator([{C}.PolynomialCoefficient(0.001220703125, 0), {C}.PolynomialCoefficient(-2.5, 1), {C}.PolynomialCoefficient(3.0, 3)])"
    spline = (f"{C}.SplineCalibrator([{C}.SplinePoint(0.5, 10.25), {C}.SplinePoint(2.0, 20.125), {C}.SplinePoint(7.75, -3.0)], "
              f"order=1, extrapolate=True)")
    spline0 = f"{C}.SplineCalibrator([{C}.SplinePoint(1.0, 1.5), {C}.SplinePoint(4.0, 2.5)], order=0, extrapolate=False)"
    ctxs = (f"[{C}.ContextCalibrator([{M}.Comparison('3', 'MODE', operator='>=', use_calibrated_value=False), "
            f"{M}.Comparison('9', 'MODE', operator='<', use_calibrated_value=True)], {spline0}), "
            f"{C}.ContextCalibrator([{M}.Comparison('1', 'FLAG', operator='!=')], {poly}), "
            f"{C}.ContextCalibrator([{M}.BooleanExpression({M}.Ored([{M}.Condition('MODE', '==', right_value='2', right_use_calibrated_value=False)], "
            f"[{M}.Anded([{M}.Condition('MODE', '>', right_param='FLAG', left_use_calibrated_value=True, right_use_calibrated_value=False), "
            f"{M}.Condition('FLAG', 'leq', right_value='7', left_use_calibrated_value=False, right_use_calibrated_value=False)], "
            f"[{M}.Ored([{M}.Condition('MODE', '!=', right_param='MODE', left_use_calibrated_value=False, right_use_calibrated_value=True)], [])])]))], {poly})]")
    params = []
    for n, w in HEADER:
        params.append(f'parameters.Parameter("{n}", parameter_types.IntegerParameterType("{n}_T", {_int(w)}), short_description="hdr {n}")')
    types = {
        "MODE": f'parameter_types.IntegerParameterType("MODE_T", {_int(8)}, unit="counts")',
        "FLAG": f'parameter_types.IntegerParameterType("FLAG_T", {_int(4, "twosComplement")})',
        "PAD": f'parameter_types.IntegerParameterType("PAD_T", {_int(4)})',
        "TEMP": (f'parameter_types.IntegerParameterType("TEMP_T", {E}.IntegerDataEncoding(16, "signed", '
                 f'byte_order="leastSignificantByteFirst", default_calibrator={spline}, context_calibrators={ctxs}), unit="degC")'),
        "VOLT": (f'parameter_types.FloatParameterType("VOLT_T", {E}.FloatDataEncoding(32, encoding="IEEE754", '
                 f'byte_order="leastSignificantByteFirst", default_calibrator={poly}, context_calibrators=[{C}.ContextCalibrator([{M}.Comparison("0", "FLAG", operator="<")], {spline0})]), unit="V")'),
        "MIL": f'parameter_types.FloatParameterType("MIL_T", {E}.FloatDataEncoding(32, encoding="MILSTD_1750A"))',
        "HALF": f'parameter_types.FloatParameterType("HALF_T", {E}.FloatDataEncoding(16))',
        "STATE": f'parameter_types.EnumeratedParameterType("STATE_T", {_int(8, default_calibrator=poly)}, {{0: "OFF", 1: "ON", 255: {MARKUP_LABEL!r}, 9007199254740993: "BIG_ODD"}}, unit="state")',
        "ARMED": f'parameter_types.BooleanParameterType("ARMED_T", {_int(8, default_calibrator=f"{C}.PolynomialCalibrator([{C}.PolynomialCoefficient(-1.0, 0), {C}.PolynomialCoefficient(1.0, 1)])")}, unit="bool")',
        "NLEN": f'parameter_types.IntegerParameterType("NLEN_T", {_int(8, default_calibrator=poly)})',
        "NAME":
        (f'parameter_types.StringParameterType("NAME_T", {E}.StringDataEncoding(encoding="UTF-16", '
         f'byte_order="mostSignificantByteFirst", dynamic_length_reference="NLEN", use_calibrated_value=False, '
         f'length_linear_adjuster={E}.DataEncoding._get_linear_adjuster(ADJ_16_32), termination_character="0058"), unit="text")'),
        "TAG": f'parameter_types.StringParameterType("TAG_T", {E}.StringDataEncoding(encoding="US-ASCII", fixed_raw_length=24, leading_length_size=8))',
        "LBL": (f'parameter_types.StringParameterType("LBL_T", {E}.StringDataEncoding(discrete_lookup_length=['
                f'{M}.DiscreteLookup([{M}.Comparison("1", "MODE", use_calibrated_value=False)], 8), '
                f'{M}.DiscreteLookup([{M}.Comparison("2", "MODE"), {M}.Comparison("0", "FLAG", operator=">=")], 16)]))'),
        "BLOB": (f'parameter_types.BinaryParameterType("BLOB_T", {E}.BinaryDataEncoding(size_reference_parameter="NLEN", '
                 f'use_calibrated_value=False, linear_adjuster={E}.DataEncoding._get_linear_adjuster(ADJ_1_8)), unit="raw")'),
        "FIX": f'parameter_types.BinaryParameterType("FIX_T", {E}.BinaryDataEncoding(fixed_size_in_bits=24))',
        "BLK": (f'parameter_types.BinaryParameterType("BLK_T", {E}.BinaryDataEncoding(size_discrete_lookup_list=['
                f'{M}.DiscreteLookup([{M}.Comparison("5", "MODE", operator="<")], 16)]))'),
        "T_ABS": (f'parameter_types.AbsoluteTimeParameterType("T_ABS_T", {E}.IntegerDataEncoding(32, "unsigned", '
                  f'default_calibrator={C}.PolynomialCalibrator([{C}.PolynomialCoefficient(147.25, 0), {C}.PolynomialCoefficient(0.015625, 1)])), '
                  f'unit="s", epoch="TAI", offset_from="T_REL")'),
        "T_REL": f'parameter_types.RelativeTimeParameterType("T_REL_T", {E}.FloatDataEncoding(64), unit="ms", epoch="2009-10-10T12:00:00-05:00", offset_from="T_ABS")',
        "T_PLAIN": (f'parameter_types.RelativeTimeParameterType("T_PLAIN_T", {E}.IntegerDataEncoding(16, "unsigned", '
                    f'default_calibrator={C}.PolynomialCalibrator([{C}.PolynomialCoefficient(0.001, 1)])), unit="s")'),
        "W12": f'parameter_types.IntegerParameterType("W12_T", {E}.IntegerDataEncoding(12, "unsigned", byte_order="leastSignificantByteFirst"))',
        "PAD4": f'parameter_types.IntegerParameterType("PAD4_T", {_int(4)})',
    }
    for n, t in types.items():
        desc = f', short_description="short {n} <&> \\"q\\"", long_description="long text of {n}: a < b && c > d"' if n in ("MODE",) else ""
        if n == "TEMP":     # a description of several lines, with indentation, a blank line and trailing blanks: text is data
            desc = ', short_description="short TEMP", long_description="first line\\n    second line, indented\\n\\n  fourth line  "'
        params.append(f'parameters.Parameter("{n}", {t}{desc})')
    src = f"""(lambda P: (lambda COMMON: XtcePacketDefinition([
        containers.SequenceContainer("CCSDSPacket", [P[n] for n in {[n for n, _ in HEADER]!r}], abstract=True,
                                     short_description="root", long_description="the root container"),
        COMMON,
        containers.SequenceContainer("SCI", [COMMON, P["TEMP"], P["VOLT"], P["MIL"], P["HALF"], P["STATE"], P["ARMED"]],
                                     base_container_name="CCSDSPacket",
                                     restriction_criteria=[{M}.Comparison("100", "PKT_APID", operator="=="),
                                                           {M}.Comparison("1", "VERSION", operator="<", use_calibrated_value=False)]),
        containers.SequenceContainer("TXT", [COMMON, P["NLEN"], P["NAME"], P["TAG"], P["LBL"], P["BLOB"], P["FIX"], P["BLK"], P["T_ABS"], P["T_REL"], P["T_PLAIN"], P["W12"], P["PAD4"]],
                                     base_container_name="CCSDSPacket", abstract=False, short_description="text packet",
                                     restriction_criteria=[{M}.BooleanExpression({M}.Anded([
                                         {M}.Condition("PKT_APID", "==", right_value="200", right_use_calibrated_value=False),
                                         {M}.Condition("SEQ_FLGS", "geq", right_param="TYPE", left_use_calibrated_value=False, right_use_calibrated_value=True)],
                                         [{M}.Ored([{M}.Condition("VERSION", "!=", right_value="7", left_use_calibrated_value=False, right_use_calibrated_value=False)], [])]))]),
        containers.SequenceContainer("SCI_HI", [P["PAD"]], base_container_name="SCI",
                                     restriction_criteria=[{M}.BooleanExpression({M}.Anded([
                                         {M}.Condition("MODE", ">", right_value="4", right_use_calibrated_value=False),
                                         {M}.Condition("PAD", "==", right_param="ARMED", left_use_calibrated_value=True, right_use_calibrated_value=False)], []))]),
      ], ns={{"{ns_prefix}": "{URI}", "xsi": "http://www.w3.org/2001/XMLSchema-instance"}}, xtce_ns_prefix="{ns_prefix}",
      space_system_name="CHECKER", date={date!r}))(containers.SequenceContainer("COMMON", [P["MODE"], P["FLAG"], P["PAD"]], long_description="shared block")))({{p.name: p for p in [{", ".join(params)}]}})"""
    return src


def set_ns_state(h, prefix, nsmap) -> None:
    """Process-wide namespace state of the element class, set through the library's own public setters (interpreted), so
    that the checker does not depend on how the class stores it."""
    h.ev("(common.NamespaceAwareElement.set_ns_prefix(p), common.NamespaceAwareElement.set_nsmap(m))", DEF, p=prefix, m=nsmap)


def adjuster_factory(prog) -> str:
    """Expression text naming the library's LinearAdjustment reader: the method of DataEncoding (or a module function of
    encodings.py) that reads slope/intercept from an element and returns a closure.  Found by role, not by name."""
    import ast as _ast
    best = None
    for fi in prog.functions.values():
        if fi.relpath != "xtce/encodings.py" or fi.parent is not None:
            continue
        txt = _ast.dump(fi.node)
        if "'slope'" in txt and "'intercept'" in txt and any(isinstance(n, (_ast.FunctionDef, _ast.Lambda)) and n is not fi.node
                                                             for n in _ast.walk(fi.node)):
            if fi.name in ("from_xml", "to_xml"):
                continue
            best = fi
            break
    if best is None:
        raise Unsupported("no LinearAdjustment reader (slope/intercept -> closure) found in xtce/encodings.py")
    return f"{best.cls.name}.{best.name}" if best.cls is not None else best.name


def harness(prog, documents=None, **kw) -> Harness:
    ext = dict(source_externals())
    ext.update(xml_externals(documents))
    h = Harness(prog, ext, max_steps=kw.pop("max_steps", 3_000_000), **kw)
    return h


def build_kitchen_sink(h: Harness, **kw):
    """Builds the definition; the linear adjusters are produced by the library's own LinearAdjustment reader from
    model elements (slope/intercept), so that they are the same kind of object a load produces."""
    adj_16_32 = make_elem("P", children=[make_elem("LinearAdjustment", {"slope": "16", "intercept": "32"})])
    adj_1_8 = make_elem("P", children=[make_elem("LinearAdjustment", {"slope": "1", "intercept": "8"})])
    save = dict(h.it.class_state)
    set_ns_state(h, None, {})
    try:
        return h.ev(kitchen_sink_src(**kw).replace("DataEncoding._get_linear_adjuster", adjuster_factory(h.it.prog)), DEF,
                    ADJ_16_32=adj_16_32, ADJ_1_8=adj_1_8)
    finally:
        h.it.class_state.clear()
        h.it.class_state.update(save)


def write_tree(h: Harness, d) -> Obj:
    tree = h.ev("d.to_xml_tree()", DEF, d=d)
    root = tree.attrs["__root__"]
    attach_nsmap(root)
    return root


def load(h: Harness, root: Obj, prefix: Optional[str] = "xtce", docname: str = "doc", **kw):
    attach_nsmap(root)
    docs = h.it.ext.get("__documents__")
    args = "".join(f", {k}={k}" for k in kw)
    return h.ev(f"XtcePacketDefinition.from_xtce(doc, xtce_ns_prefix=pfx{args})", DEF, doc=root, pfx=prefix, **kw)


# ------------------------------------------------------------------------------------------- structural comparison
def structural_diff(a, b, path="definition", seen=None, depth=0) -> Optional[str]:
    """First difference between two model object graphs (None if structurally equal).  Callables are compared by
    probing (linear adjusters: f(0), f(1), f(5))."""
    if seen is None:
        seen = set()
    if depth > 40:
        return None
    if isinstance(a, Obj) and isinstance(b, Obj) and not is_elem(a):
        key = (id(a), id(b))
        if key in seen:
            return None
        seen.add(key)
        if a.cls != b.cls:
            return f"{path}: class {a.cls} vs {b.cls}"
        ka = {k for k in a.attrs if not k.startswith("__")}
        kb = {k for k in b.attrs if not k.startswith("__")}
        if ka != kb:
            return f"{path}: attributes {sorted(ka - kb)} only before, {sorted(kb - ka)} only after"
        for k in sorted(ka):
            if k in ("parse_func", "_struct_format"):
                continue
            d = structural_diff(a.attrs[k], b.attrs[k], f"{path}.{k}", seen, depth + 1)
            if d:
                return d
        return None
    if isinstance(a, (Closure, BoundMethod)) or isinstance(b, (Closure, BoundMethod)):
        if not (isinstance(a, (Closure, BoundMethod)) and isinstance(b, (Closure, BoundMethod))):
            return f"{path}: callable vs {type(b).__name__ if isinstance(a, (Closure, BoundMethod)) else type(a).__name__}"
        return None                      # corresponding callables are probed separately (probe_callables)
    if isinstance(a, TupleObj) and isinstance(b, TupleObj):
        if a.cls != b.cls or len(a) != len(b):
            return f"{path}: {a!r} vs {b!r}"
        for i, (x, y) in enumerate(zip(a, b)):
            d = structural_diff(x, y, f"{path}.{a.fields[i] if i < len(a.fields) else i}", seen, depth + 1)
            if d:
                return d
        return None
    if isinstance(a, dict) and isinstance(b, dict):
        registry = path in ("definition.containers", "definition.parameters", "definition.parameter_types")
        # the name registries of a definition are lookup tables: which names they hold matters, not the order in which the
        # constructor / loader happened to register them (entry lists, enumerations etc. stay ordered)
        if (sorted(map(str, a.keys())) != sorted(map(str, b.keys()))) if registry else (list(a.keys()) != list(b.keys())):
            return f"{path}: keys{'' if registry else '/order'} {list(a.keys())} vs {list(b.keys())}"
        for k in a:
            d = structural_diff(a[k], b[k], f"{path}[{k!r}]", seen, depth + 1)
            if d:
                return d
        return None
    if isinstance(a, (list, tuple)) and isinstance(b, (list, tuple)):
        if len(a) != len(b):
            return f"{path}: length {len(a)} vs {len(b)}"
        for i, (x, y) in enumerate(zip(a, b)):
            d = structural_diff(x, y, f"{path}[{i}]", seen, depth + 1)
            if d:
                return d
        return None
    if isinstance(a, ClassRef) or isinstance(b, ClassRef):
        return None if a == b else f"{path}: {a!r} vs {b!r}"
    if type(a) is not type(b) and not (isinstance(a, (int, float)) and isinstance(b, (int, float)) and not isinstance(a, bool)
                                       and not isinstance(b, bool)):
        return f"{path}: {a!r} ({type(a).__name__}) vs {b!r} ({type(b).__name__})"
    if a != b:
        return f"{path}: {a!r} vs {b!r}"
    return None


def diff_definitions(h: Harness, a, b) -> Optional[str]:
    """structural_diff with callable probing; ignores run-time options that XTCE does not carry."""
    skip = {"root_container_name", "validation_status", "xtce_version"}
    for k in sorted(set(a.attrs) | set(b.attrs)):
        if k in skip or k.startswith("__"):
            continue
        if (k in a.attrs) != (k in b.attrs):
            return f"definition.{k}: present on one side only"
        d = _diff_probe(h, a.attrs[k], b.attrs[k], f"definition.{k}")
        if d:
            return d
    return None


def _diff_probe(h: Harness, x, y, path) -> Optional[str]:
    return structural_diff(x, y, path)


def probe_callables(h: Harness, a, b, path="definition", seen=None, out=None, depth=0):
    """Walk two (structurally equal) graphs in parallel and probe corresponding callables on 0, 1, 5."""
    if seen is None:
        seen = set()
    if depth > 40 or (id(a), id(b)) in seen:
        return None
    seen.add((id(a), id(b)))
    if isinstance(a, (Closure, BoundMethod)) and isinstance(b, (Closure, BoundMethod)):
        for x in (0, 1, 5):
            ka, va = h.outcome("f(x)", DEF, f=a, x=x)
            kb, vb = h.outcome("f(x)", DEF, f=b, x=x)
            if (ka, va) != (kb, vb):
                return f"{path}: adjustment f({x}) = {va!r} before, {vb!r} after"
        return None
    if isinstance(a, Obj) and isinstance(b, Obj) and not is_elem(a):
        for k in a.attrs:
            if k.startswith("__") or k == "parse_func" or k not in b.attrs:
                continue
            d = probe_callables(h, a.attrs[k], b.attrs[k], f"{path}.{k}", seen, out, depth + 1)
            if d:
                return d
    elif isinstance(a, dict) and isinstance(b, dict):
        for k in a:
            if k in b:
                d = probe_callables(h, a[k], b[k], f"{path}[{k!r}]", seen, out, depth + 1)
                if d:
                    return d
    elif isinstance(a, (list, tuple)) and isinstance(b, (list, tuple)):
        for i, (x, y) in enumerate(zip(a, b)):
            d = probe_callables(h, x, y, f"{path}[{i}]", seen, out, depth + 1)
            if d:
                return d
    return None


def compare(h: Harness, a, b) -> Optional[str]:
    return diff_definitions(h, a, b) or probe_callables(h, a, b)


# ------------------------------------------------------------------------------------------- re-spellings
def respell(root: Obj, mode: str, prefix: str = "xtce") -> Obj:
    """mode: 'prefix' (xtce:Tag with xmlns:prefix), 'default' (xmlns=uri), 'none' (no namespace at all)."""
    ns0, _ = split_tag(root.attrs["tag"])

    def rn(tag):
        ns, local = split_tag(tag)
        if mode == "none":
            return local
        return clark(ns or URI, local)
    if mode == "prefix":
        decl = {prefix: ns0 or URI, "xsi": "http://www.w3.org/2001/XMLSchema-instance"}
    elif mode == "default":
        decl = {None: ns0 or URI, "xsi": "http://www.w3.org/2001/XMLSchema-instance"}
    else:
        decl = {}
    n = clone(root, rename=rn, nsdecl=decl)
    attach_nsmap(n)
    return n


def with_comments(root: Obj, every: int = 1) -> Obj:
    """A copy with a comment inserted as first, between and last child of every element that has element children
    (and into empty list-like elements too)."""
    n = clone(root)

    def rec(e, counter=[0]):
        kids = list(e.attrs["__children__"])
        if kids:
            new = []
            for i, k in enumerate(kids):
                counter[0] += 1
                if counter[0] % every == 0:
                    c = make_comment(f" c{counter[0]} ")
                    c.attrs["__parent__"] = e
                    new.append(c)
                new.append(k)
            c = make_comment(" tail ")
            c.attrs["__parent__"] = e
            new.append(c)
            e.attrs["__children__"][:] = new
            for k in kids:
                if is_elem(k):
                    rec(k)
    rec(n)
    attach_nsmap(n)
    return n


def with_whitespace(root: Obj, unit: str = "    ") -> Obj:
    """A copy indented the way a pretty-printer (or a person) writes it: every element that has child nodes gets whitespace
    text before its first child and every child node a whitespace tail. Elements with character data keep it; elements
    without children stay empty. The compact copy and this one are the same document."""
    n = clone(root)

    def rec(e, depth):
        kids = e.attrs["__children__"]
        if not kids:
            return
        if not (e.attrs.get("text") or "").strip():
            e.attrs["text"] = "\n" + unit * (depth + 1)
        for i, k in enumerate(kids):
            if not (k.attrs.get("tail") or "").strip():
                k.attrs["tail"] = "\n" + unit * (depth + 1 if i + 1 < len(kids) else depth)
            if is_elem(k):
                rec(k, depth + 1)
    rec(n, 0)
    attach_nsmap(n)
    return n


# ------------------------------------------------------------------------------------------- helpers for the checks
def fingerprint(v, seen=None, depth=0) -> str:
    """Canonical text of a model object graph (identity-free): used to show that an operation left it unchanged."""
    if seen is None:
        seen = {}
    if depth > 60:
        return "..."
    if isinstance(v, Obj):
        if is_elem(v):
            return f"<elem {v.attrs['tag']}>"
        if id(v) in seen:
            return f"@{seen[id(v)]}"
        seen[id(v)] = len(seen)
        inner = ",".join(f"{k}={fingerprint(x, seen, depth + 1)}" for k, x in sorted(v.attrs.items()) if not k.startswith("__"))
        return f"{v.cls}#{seen[id(v)]}({inner})"
    if isinstance(v, (Closure, BoundMethod)):
        return "<callable>"
    if isinstance(v, dict):
        return "{" + ",".join(f"{k!r}:{fingerprint(x, seen, depth + 1)}" for k, x in v.items()) + "}"
    if isinstance(v, TupleObj):
        return f"{v.cls}(" + ",".join(fingerprint(x, seen, depth + 1) for x in v) + ")"
    if isinstance(v, (list, tuple)):
        return "[" + ",".join(fingerprint(x, seen, depth + 1) for x in v) + "]"
    return repr(v)


def compare_ignoring_inheritors(h: Harness, a, b) -> Optional[str]:
    """Object-built definitions do not carry back-populated inheritor lists; everything else must agree."""
    saved = []
    for d in (a, b):
        for c in d.attrs.get("containers", {}).values():
            saved.append((c, c.attrs.get("inheritors")))
            c.attrs["inheritors"] = []
    try:
        return compare(h, a, b)
    finally:
        for c, inh in saved:
            c.attrs["inheritors"] = inh


def minimal_src(date="2024-01-01T00:00:00") -> str:
    """A definition that leaves every optional constructor argument at its default."""
    params = []
    for n, w in HEADER:
        params.append(f'parameters.Parameter("{n}", parameter_types.IntegerParameterType("{n}_T", {_int(w)}))')
    types = {
        "A": f'parameter_types.IntegerParameterType("A_T", {_int(8)})',
        "F": f'parameter_types.FloatParameterType("F_T", {E}.FloatDataEncoding(32))',
        "S": f'parameter_types.StringParameterType("S_T", {E}.StringDataEncoding(fixed_raw_length=16))',
        "B": f'parameter_types.BinaryParameterType("B_T", {E}.BinaryDataEncoding(fixed_size_in_bits=8))',
        "EN": f'parameter_types.EnumeratedParameterType("EN_T", {_int(8)}, {{1: "ONE"}})',
        "BO": f'parameter_types.BooleanParameterType("BO_T", {_int(8)})',
        "SP": f'parameter_types.IntegerParameterType("SP_T", {_int(8, default_calibrator=f"{C}.SplineCalibrator([{C}.SplinePoint(0.0, 0.0), {C}.SplinePoint(1.0, 2.0)])")})',
        "DB": (f'parameter_types.BinaryParameterType("DB_T", {E}.BinaryDataEncoding(size_reference_parameter="A"))'),
        "DS": (f'parameter_types.StringParameterType("DS_T", {E}.StringDataEncoding(dynamic_length_reference="A"))'),
    }
    for n, t in types.items():
        params.append(f'parameters.Parameter("{n}", {t})')
    return f"""(lambda P: XtcePacketDefinition([
        containers.SequenceContainer("CCSDSPacket", [P[n] for n in {[n for n, _ in HEADER]!r}]),
        containers.SequenceContainer("ONE", [P[n] for n in {list(types)!r}], base_container_name="CCSDSPacket",
                                     restriction_criteria=[{M}.Comparison("1", "PKT_APID")]),
      ], ns={{"xtce": "{URI}"}}, xtce_ns_prefix="xtce", date={date!r}))({{p.name: p for p in [{", ".join(params)}]}})"""


def nested_src(date="2024-01-01T00:00:00") -> str:
    """A definition assembled from objects whose container_set lists only the root; the other containers are reachable
    through nested references three levels deep (ROOT -> OUTER -> INNER -> LEAF) and must be registered from there."""
    params = []
    for n, w in HEADER:
        params.append(f'parameters.Parameter("{n}", parameter_types.IntegerParameterType("{n}_T", {_int(w)}))')
    for n in ("PA", "PB", "PC", "PD"):
        params.append(f'parameters.Parameter("{n}", parameter_types.IntegerParameterType("{n}_T", {_int(8)}))')
    return f"""(lambda P: XtcePacketDefinition([
        containers.SequenceContainer("CCSDSPacket", [P[n] for n in {[n for n, _ in HEADER]!r}] + [P["PA"],
            containers.SequenceContainer("OUTER", [P["PB"],
                containers.SequenceContainer("INNER", [P["PC"],
                    containers.SequenceContainer("LEAF", [P["PD"]])])])]),
      ], ns={{"xtce": "{URI}"}}, xtce_ns_prefix="xtce", date={date!r}))({{p.name: p for p in [{", ".join(params)}]}})"""


def minimal_header_src() -> str:
    """A definition that decodes just the seven CCSDS header fields (any packet is recognised)."""
    params = [f'parameters.Parameter("{n}", parameter_types.IntegerParameterType("{n}_T", {_int(w)}))' for n, w in HEADER]
    return f"""XtcePacketDefinition([containers.SequenceContainer("CCSDSPacket", [{", ".join(params)}])], ns={{"xtce": "{URI}"}}, xtce_ns_prefix="xtce")"""


XTCE_CHARSETS = ('US-ASCII', 'ISO-8859-1', 'Windows-1252', 'UTF-8', 'UTF-16', 'UTF-16LE', 'UTF-16BE', 'UTF-32', 'UTF-32LE', 'UTF-32BE')


def supported_charsets(h: Harness):
    """The character sets the library says it supports: the class-level tuple of StringDataEncoding that contains 'UTF-8'
    (found by role); the XTCE list when no such tuple is found."""
    import ast as _ast
    ci = h.it.prog.classes.get("StringDataEncoding")
    if ci is not None:
        for k, v in ci.attrs.items():
            if isinstance(v, (_ast.Tuple, _ast.List)) and any(isinstance(x, _ast.Constant) and x.value == "UTF-8" for x in v.elts):
                try:
                    vals = h.it._eval_class_attr(ci, v)
                    if all(isinstance(x, str) for x in vals):
                        return tuple(vals)
                except (Unsupported, Raised):
                    pass
    return XTCE_CHARSETS


def twins_src(charsets=XTCE_CHARSETS, date="2024-01-01T00:00:00") -> str:
    """A definition with values that are equal but distinguishable (an enumeration keyed 0.0/1.0 on a float encoding written
    before one keyed 0/1 on an integer encoding, with the same labels) and one string parameter per supported character set."""
    params = []
    for n, w in HEADER:
        params.append(f'parameters.Parameter("{n}", parameter_types.IntegerParameterType("{n}_T", {_int(w)}))')
    types = {
        "EF": f'parameter_types.EnumeratedParameterType("EF_T", {E}.FloatDataEncoding(32), {{0.0: "OFF", 1.0: "ON"}})',
        "EI": f'parameter_types.EnumeratedParameterType("EI_T", {_int(8)}, {{0: "OFF", 1: "ON"}})',
        "EB": f'parameter_types.EnumeratedParameterType("EB_T", {_int(16)}, {{1: "ON", 0: "OFF"}})',
        # string-encoded enumerations: keys are the encoded label texts, as the loader builds them
        "ES8": (f'parameter_types.EnumeratedParameterType("ES8_T", {E}.StringDataEncoding(fixed_raw_length=16, encoding="UTF-8"), '
                f'{{b"ON": "SWITCHED_ON", b"NO": "SWITCHED_OFF"}})'),
        "ES16": (f'parameter_types.EnumeratedParameterType("ES16_T", {E}.StringDataEncoding(fixed_raw_length=48, encoding="UTF-16", '
                 f'byte_order="mostSignificantByteFirst"), {{{bytes("ON", "UTF-16")!r}: "SWITCHED_ON", {bytes("NO", "UTF-16")!r}: "SWITCHED_OFF"}})'),
        "ES16BE": (f'parameter_types.EnumeratedParameterType("ES16BE_T", {E}.StringDataEncoding(fixed_raw_length=32, encoding="UTF-16BE"), '
                   f'{{{bytes("ON", "UTF-16BE")!r}: "SWITCHED_ON"}})'),
    }
    # time types whose calibration is not a scale/offset pair: the <Encoding> attributes cannot express it, the nested
    # encoding's calibrator must survive; and one that is exactly scale and offset
    types["TQ"] = (f'parameter_types.RelativeTimeParameterType("TQ_T", {E}.IntegerDataEncoding(16, "unsigned", default_calibrator='
                   f'{C}.PolynomialCalibrator([{C}.PolynomialCoefficient(0.5, 2)])), unit="s")')
    types["TC3"] = (f'parameter_types.AbsoluteTimeParameterType("TC3_T", {E}.IntegerDataEncoding(16, "unsigned", default_calibrator='
                    f'{C}.PolynomialCalibrator([{C}.PolynomialCoefficient(1.5, 0), {C}.PolynomialCoefficient(0.25, 1), {C}.PolynomialCoefficient(2.0, 3)])), unit="s", epoch="TAI")')
    types["TL"] = (f'parameter_types.AbsoluteTimeParameterType("TL_T", {E}.IntegerDataEncoding(32, "unsigned", default_calibrator='
                   f'{C}.PolynomialCalibrator([{C}.PolynomialCoefficient(100.0, 0), {C}.PolynomialCoefficient(0.5, 1)])), unit="s", epoch="2000-01-01T00:00:00")')
    for i, cs in enumerate(charsets):
        bo = ', byte_order="mostSignificantByteFirst"' if cs.upper() in ("UTF-16", "UTF-32") else ""
        types[f"S{i}"] = f'parameter_types.StringParameterType("S{i}_T", {E}.StringDataEncoding(fixed_raw_length=32, encoding={cs!r}{bo}))'
    for n, t in types.items():
        params.append(f'parameters.Parameter("{n}", {t})')
    return f"""(lambda P: XtcePacketDefinition([
        containers.SequenceContainer("CCSDSPacket", [P[n] for n in {[n for n, _ in HEADER] + list(types)!r}]),
      ], ns={{"xtce": "{URI}"}}, xtce_ns_prefix="xtce", date={date!r}))({{p.name: p for p in [{", ".join(params)}]}})"""


def compare_ignoring_ns(h: Harness, a, b) -> Optional[str]:
    """Definitions loaded from different namespace renderings legitimately differ in the recorded namespace map,
    prefix and schema URI; everything else must agree."""
    saved = []
    for d in (a, b):
        for k in ("ns", "xtce_ns_prefix", "xtce_schema_uri"):
            saved.append((d, k, d.attrs.get(k)))
            d.attrs[k] = None
    try:
        return compare(h, a, b)
    finally:
        for d, k, v in saved:
            d.attrs[k] = v


def tiny_src(date="2024-01-01T00:00:00") -> str:
    """The smallest definition with a nested lookup in every loader stage (type, parameter, container, base container)."""
    return f"""(lambda P: XtcePacketDefinition([
        containers.SequenceContainer("CCSDSPacket", [P["A"]]),
        containers.SequenceContainer("ONE", [P["B"]], base_container_name="CCSDSPacket",
                                     restriction_criteria=[{M}.Comparison("1", "A")]),
      ], ns={{"xtce": "{URI}"}}, xtce_ns_prefix="xtce", date={date!r}))({{p.name: p for p in [
        parameters.Parameter("A", parameter_types.IntegerParameterType("A_T", {_int(8)})),
        parameters.Parameter("B", parameter_types.IntegerParameterType("B_T", {_int(8, default_calibrator=f"{C}.PolynomialCalibrator([{C}.PolynomialCoefficient(1.5, 1)])")}))]}})"""


# ------------------------------------------------------------------------------------------- a hand-written document
def third_text() -> str:
    """A document as a person writes it by hand (the library's writer never produces these spellings): the `signed`
    attribute of integer types (which does not describe the encoding), zero-padded decimal literals, a comparison list with
    two comparisons on one parameter (a range, and a contradiction), time encodings with scale and offset together, context
    calibrators whose contexts have different numbers of comparisons, a spline with a step up and a step down, the optional
    AncillaryDataSet in front of a calibrator, a little-endian termination character, an abstract container that nothing
    inherits from, and indentation."""
    hdr_types = "\n".join(f'''      <xtce:IntegerParameterType name="{n}_T" signed="false">
        <xtce:UnitSet/>
        <xtce:IntegerDataEncoding sizeInBits="{w}" encoding="unsigned"/>
      </xtce:IntegerParameterType>''' for n, w in HEADER)
    hdr_params = "\n".join(f'      <xtce:Parameter name="{n}" parameterTypeRef="{n}_T"/>' for n, _ in HEADER)
    hdr_entries = "\n".join(f'          <xtce:ParameterRefEntry parameterRef="{n}"/>' for n, _ in HEADER)

    def u8(n):
        return f'''      <xtce:IntegerParameterType name="{n}_T" signed="false">
        <xtce:IntegerDataEncoding sizeInBits="8" encoding="unsigned"/>
      </xtce:IntegerParameterType>'''

    def child(name, comparisons, entries, abstract=None, base="CCSDSPacket"):
        cmp_ = "\n".join(f'              <xtce:Comparison parameterRef="{c[0]}" comparisonOperator="{c[1]}" value="{c[2]}"'
                         + (f' useCalibratedValue="{c[3]}"' if len(c) > 3 else "") + "/>" for c in comparisons)
        ent = "\n".join(f'          <xtce:ParameterRefEntry parameterRef="{e}"/>' for e in entries)
        abs_ = f' abstract="{abstract}"' if abstract else ""
        return f'''      <xtce:SequenceContainer name="{name}"{abs_}>
        <xtce:EntryList>
{ent}
        </xtce:EntryList>
        <xtce:BaseContainer containerRef="{base}">
          <xtce:RestrictionCriteria>
            <xtce:ComparisonList>
{cmp_}
            </xtce:ComparisonList>
          </xtce:RestrictionCriteria>
        </xtce:BaseContainer>
      </xtce:SequenceContainer>'''
    return f'''<?xml version="1.0" encoding="UTF-8"?>
<xtce:SpaceSystem xmlns:xtce="{URI}" name="HandWritten">
  <xtce:Header date="2024-01-01T00:00:00" version="1.0" author="checker"/>
  <xtce:TelemetryMetaData>
    <xtce:ParameterTypeSet>
{hdr_types}
{u8("ID")}
{u8("MODE")}
{u8("X8")}
{u8("Y8")}
      <xtce:AbsoluteTimeParameterType name="T_ABS_T">
        <xtce:Encoding units="s" scale="0.5" offset="100">
          <xtce:IntegerDataEncoding sizeInBits="16" encoding="unsigned"/>
        </xtce:Encoding>
        <xtce:ReferenceTime>
          <xtce:Epoch>TAI</xtce:Epoch>
        </xtce:ReferenceTime>
      </xtce:AbsoluteTimeParameterType>
      <xtce:RelativeTimeParameterType name="T_REL_T">
        <xtce:Encoding units="s" offset="-3.5">
          <xtce:IntegerDataEncoding sizeInBits="16" encoding="unsigned"/>
        </xtce:Encoding>
      </xtce:RelativeTimeParameterType>
      <xtce:IntegerParameterType name="SU_T" signed="false">
        <xtce:UnitSet>
          <xtce:Unit>counts</xtce:Unit>
        </xtce:UnitSet>
        <xtce:IntegerDataEncoding sizeInBits="16" encoding="twosComplement"/>
      </xtce:IntegerParameterType>
      <xtce:IntegerParameterType name="LE16_T" signed="false">
        <xtce:IntegerDataEncoding sizeInBits="16" encoding="unsigned" byteOrder="leastSignificantByteFirst"/>
      </xtce:IntegerParameterType>
      <xtce:IntegerParameterType name="BE16_T" signed="false">
        <xtce:IntegerDataEncoding sizeInBits="16" encoding="unsigned"/>
      </xtce:IntegerParameterType>
      <xtce:IntegerParameterType name="US_T" signed="true">
        <xtce:IntegerDataEncoding sizeInBits="8" encoding="unsigned"/>
      </xtce:IntegerParameterType>
      <xtce:IntegerParameterType name="CC_T" signed="false">
        <xtce:IntegerDataEncoding sizeInBits="8" encoding="unsigned">
          <xtce:DefaultCalibrator>
            <xtce:AncillaryDataSet>
              <xtce:AncillaryData name="source">bench calibration 2024</xtce:AncillaryData>
            </xtce:AncillaryDataSet>
            <xtce:PolynomialCalibrator>
              <xtce:Term exponent="0" coefficient="0.5"/>
              <xtce:Term exponent="1" coefficient="1"/>
            </xtce:PolynomialCalibrator>
          </xtce:DefaultCalibrator>
          <xtce:ContextCalibratorList>
            <xtce:ContextCalibrator>
              <xtce:ContextMatch>
                <xtce:Comparison parameterRef="MODE" value="1"/>
              </xtce:ContextMatch>
              <xtce:Calibrator>
                <xtce:PolynomialCalibrator>
                  <xtce:Term exponent="1" coefficient="2"/>
                </xtce:PolynomialCalibrator>
              </xtce:Calibrator>
            </xtce:ContextCalibrator>
            <xtce:ContextCalibrator>
              <xtce:ContextMatch>
                <xtce:ComparisonList>
                  <xtce:Comparison parameterRef="MODE" comparisonOperator="&lt;=" value="2"/>
                  <xtce:Comparison parameterRef="ID" comparisonOperator="&gt;=" value="5"/>
                </xtce:ComparisonList>
              </xtce:ContextMatch>
              <xtce:Calibrator>
                <xtce:AncillaryDataSet>
                  <xtce:AncillaryData name="source">flight</xtce:AncillaryData>
                </xtce:AncillaryDataSet>
                <xtce:PolynomialCalibrator>
                  <xtce:Term exponent="0" coefficient="7"/>
                  <xtce:Term exponent="1" coefficient="3"/>
                </xtce:PolynomialCalibrator>
              </xtce:Calibrator>
            </xtce:ContextCalibrator>
          </xtce:ContextCalibratorList>
        </xtce:IntegerDataEncoding>
      </xtce:IntegerParameterType>
      <xtce:IntegerParameterType name="LV_T" signed="false">
        <xtce:IntegerDataEncoding sizeInBits="8" encoding="unsigned">
          <xtce:DefaultCalibrator>
            <xtce:PolynomialCalibrator>
              <xtce:Term exponent="1" coefficient="2"/>
            </xtce:PolynomialCalibrator>
          </xtce:DefaultCalibrator>
        </xtce:IntegerDataEncoding>
      </xtce:IntegerParameterType>
      <xtce:FloatParameterType name="SP_T">
        <xtce:IntegerDataEncoding sizeInBits="8" encoding="unsigned">
          <xtce:DefaultCalibrator>
            <xtce:SplineCalibrator order="1">
              <xtce:SplinePoint raw="0" calibrated="0"/>
              <xtce:SplinePoint raw="10" calibrated="10"/>
              <xtce:SplinePoint raw="10" calibrated="20"/>
              <xtce:SplinePoint raw="20" calibrated="30"/>
              <xtce:SplinePoint raw="20" calibrated="25"/>
              <xtce:SplinePoint raw="30" calibrated="35"/>
            </xtce:SplineCalibrator>
          </xtce:DefaultCalibrator>
        </xtce:IntegerDataEncoding>
      </xtce:FloatParameterType>
      <xtce:StringParameterType name="STR_T">
        <xtce:StringDataEncoding encoding="UTF-16LE">
          <xtce:SizeInBits>
            <xtce:Fixed>
              <xtce:FixedValue>64</xtce:FixedValue>
            </xtce:Fixed>
            <xtce:TerminationChar>2100</xtce:TerminationChar>
          </xtce:SizeInBits>
        </xtce:StringDataEncoding>
      </xtce:StringParameterType>
    </xtce:ParameterTypeSet>
    <xtce:ParameterSet>
{hdr_params}
      <xtce:Parameter name="ID" parameterTypeRef="ID_T"/>
      <xtce:Parameter name="MODE" parameterTypeRef="MODE_T"/>
      <xtce:Parameter name="X8" parameterTypeRef="X8_T"/>
      <xtce:Parameter name="Y8" parameterTypeRef="Y8_T"/>
      <xtce:Parameter name="T_ABS" parameterTypeRef="T_ABS_T"/>
      <xtce:Parameter name="T_REL" parameterTypeRef="T_REL_T"/>
      <xtce:Parameter name="SU" parameterTypeRef="SU_T"/>
      <xtce:Parameter name="US" parameterTypeRef="US_T"/>
      <xtce:Parameter name="BE16" parameterTypeRef="BE16_T"/>
      <xtce:Parameter name="LE16" parameterTypeRef="LE16_T"/>
      <xtce:Parameter name="CC" parameterTypeRef="CC_T"/>
      <xtce:Parameter name="SP" parameterTypeRef="SP_T"/>
      <xtce:Parameter name="LV" parameterTypeRef="LV_T"/>
      <xtce:Parameter name="STR" parameterTypeRef="STR_T"/>
    </xtce:ParameterSet>
    <xtce:ContainerSet>
      <xtce:SequenceContainer name="CCSDSPacket" abstract="true">
        <xtce:EntryList>
{hdr_entries}
          <xtce:ParameterRefEntry parameterRef="ID"/>
          <xtce:ParameterRefEntry parameterRef="MODE"/>
        </xtce:EntryList>
      </xtce:SequenceContainer>
{child("RANGE_A", [("PKT_APID", "&gt;=", "100"), ("PKT_APID", "&lt;", "200")], ["T_ABS", "T_REL", "SU", "US", "BE16", "LE16"])}
{child("RANGE_B", [("PKT_APID", "geq", "200"), ("PKT_APID", "lt", "300")], ["CC", "SP", "STR"])}
{child("NEVER", [("ID", "==", "1"), ("PKT_APID", "&gt;=", "300"), ("ID", "==", "2")], ["X8"])}
{child("TEN", [("PKT_APID", "&gt;=", "0300"), ("ID", "==", "010")], ["Y8"])}
{child("FAMILY", [("PKT_APID", "==", "77")], ["X8"], abstract="true")}
{child("P400", [("PKT_APID", "==", "400"), ("ID", "!=", "10")], ["LV"], abstract="true")}
{child("LV_CAL", [("LV", "==", "4")], ["X8"], base="P400")}
{child("LV_RAW", [("LV", "==", "4", "false")], ["Y8"], base="P400")}
    </xtce:ContainerSet>
  </xtce:TelemetryMetaData>
</xtce:SpaceSystem>
'''

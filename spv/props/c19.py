"""C19 - CLI listings show each packet once, in order, and never hang or crash (DESIGN 5, C19).

R19.1 row partition: ``describe_packets`` is interpreted (rich/click replaced by recording stubs, framer replaced by a
      list of n model packets) for every n in 0..2M+6 where M is the largest integer constant the function compares or
      slices with (so every ordering class of n relative to its constants is covered, the last class by several
      members): rows must be exactly [0,n) for n <= 10 and [0,5) + ellipsis + [n-5,n) otherwise.
R19.2 index guard: ``parse`` for n in 0..4 and every index 0..n+1 (and no index): the indexed packet, or the
      out-of-range message; never an exception.  Plus the must-fact rule: the subscript by the user index is
      dominated by a guard entailing index < len.
R19.3 structural: the only loop over the file is list(ccsds_generator(f)) / list(...packet_generator(f)).
R19.4 termination/robustness with the real framer: empty file, files with stray trailing bytes, n real packets.
"""
from __future__ import annotations

import ast

from ..affine import Aff, AffBuilder
from ..astutil import dotted, norm, walk_local
from ..cfg import CFG
from ..core import Ctx, PropSpec, Unsupported
from ..extract import where
from ..facts import FactFlow
from ..harness import Harness
from ..interp import pub, Obj, Raised, StepLimit
from . import xmlcommon as X
from ..models import ccsds_bytes, file_source, source_externals

CLI = "cli.py"
MAX_SPEC, HEAD_SPEC = 10, 5


class Rec:
    def __init__(self):
        self.rows = []
        self.cols = []
        self.printed = []
        self.pprinted = []

    def table(self, *a, **k):
        rec = self
        return Obj(None, add_column=lambda *a, **k: rec.cols.append(a[0] if a else None),
                   add_row=lambda *a, **k: rec.rows.append(tuple(a)))

    def ext(self, packets=None, definition_packets=None, opener=None):
        rec = self
        console = Obj(None, print=lambda *a, **k: rec.printed.append(a[0] if a else None))
        e = dict(source_externals())
        e.update({
            "console": console, "Table": self.table, "rich.table.Table": self.table,
            "logging.debug": lambda *a, **k: None, "logging.info": lambda *a, **k: None,
            "pretty.pprint": lambda *a, **k: rec.pprinted.append(a[0] if a else None),
            "rich.pretty.pprint": lambda *a, **k: rec.pprinted.append(a[0] if a else None),
            "pretty": Obj(None, pprint=lambda *a, **k: rec.pprinted.append(a[0] if a else None),
                          Pretty=lambda *a, **k: a[0] if a else None),
            "open": opener or (lambda *a, **k: Obj(None, __kind__="file", read=lambda n=-1: b"", seek=lambda *a: 0)),
        })
        if packets is not None:
            e["ccsds_generator"] = lambda f, **k: list(packets)
            e["space_packet_parser.packets.ccsds_generator"] = lambda f, **k: list(packets)
        if definition_packets is not None:
            defn = Obj(None, packet_generator=lambda f, **k: list(definition_packets))
            e["XtcePacketDefinition"] = Obj(None, from_xtce=lambda *a, **k: defn)
        return e


def model_packets(n):
    return [Obj(None, header_values=(f"v{i}", i, 0, 0, 0, 0, 0), __idx__=i) for i in range(n)]


def constants_of(prog, fi):
    out = set()
    for n in walk_local(fi.node):
        if isinstance(n, (ast.Compare, ast.Slice, ast.Subscript, ast.BinOp)):
            for c in ast.walk(n):
                if isinstance(c, (ast.Name, ast.Constant, ast.Attribute)):
                    v = prog.fold_opt(c, CLI)
                    if isinstance(v, int) and not isinstance(v, bool):
                        out.add(abs(v))
    return out


def rows_rule(ctx: Ctx):
    prog = ctx.prog
    fi = prog.func(f"{CLI}::describe_packets")
    consts = constants_of(prog, fi)
    M = max(consts | {MAX_SPEC})
    if M > 60:
        ctx.unknown("R19.1", fi.key, f"largest constant {M} too large for the class enumeration")
        return
    top = 2 * M + 6
    ctx.stats["row_classes"] = top + 1
    for n in range(0, top + 1):
        site = f"{fi.key}::n={n}"
        rec = Rec()
        h = Harness(prog, rec.ext(packets=model_packets(n)))
        try:
            kind, got = h.outcome("describe_packets(fp)", CLI, fp="FILE")
        except Unsupported as e:
            ctx.unknown("R19.1", site, str(e))
            return
        if kind != "ok":
            ctx.refuted("R19.1", site, f"a file of {n} packets ends in {got} instead of a listing", where=where(fi, fi.node))
            continue
        rows = []
        for r in rec.rows:
            if all(x == "..." for x in r):
                rows.append("...")
            elif r and isinstance(r[0], str) and r[0].startswith("v"):
                rows.append(int(r[0][1:]))
            else:
                rows.append(("?", r))
        if n == 0:
            want = []
        elif n <= MAX_SPEC:
            want = list(range(n))
        else:
            want = list(range(HEAD_SPEC)) + ["..."] + list(range(n - HEAD_SPEC, n))
        ok = bool(rows == want and (n > 0 or rec.printed))
        ctx.decide(ok, "R19.1", site, f"rows {want if n < 12 else '...'}",
                   f"a file of {n} packets lists rows {rows}; expected {want}", where=where(fi, fi.node))


def index_rule(ctx: Ctx):
    prog = ctx.prog
    fi = prog.func(f"{CLI}::parse")
    for n in list(range(0, 5)) + [30]:
        for idx in ([None] + list(range(0, n + 2)) if n < 5 else [0, 19, 20, 21, 25, 29, 30, 31]):
            site = f"{fi.key}::n={n},index={idx}"
            rec = Rec()
            pk = model_packets(n)
            h = Harness(prog, rec.ext(definition_packets=pk))
            try:
                kind, got = h.outcome("parse(pf, df, packet=idx, max_items=20, max_string=40, skip_header_bytes=0)", CLI,
                                      pf="PKTS", df="XTCE", idx=idx)
            except Unsupported as e:
                ctx.unknown("R19.2", site, str(e))
                return
            if kind != "ok":
                ctx.refuted("R19.2", site, f"`spp parse --packet {idx}` on a file of {n} packets ends in {got}", where=where(fi, fi.node))
                continue
            if idx is None:
                ok = len(rec.pprinted) == 1 and isinstance(rec.pprinted[0], list) and len(rec.pprinted[0]) == n
                why = f"without --packet the whole list of {n} packets must be shown; shown: {rec.pprinted!r}"
            elif idx < n:
                ok = len(rec.pprinted) == 1 and rec.pprinted[0] is pk[idx]
                why = f"--packet {idx} of {n} must show exactly that packet; shown: {[getattr(x, 'attrs', {}).get('__idx__', x) if not isinstance(x, list) else 'the whole list' for x in rec.pprinted]}"
            else:
                ok = not rec.pprinted and len(rec.printed) == 1
                why = f"--packet {idx} of {n} must print the out-of-range message only; printed={rec.printed!r} shown={len(rec.pprinted)}"
            ctx.decide(ok, "R19.2", site, "", why, where=where(fi, fi.node))
    # must-fact: the subscript by the index is dominated by index < len
    try:
        cfg = CFG(fi.node)
        b = AffBuilder()
        ff = FactFlow(cfg, b)
        subs = [n for n in walk_local(fi.node) if isinstance(n, ast.Subscript) and isinstance(n.slice, ast.Name) and n.slice.id == "packet"]
        for s in subs:
            st = next((x for x in ast.walk(fi.node) if isinstance(x, ast.stmt) and any(y is s for y in ast.walk(x))
                       and not isinstance(x, (ast.If, ast.With, ast.For, ast.FunctionDef))), None)
            node = cfg.node_of(st) if st is not None else None
            seq = dotted(s.value)
            if node is None or seq is None:
                ctx.unknown("R19.2g", f"{fi.key}::{norm(s)}", "subscript statement not located")
                continue
            req = Aff.atom(f"len({seq})") - Aff.atom("packet") - Aff.k(1)
            if ff.proves(node.id, req):
                ctx.proved("R19.2g", f"{fi.key}::{norm(s)}", "index < len established by the guard", where=where(fi, s))
            else:
                p = ff.refute(node.id, req)
                # index == len is compatible with the facts?
                facts = ff.at(node.id)
                from ..facts import entails
                eq = Aff.atom(f"len({seq})") - Aff.atom("packet")
                if not entails(facts, eq - Aff.k(1)) and entails(facts, eq):
                    ctx.refuted("R19.2g", f"{fi.key}::{norm(s)}",
                                f"the guard before `{norm(s)}` admits index == len({seq}): IndexError for --packet n on an n-packet file",
                                where=where(fi, s))
                else:
                    ctx.unknown("R19.2g", f"{fi.key}::{norm(s)}", f"cannot establish {req!r} >= 0", where=where(fi, s))
        if not subs:
            ctx.unknown("R19.2g", fi.key, "no subscript by the packet index found")
    except Unsupported as e:
        ctx.unknown("R19.2g", fi.key, str(e))


def real_framer(ctx: Ctx):
    prog = ctx.prog
    fi = prog.func(f"{CLI}::describe_packets")
    cases = {"empty file": b""}
    one = ccsds_bytes(b"ab", apid=1)
    for k in range(1, 6):
        cases[f"{k} stray bytes"] = b"\x07" * k
        cases[f"3 packets + {k} stray bytes"] = one * 3 + b"\x00" * k
    cases["3 packets"] = one * 3
    cases["12 packets"] = one * 12
    cases["header only"] = one[:6]
    cases["cut in body"] = one * 2 + one[:7]
    big = ccsds_bytes(bytes(65536), apid=2)                 # the largest packet CCSDS allows (length field 0xFFFF)
    cases["a maximum-size packet between two small ones"] = one + big + one
    counts = {"a maximum-size packet between two small ones": 3}
    # every packet of the file is a packet: the idle APID 2047 (with and without secondary header), APID 0, telecommand type,
    # and neighbours that repeat a sequence count
    mixed = [ccsds_bytes(b"a", apid=1, count=5, flags=1), ccsds_bytes(b"b", apid=1, count=5, flags=0), ccsds_bytes(b"cc", apid=2047, count=0),
             ccsds_bytes(b"d", apid=2047, shf=1, count=0), ccsds_bytes(b"e", apid=0, type=1, count=7, flags=2), ccsds_bytes(b"f", apid=0, type=1, count=7),
             ccsds_bytes(b"gg", apid=2047, count=16383, flags=1)]       # also segments (flags 01 / 00 / 10): listed and shown like any packet
    cases["idle, telecommand and repeated-count packets"] = b"".join(mixed)
    counts["idle, telecommand and repeated-count packets"] = len(mixed)
    cases["only idle packets"] = mixed[2] + mixed[6]
    counts["only idle packets"] = 2
    runs = [(name, data, False) for name, data in cases.items()]
    # the same listing with verbose logging switched on (`spp -v ...` / --log-level DEBUG): what is logged is not what is listed
    runs += [(name, cases[name], True) for name in ("empty file", "header only", "2 stray bytes", "3 packets", "12 packets", "only idle packets")]
    for name, data, dbg in runs:
        site = f"{fi.key}::real-framer::{name}" + ("::DEBUG logging" if dbg else "")
        rec = Rec()
        ext = rec.ext(opener=lambda *a, data=data, **k: file_source(data))
        h = Harness(prog, ext, max_steps=60000 + 500 * min(len(data), 2000) + len(data) // 4)
        h.it.ext["debug_logging"] = dbg
        npk = counts.get(name, data.count(one) if name != "header only" else 0)
        try:
            kind, got = h.outcome("describe_packets(fp)", CLI, fp="FILE")
        except StepLimit:
            ctx.refuted("R19.4", site, f"describe-packets does not terminate on a file with {name}", where=where(fi, fi.node))
            continue
        except Unsupported as e:
            ctx.unknown("R19.4", site, str(e))
            continue
        nrows = sum(1 for r in rec.rows if not all(x == "..." for x in r))
        want_rows = npk if npk <= MAX_SPEC else 2 * HEAD_SPEC
        if kind == "ok" and nrows == want_rows and name == "a maximum-size packet between two small ones":
            # the listed length field of the largest packet is 65535 (all 16 bits of the field)
            if not any(str(x) == "65535" for x in rec.rows[1]):
                ctx.refuted("R19.4", site + "::length column", f"the row of a packet with a 65536-byte data field shows {tuple(str(x) for x in rec.rows[1])}; "
                            f"its length field is 65535", where=where(fi, fi.node))
        ctx.decide(kind == "ok" and nrows == want_rows, "R19.4", site, f"{nrows} rows",
                   f"describe-packets{' with DEBUG logging' if dbg else ''} on a file with {name}: {'ends in ' + str(got) if kind != 'ok' else str(nrows) + ' rows'}; "
                   f"expected a listing of {npk} packets without a traceback", where=where(fi, fi.node))
    # parse command on the same kinds of files (definition stubbed out to header-only parsing through the real generator)
    fp = prog.func(f"{CLI}::parse")
    rec4 = b"".join(b"\xe1\xe2\xe3\xe4" + p for p in mixed[:3])
    for name, data, pks, skip in (("empty file", b"", [], 0), ("2 stray bytes", b"\x01\x02", [], 0), ("3 packets", one * 3, [one] * 3, 0),
                                  ("2 packets and a cut third", one * 2 + one[:7], [one] * 2, 0),
                                  ("idle, telecommand and repeated-count packets", b"".join(mixed), mixed, 0),
                                  ("records with a 4-byte prefix (--skip-header-bytes 4)", rec4, mixed[:3], 4),
                                  ("records with a 4-byte prefix, the last one cut 2 bytes short", rec4[:-2], mixed[:2], 4),
                                  ("records with a 4-byte prefix, the last one cut inside its prefix", rec4 + b"\xe1\xe2", mixed[:3], 4)):
        site = f"{fp.key}::real-framer::{name}"
        rec = Rec()
        ext = rec.ext(opener=lambda *a, data=data, **k: file_source(data))

        def from_xtce(*a, **k):
            # a header-only definition assembled by the library's own constructors: `spp parse` then runs the library's real
            # packet_generator (and the real framer) on the file, only the XML loading is stubbed
            hh = Harness(prog, source_externals(), max_steps=200000)
            try:
                return hh.ev(X.minimal_header_src(), X.DEF)
            except (Unsupported, Raised):
                def pg(f, **kw):
                    return hh.ev("list(ccsds_generator(f))", "packets.py", f=f)
                return Obj(None, packet_generator=pg)
        ext["XtcePacketDefinition"] = Obj(None, from_xtce=from_xtce)
        h = Harness(prog, ext, max_steps=60000)
        for idx in (None, 0, 1, 2, 3, 4, 5, 6, 7):
            n_pp, n_pr = len(rec.pprinted), len(rec.printed)
            try:
                kind, got = h.outcome("parse(pf, df, packet=idx, max_items=20, max_string=40, skip_header_bytes=skip)", CLI,
                                      pf="P", df="X", idx=idx, skip=skip)
            except StepLimit:
                kind, got = "diverges", None
            except (Unsupported, Raised) as e:
                ctx.unknown("R19.4", site, str(e))
                break
            why = f"spp parse --packet {idx} on a file with {name}: {'does not terminate' if kind == 'diverges' else 'ends in ' + str(got)}"
            ok = kind == "ok"
            if ok:
                # what is shown: all packets, packet number idx, or (only for idx >= number of packets) an out-of-range message
                def raw_of(p):
                    r = pub(p, "raw_data") if not isinstance(p, (bytes, bytearray)) else p
                    return bytes(r) if isinstance(r, (bytes, bytearray)) else None
                shown = rec.pprinted[n_pp:]
                msgs = [m for m in rec.printed[n_pr:] if isinstance(m, str)]
                if idx is None:
                    ok = len(shown) == 1 and isinstance(shown[0], list) and [raw_of(x) for x in shown[0]] == pks
                    why = f"spp parse on a file with {name} shows {len(shown[0]) if shown and isinstance(shown[0], list) else shown!r} packets; the file holds {len(pks)}"
                elif idx < len(pks):
                    ok = len(shown) == 1 and raw_of(shown[0]) == pks[idx] and not msgs
                    why = (f"spp parse --packet {idx} on a file with {name} ({len(pks)} packets): "
                           f"{'prints ' + repr(msgs[0]) if msgs else 'shows ' + (raw_of(shown[0]) or b'').hex() if shown else 'shows nothing'}; expected packet {idx} = {pks[idx].hex()}")
                else:
                    ok = not shown and len(msgs) == 1 and str(len(pks)) in msgs[0]
                    why = (f"spp parse --packet {idx} on a file with {name} ({len(pks)} packets): expected one out-of-range message naming {len(pks)} packets, "
                           f"got messages {msgs!r} and {len(shown)} shown object(s)")
            ctx.decide(ok, "R19.4", f"{site}::index={idx}", "", why, where=where(fp, fp.node))


def loops_rule(ctx: Ctx):
    prog = ctx.prog
    for key in (f"{CLI}::describe_packets", f"{CLI}::parse"):
        fi = prog.func(key)
        whiles = [n for n in walk_local(fi.node) if isinstance(n, ast.While)]
        ctx.decide(not whiles, "R19.3", key, "no loop of its own over the file",
                   "the command has a while-loop of its own: termination no longer follows from the framer's",
                   where=where(fi, whiles[0]) if whiles else "")


def check(ctx: Ctx) -> None:
    ctx.guard("R19.1", f"{CLI}::describe_packets", rows_rule, ctx)
    ctx.guard("R19.2", f"{CLI}::parse", index_rule, ctx)
    ctx.guard("R19.3", CLI, loops_rule, ctx)
    ctx.guard("R19.4", CLI, real_framer, ctx)
    if ctx.stats.get("tier") == "thorough":
        # "on any file": a 45 MB file (the framer trims its buffer twice) is framed into exactly its packets
        from . import framer as F
        ctx.guard("R19.big", F.GEN, F.big_stream_case, ctx, "R19.big")


def mutants(prog):
    import re
    out = []

    def sub(rel, name, pattern, repl, expect="R19", flags=0):
        src = prog.files[rel]
        new, n = re.subn(pattern, repl, src, count=1, flags=flags)
        if n:
            out.append((name, rel, new, expect))

    sub(CLI, "head/tail from the same short list", r"        head_packets = packets\n        tail_packets = \[\]", "        head_packets = packets[:HEAD_ROWS]\n        tail_packets = packets[-HEAD_ROWS:]", "R19.1")
    sub(CLI, "ellipsis at exactly ten", r"(    # Add ellipsis if there are more packets\n    if npackets )> MAX_ROWS:", r"\1>= MAX_ROWS:", "R19.1")
    sub(CLI, "tail one short", r"tail_packets = packets\[-HEAD_ROWS:\]", "tail_packets = packets[-HEAD_ROWS + 1:]", "R19.1")
    sub(CLI, "MAX_ROWS = 12", r"MAX_ROWS = 10", "MAX_ROWS = 12", "R19.1")
    sub(CLI, "index guard >", r"if packet >= len\(packets\):", "if packet > len(packets):", "R19.2")
    sub(CLI, "index guard truthiness", r"if packet is not None:", "if packet:", "R19.2")
    sub("packets.py", "framer body exhaustion check removed", r"        if len\(read_buffer\) - current_pos < n_bytes_packet:\n.*\n\s+break\n", "", "R19.4")
    return out


SPEC = PropSpec(
    pid="C19",
    title="CLI listings show each packet once, in order, and never hang or crash",
    check=check,
    floors={"R19.1": 26, "R19.2": 20, "R19.2g": 1, "R19.3": 2, "R19.4": 10},
    explanation=("describe_packets touches the packet count n only through len(), comparisons with folded constants and "
                 "slices with constant bounds, so its behaviour is determined by the ordering class of n relative to "
                 "those constants. The function is interpreted (click/rich replaced by recording stubs) for every n "
                 "from 0 to 2M+6 (M = largest constant found in its comparisons/slices, at least 10): all classes "
                 "below, at and between the breakpoints individually and the unbounded class by several members; rows "
                 "must be [0,n) for n<=10 and head 5 + ellipsis + tail 5 otherwise. parse: every (n, index) with "
                 "n<=4, index 0..n+1 and no index; plus a must-fact rule that the subscript by the user index is "
                 "dominated by a guard entailing index < len. R19.4 runs both commands over the real framer source on "
                 "empty files, files with stray trailing bytes and truncated packets: a listing, never a traceback or "
                 "a hang (bounded interpreter steps). Does not decide rich's rendering."
                 ' The real framer is also run on a file with a maximum-size packet (thorough: a 45 MB file).'
                 " spp parse runs the library's real packet_generator over a header-only definition (only XML loading is stubbed), on empty, stray, complete and cut files and indices up to beyond the end."
                 ' R19.4 also checks what `spp parse --packet i` shows (packet i of the file, or exactly one out-of-range message naming the number of packets) on files with idle (APID 2047), telecommand and repeated-count packets.'
                 ' Runs with DEBUG logging; files of prefixed records under --skip-header-bytes; segments are listed like any packet; the length column of a maximum-size packet.'),
    rule_doc="R19.1 one obligation per n; R19.2 per (n, index); R19.2g guard dominance; R19.3 per command; R19.4 per file kind",
    assumptions=["click passes the declared option types", "framer behaviour on sized sources as decided by C10"],
    mutants=mutants,
    technique="abstract interpretation over ordering classes of n; must-facts dominance for the index guard",
)

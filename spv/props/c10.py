"""C10 - framing terminates on every finite source and yields only complete packets (DESIGN 5, C10)."""
from __future__ import annotations

import ast

from ..astutil import dotted, walk_local
from ..core import Ctx, PropSpec
from ..extract import where
from . import framer as F


def consumers(ctx: Ctx):
    """R10.5: consumers iterate the framer with for/list and add no loop of their own over the source."""
    prog = ctx.prog
    for key, callee in (("xtce/definitions.py::XtcePacketDefinition.packet_generator", "ccsds_generator"),
                        ("cli.py::describe_packets", "ccsds_generator"), ("cli.py::parse", "packet_generator"),
                        ("xarr.py::create_dataset", "packet_generator")):
        fi = prog.func_opt(key)
        if fi is None:
            ctx.unknown("R10.5", key, "consumer not found")
            continue
        calls = [n for n in walk_local(fi.node) if isinstance(n, ast.Call) and
                 ((isinstance(n.func, ast.Attribute) and n.func.attr == callee) or
                  (isinstance(n.func, ast.Name) and n.func.id == callee))]
        whiles = [n for n in walk_local(fi.node) if isinstance(n, ast.While)]
        ctx.decide(bool(calls) and not whiles, "R10.5", key, "iterates the generator once, no loop of its own",
                   f"{len(calls)} calls of {callee}, {len(whiles)} while-loops in the consumer: termination no longer follows "
                   f"from the framer's", where=where(fi, whiles[0]) if whiles else "")


def definition_level(ctx: Ctx, RULE: str = "R10.c"):
    """R10.c: the definition's packet generator (the consumer every user goes through) on a 3-packet stream cut at every byte,
    for bytes / file / closed socket: it ends without an exception and hands out exactly the complete packets (header-only
    mode, so no document is involved)."""
    from ..harness import Harness
    from ..interp import Raised, StepLimit
    from ..core import Unsupported
    from ..models import ccsds_bytes, file_source, socket_source, source_externals, model_definition
    prog = ctx.prog
    fi = prog.func_opt("xtce/definitions.py::XtcePacketDefinition.packet_generator")
    if fi is None:
        ctx.unknown(RULE, "xtce/definitions.py", "packet_generator not found")
        return
    # header-only mode hands out every framed packet, whatever its sequence flags say and whether or not combining is enabled
    pk = [ccsds_bytes(bytes(range(1, 1 + n)), apid=5 + n, count=n, flags=fl) for n, fl in ((3, 1), (1, 0), (6, 2))]
    for skip, comb in ((0, False), (3, False), (0, True)):          # records with a per-packet prefix (skip_header_bytes): the option reaches the framer in every mode
        stream = b"".join(bytes([0xE0 + i] * skip) + p for i, p in enumerate(pk))
        bounds = [0]
        for p in pk:
            bounds.append(bounds[-1] + skip + len(p))
        for kind in ("bytes", "file(read=4)", "socket closed by its peer"):
            site = f"{fi.key}::cut at every byte::{kind}" + (f"::skip_header_bytes={skip}" if skip else "") + ("::combine_segmented_packets" if comb else "")
            bad = None
            try:
                for cut in range(0, len(stream) + 1):
                    h = Harness(prog, source_externals(), max_steps=300000)
                    data = stream[:cut]
                    src = data if kind == "bytes" else (file_source(data) if kind.startswith("file") else socket_source([data[:5], data[5:]]))
                    kw = ", buffer_read_size_bytes=4" if kind.startswith("file") else ""
                    if skip:
                        kw += f", skip_header_bytes={skip}"
                    if comb:
                        kw += ", combine_segmented_packets=True"
                    d = model_definition(h.it, "CCSDSPacket")
                    try:
                        k, got = h.outcome(f"d.packet_generator(src, ccsds_headers_only=True{kw})", "xtce/definitions.py", d=d, src=src)
                    except StepLimit:
                        bad = f"stream cut at byte {cut}: the definition's generator does not terminate"
                        break
                    want = [p for p, end in zip(pk, bounds[1:]) if end <= cut]
                    if k != "ok" or [bytes(x) for x in got] != want:
                        bad = (f"stream cut at byte {cut}{f' (records with a {skip}-byte prefix, skip_header_bytes={skip})' if skip else ''}: the definition's "
                               f"generator {'ends in ' + str(got) if k != 'ok' else 'yields ' + str(len(got)) + ' packets'}; "
                               f"expected the {len(want)} complete packets and a normal end")
                        break
            except Unsupported as e:
                ctx.unknown(RULE, site, str(e))
                continue
            ctx.decide(bad is None, RULE, site, f"{len(stream) + 1} cuts", bad or "", where=where(fi, fi.node))


def combining_terminates(ctx: Ctx, RULE: str = "R10.c"):
    """The definition's generator with segment combining enabled, on a stream of segments cut at every byte: it ends normally
    (groups left open at the end of the source are dropped, nothing escapes)."""
    from ..harness import Harness
    from ..interp import StepLimit
    from ..core import Unsupported
    from ..models import ccsds_bytes, file_source, source_externals, model_definition
    prog = ctx.prog
    fi = prog.func_opt("xtce/definitions.py::XtcePacketDefinition.packet_generator")
    if fi is None:
        return
    pk = [ccsds_bytes(bytes(range(1, 1 + n)), apid=ap, count=c, flags=fl) for n, ap, c, fl in ((3, 8, 1, 1), (2, 9, 7, 1), (4, 8, 2, 0), (2, 8, 3, 2), (1, 9, 8, 0))]
    stream = b"".join(pk)
    for kind in ("bytes", "file(read=4)"):
        site = f"{fi.key}::combining, cut at every byte::{kind}"
        bad = None
        try:
            for cut in range(0, len(stream) + 1):
                h = Harness(prog, source_externals(), max_steps=400000)
                h.it.ext["XtcePacketDefinition.parse_ccsds_packet"] = lambda selfv, packet, root_container_name=None: packet
                data = stream[:cut]
                src = data if kind == "bytes" else file_source(data)
                kw = ", buffer_read_size_bytes=4" if kind != "bytes" else ""
                try:
                    k, got = h.outcome(f"d.packet_generator(src, combine_segmented_packets=True{kw})", "xtce/definitions.py", d=model_definition(h.it, "CCSDSPacket"), src=src)
                except StepLimit:
                    bad = f"stream cut at byte {cut}: the generator does not terminate"
                    break
                if k != "ok":
                    bad = f"stream of segments cut at byte {cut} (a group is left open at the end of the source): the generator ends in {got} instead of ending normally"
                    break
        except Unsupported as e:
            ctx.unknown(RULE, site, str(e))
            continue
        ctx.decide(bad is None, RULE, site, f"{len(stream) + 1} cuts", bad or "", where=where(fi, fi.node))


def check(ctx: Ctx) -> None:
    thorough = ctx.stats.get("tier") == "thorough"
    ctx.guard("R10.c", "xtce/definitions.py", combining_terminates, ctx)
    ctx.guard("R10.c", "xtce/definitions.py", definition_level, ctx)
    r = ctx.guard("R10.roles", F.GEN, F.Roles, ctx.prog)
    if r is not None:
        ctx.guard("R10.1", F.GEN, F.slice_safety, ctx, r, "R10.1")
        ctx.guard("R10.2", F.GEN, F.reader_bound, ctx, r, "R10.2")
        ctx.guard("R10.3", F.GEN, F.cursor_updates, ctx, r, "R10.3")
        ctx.guard("R10.3", F.GEN, F.length_arithmetic, ctx, r, "R10.3")
        ctx.guard("R10.4", F.GEN, F.refill_consistency, ctx, r, "R10.4")
        ctx.guard("R10.6", F.GEN, F.trim_pair, ctx, r, "R10.6")
    ctx.guard("R10.t", F.GEN, F.framing_cases, ctx, "R10.t", truncation=True, level=1 if thorough else 0)
    ctx.guard("R10.g", F.GEN, F.garbage_cases, ctx, "R10.g")
    if thorough:
        ctx.guard("R10.big", F.GEN, F.big_stream_case, ctx, "R10.big")
    ctx.guard("R10.5", "consumers", consumers, ctx)


def mutants(prog):
    import re
    src = prog.files[F.PK]
    out = []

    def sub(name, pattern, repl, expect="R10", flags=0):
        new, n = re.subn(pattern, repl, src, count=1, flags=flags)
        if n:
            out.append((name, F.PK, new, expect))

    sub("header exhaustion check removed", r"        if len\(read_buffer\) - current_pos < skip_header_bytes \+ RawPacketData\.HEADER_LENGTH_BYTES:\n.*\n\s+break\n", "")
    sub("body exhaustion check removed", r"        if len\(read_buffer\) - current_pos < n_bytes_packet:\n.*\n\s+break\n", "")
    sub("body check compares data length", r"if len\(read_buffer\) - current_pos < n_bytes_packet:", "if len(read_buffer) - current_pos < n_bytes_data:")
    sub("bytes reader is None", r"        def read_bytes_from_source\(_\):\n.*\n\s+return b\"\"\n", "        read_bytes_from_source = None\n")
    sub("socket keeps polling on empty read", r"(            result = read_bytes_from_source\(buffer_read_size_bytes\)\n            if not result:  # If there is verifiably no more data to add, break\n                )break(\n            read_buffer \+= result\n        if len\(read_buffer\) - current_pos < n_bytes_packet)",
        r"\1continue\2")
    sub("header check off by one", r"if len\(read_buffer\) - current_pos < skip_header_bytes \+ RawPacketData\.HEADER_LENGTH_BYTES:", "if len(read_buffer) - current_pos < skip_header_bytes + RawPacketData.HEADER_LENGTH_BYTES - 1:")
    sub("body check off by one", r"if len\(read_buffer\) - current_pos < n_bytes_packet:", "if len(read_buffer) - current_pos < n_bytes_packet - 1:")
    return out


SPEC = PropSpec(
    pid="C10",
    title="Framing terminates on every finite source and yields only complete packets",
    check=check,
    floors={"R10.1": 2, "R10.2": 1, "R10.3": 4, "R10.4": 2, "R10.6": 1, "R10.t": 20, "R10.g": 8, "R10.5": 4, "R10.c": 3},
    fallback={r: ("R10.t", "R10.g") for r in ("R10.roles", "R10.1", "R10.2", "R10.3", "R10.4", "R10.6")},
    explanation=("R10.1 must-facts over the CFG of ccsds_generator: on every path - including the paths on which the "
                 "reader returned nothing - `len(B)-P >= 6` holds at the header slice and `len(B)-P >= N` at the packet "
                 "slice; a violation is reported with the witness path refill-break -> slice -> yield. R10.2 every "
                 "source branch binds a callable reader. R10.3 progress: N = length field + 7 >= 7 and the cursor "
                 "advances by N, so a finite source is consumed in finitely many iterations. R10.4 the generator "
                 "stops only when a refill gave up. Decision tables by abstract interpretation on model sources: a "
                 "3-packet stream (with and without a 3-byte prefix) cut at *every* byte offset x {bytes, file with "
                 "several read sizes, socket closed by its peer with several fragmentations}, and arbitrary byte "
                 "strings: termination (bounded interpreter steps), only complete packets, consecutive slices, short "
                 "remainder. R10.5 consumers add no loop of their own."
                 " R10.c: the definition's packet generator in header-only mode on a 3-packet stream cut at every byte (bytes, file, closed socket) ends normally with exactly the complete packets. Sources include files that live on disk (descriptor, mmap), handles that were read before, and show_progress=True."
                 ' The truncation table includes streams with packets of the maximum size (cuts around every packet boundary) and file objects whose read(n) returns fewer bytes than asked for before the end of the file.'
                 ' R10.c crosses header-only mode with skip_header_bytes, with combining and with every sequence-flag value; the framing tables include handles positioned after the first packet(s), handles whose descriptor holds fewer bytes than the stream (os.fstat modelled) and an ASCII-only standard output under show_progress.'),
    rule_doc="R10.t one obligation per (prefix, cut offset) over all sources; R10.g per byte string; others per instance",
    assumptions=["a reader returns a falsy value once the source is exhausted (files, bytes, socket closed by its peer)"],
    mutants=mutants,
    technique="affine must-facts with witness paths over the CFG; ranking argument; decision tables on truncated model sources",
)

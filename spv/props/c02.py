"""C02 - stream framing is exact and independent of source kind and chunking (DESIGN 5, C02)."""
from __future__ import annotations

from ..core import Ctx, PropSpec
from . import framer as F


def check(ctx: Ctx) -> None:
    thorough = ctx.stats.get("tier") == "thorough"
    r = ctx.guard("R2.roles", F.GEN, F.Roles, ctx.prog)
    if r is not None:
        ctx.proved("R2.roles", f"{F.GEN}::roles", f"buffer={r.B} cursor={r.P} header={r.H}")
        ctx.guard("R2.1", F.GEN, F.length_arithmetic, ctx, r, "R2.1")
        ctx.guard("R2.2", F.GEN, F.cursor_updates, ctx, r, "R2.2")
        ctx.guard("R2.3", F.GEN, F.trim_pair, ctx, r, "R2.3")
        ctx.guard("R2.4", F.GEN, F.slice_safety, ctx, r, "R2.4")
        ctx.guard("R2.4", F.GEN, F.refill_consistency, ctx, r, "R2.4c")
        ctx.guard("R2.5", F.GEN, F.accounting, ctx, r, "R2.5")
        ctx.guard("R2.6", F.GEN, F.loop_independence, ctx, r, "R2.6")
    ctx.guard("R2.m", F.GEN, F.framing_cases, ctx, "R2.m", truncation=False, level=1 if thorough else 0)
    ctx.guard("R2.big", F.GEN, F.big_stream_case, ctx, "R2.big")


def mutants(prog):
    import re
    src = prog.files[F.PK]
    out = []

    def sub(name, pattern, repl, expect="R2", flags=0):
        new, n = re.subn(pattern, repl, src, count=1, flags=flags)
        if n:
            out.append((name, F.PK, new, expect))

    sub("length +1 dropped", r"_extract_bits\(header_bytes, 32, 16\) \+ 1", "_extract_bits(header_bytes, 32, 16)")
    sub("header length not added", r"n_bytes_packet = RawPacketData\.HEADER_LENGTH_BYTES \+ n_bytes_data", "n_bytes_packet = n_bytes_data")
    sub("cursor advance by data only", r"current_pos \+= n_bytes_packet", "current_pos += n_bytes_data")
    sub("skip applied twice", r"(current_pos \+= skip_header_bytes\n)", r"\1        current_pos += skip_header_bytes\n")
    sub("trim without cursor reset", r"(read_buffer = read_buffer\[current_pos:\]\n)\s+current_pos = 0\n", r"\1")
    sub("trim at bytes parsed", r"read_buffer = read_buffer\[current_pos:\]", "read_buffer = read_buffer[n_bytes_parsed:]")
    sub("refill needs one byte more", r"while len\(read_buffer\) - current_pos < n_bytes_packet:", "while len(read_buffer) - current_pos <= n_bytes_packet:")
    sub("header refill ignores prefix", r"while len\(read_buffer\) - current_pos < skip_header_bytes \+ RawPacketData\.HEADER_LENGTH_BYTES:",
        "while len(read_buffer) - current_pos < RawPacketData.HEADER_LENGTH_BYTES:")
    sub("short read ends the refill", r"(result = read_bytes_from_source\(buffer_read_size_bytes\)\n\s+if )not result:(  # If there is verifiably no more data to add, break\n\s+break\n\s+read_buffer \+= result\n\s+if len\(read_buffer\) - current_pos < n_bytes_packet)",
        r"\1len(result) < (buffer_read_size_bytes or 0) or not result:\2")
    sub("loop looks at the source kind", r"(        while True:\n)", r"\1            if isinstance(binary_data, bytes) and current_pos >= 1 << 40:\n                break\n")
    sub("prefix counted twice", r"(        current_pos \+= skip_header_bytes\n)", r"\1        n_bytes_parsed += skip_header_bytes\n", "R2")
    sub("yield the header-less slice", r"packet_bytes = read_buffer\[current_pos:current_pos \+ n_bytes_packet\]", "packet_bytes = read_buffer[current_pos + 0:current_pos + n_bytes_packet - 1]")
    return out


SPEC = PropSpec(
    pid="C02",
    title="Stream framing is exact and independent of source kind and chunking",
    check=check,
    floors={"R2.1": 3, "R2.2": 2, "R2.3": 1, "R2.4": 2, "R2.4c": 2, "R2.5": 1, "R2.6": 1, "R2.m": 10, "R2.big": 1},
    fallback={r: ("R2.m", "R2.big") for r in ("R2.roles", "R2.1", "R2.2", "R2.3", "R2.4", "R2.4c", "R2.5", "R2.6")},
    explanation=("Invariants of ccsds_generator as affine facts over its CFG (roles buffer/cursor/length discovered from "
                 "the yield): R2.1 packet length = length field(32,16) + 1 + 6 read from B[P:P+6]; R2.2 exactly one "
                 "cursor skip before and one advance by N after the slice; R2.3 the >20 MB trim is B=B[P:];P=0; R2.4 "
                 "must-facts: on every path enough bytes are buffered at both slices (forward dataflow with exact "
                 "substitution; refutation = witness path), and the exhaustion checks imply the refill conditions "
                 "(no premature stop); R2.6 the packet loop never looks at the source kind. These hold for every "
                 "chunking because the refill loops only ever append reader results. Decision tables by abstract "
                 "interpretation of the generator on model sources (bytes, file with read sizes, socket with "
                 "fragmentations incl. every single cut and 1-byte fragments; prefix 0/3; data sizes 1..65536) against "
                 "the reference framing; plus a 45 MB stream crossing the trim threshold twice."),
    rule_doc="R2.1-R2.6 one obligation per instance; R2.m one per (stream, prefix) over all sources; R2.big the 45 MB stream",
    assumptions=["file.read / socket.recv return b'' only at end of data (model sources)", "_extract_bits returns the window (C03)"],
    mutants=mutants,
    technique="affine must-facts over the CFG (dataflow + witness paths), role discovery, decision tables on model sources",
)

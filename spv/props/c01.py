"""C01 - end-to-end decoding conforms to the XTCE document for every stream (DESIGN 5, C01).

Skeleton rules (hold for every document and stream because they are about the shape of the dispatch):
R1.1 registries: the tag->class table of parameter types, the encoding list and the calibrator list are complete
     (every concrete class) and name-consistent (tag = class name, which is what the writer emits).
R1.2 dispatch totality: every concrete parameter type / encoding reaches a parse_value that is not the stub of the
     abstract base.
R1.3 store discipline: Parameter.parse stores the type's parse_value under the parameter's own name.
R1.e end-to-end decision table: the checker's all-features document is written, loaded through the XML model and a
     stream of packets reaching every container (plus an undefined packet) is decoded; every item - name, order, value,
     raw value, Python class - is compared with the checker's independent reference computation (bit strings, struct,
     its own polynomial/spline/enumeration/boolean formulas); undefined packets are skipped or reported in position.
"""
from __future__ import annotations

import ast
import struct

from ..astutil import dotted, norm, walk_local
from ..core import Ctx, PropSpec, Unsupported
from ..extract import where
from ..interp import pub, ExcVal, Raised, StepLimit
from ..models import ccsds_bytes
from . import xmlcommon as X
from .c16 import clone_tree

DEF = X.DEF
GEN = f"{DEF}::XtcePacketDefinition.packet_generator"


# ------------------------------------------------------------------------------------------------- skeleton rules
def registries(ctx: Ctx):
    prog = ctx.prog
    m = prog.module(DEF)
    reg = m.consts.get("TAG_NAME_TO_PARAMETER_TYPE_OBJECT")
    concrete_types = [c for c in prog.subclasses("ParameterType") if not prog.is_abstract(c)]
    if not isinstance(reg, ast.Dict):
        ctx.unknown("R1.1", f"{DEF}::TAG_NAME_TO_PARAMETER_TYPE_OBJECT", "registry is not a dict literal")
    else:
        table = {}
        for k, v in zip(reg.keys, reg.values):
            kk = k.value if isinstance(k, ast.Constant) else None
            table[kk] = (dotted(v) or "").split(".")[-1]
        for c in concrete_types:
            site = f"{DEF}::TAG_NAME_TO_PARAMETER_TYPE_OBJECT[{c!r}]"
            if c not in table:
                ctx.unknown("R1.1", site, f"concrete parameter type {c} has no entry in the tag table recognised here (whether <{c}> elements "
                                          f"load is decided by the end-to-end documents R1.e / R1.e2)", where=f"space_packet_parser/{DEF}:{reg.lineno}")
            else:
                ctx.decide(table[c] == c, "R1.1", site, "tag = class name",
                           f"tag {c!r} is mapped to class {table[c]}", where=f"space_packet_parser/{DEF}:{reg.lineno}")
        for k, v in table.items():
            if k not in concrete_types:
                ctx.decide(v in prog.classes and prog.is_subclass(v, "ParameterType"), "R1.1", f"{DEF}::TAG_NAME_TO_PARAMETER_TYPE_OBJECT[{k!r}]",
                           "extra tag maps to a parameter type", f"tag {k!r} maps to {v}, which is not a parameter type")

    def list_rule(func_key, base, rule_site):
        fi = prog.func(func_key)
        names = None
        for n in walk_local(fi.node):
            if isinstance(n, ast.For) and isinstance(n.iter, (ast.List, ast.Tuple)):
                names = [(dotted(e) or "").split(".")[-1] for e in n.iter.elts]
        concrete = [c for c in prog.subclasses(base) if not prog.is_abstract(c)]
        if names is None:
            ctx.unknown("R1.1", rule_site, "class list not found")
            return
        for c in concrete:
            ctx.decide(c in names, "R1.1", f"{rule_site}::{c}", "listed",
                       f"concrete {base} subclass {c} is not in the list tried by {fi.qual}: such elements are silently not found",
                       where=where(fi, fi.node))
        # the lookup path uses the class name as tag
        uses_name = any(isinstance(n, ast.Attribute) and n.attr == "__name__" for n in walk_local(fi.node))
        ctx.decide(uses_name or None, "R1.1", f"{rule_site}::tag-is-class-name", "element searched by class name", "")
    list_rule("xtce/parameter_types.py::ParameterType.get_data_encoding", "DataEncoding", "xtce/parameter_types.py::ParameterType.get_data_encoding")
    list_rule("xtce/encodings.py::DataEncoding.get_default_calibrator", "Calibrator", "xtce/encodings.py::DataEncoding.get_default_calibrator")


def dispatch(ctx: Ctx):
    prog = ctx.prog
    for base in ("ParameterType", "DataEncoding"):
        for c in prog.subclasses(base):
            if prog.is_abstract(c):
                continue
            fi = prog.resolve_method(c, "parse_value")
            site = f"{c}::parse_value"
            if fi is None:
                ctx.refuted("R1.2", site, f"{c} has no parse_value through its MRO")
                continue
            stub = any(isinstance(n, ast.Return) and isinstance(n.value, ast.Name) and n.value.id == "NotImplemented" for n in walk_local(fi.node))
            ctx.decide(not stub, "R1.2", site, f"resolves to {fi.qual}", f"{c}.parse_value resolves to the abstract stub {fi.qual} (returns NotImplemented)",
                       where=where(fi, fi.node))
    # store discipline
    fi = prog.func("xtce/parameters.py::Parameter.parse")
    stores = [n for n in walk_local(fi.node) if isinstance(n, ast.Assign) and len(n.targets) == 1 and isinstance(n.targets[0], ast.Subscript)]
    ok = None
    why = ""
    if len(stores) == 1:
        t, v = stores[0].targets[0], stores[0].value
        ok = dotted(t.value) == fi.params[1] and dotted(t.slice) == "self.name" and isinstance(v, ast.Call) and \
            dotted(v.func) == "self.parameter_type.parse_value" and [dotted(a) for a in v.args] == [fi.params[1]] and not v.keywords
        why = f"Parameter.parse does `{norm(stores[0])}`; expected packet[self.name] = self.parameter_type.parse_value(packet)"
        if not ok:
            ok = None            # another correct shape is possible; the end-to-end table decides
    ctx.decide(ok, "R1.3", f"{fi.key}::store", "packet[self.name] = self.parameter_type.parse_value(packet)", why, where=where(fi, fi.node)) \
        if ok is not None else ctx.note(f"R1.3 shape not recognised ({why}); decided by R1.e")


# ------------------------------------------------------------------------------------------------- reference
class Bits:
    def __init__(self, data: bytes):
        self.s = "".join(f"{x:08b}" for x in data)
        self.p = 0

    def take(self, n):
        r = self.s[self.p:self.p + n]
        assert len(r) == n, "reference ran past the packet"
        self.p += n
        return r

    def u(self, n):
        return int(self.take(n), 2) if n else 0

    def s_(self, n):
        b = self.take(n)
        v = int(b, 2)
        return v - (1 << n) if b[0] == "1" else v

    def bytes_left(self, n):          # value left-padded
        b = self.take(n)
        return int(b, 2).to_bytes((n + 7) // 8, "big") if n else b""

    def bytes_right(self, n):         # buffer right-padded
        b = self.take(n)
        pad = (8 - n % 8) % 8
        return int(b + "0" * pad, 2).to_bytes((n + pad) // 8, "big") if n else b""


POLY = [(0.001220703125, 0), (-2.5, 1), (3.0, 3)]


def poly(x, terms=POLY):
    return sum(c * x ** e for c, e in terms)


def spline1_extrap(x, pts=((0.5, 10.25), (2.0, 20.125), (7.75, -3.0))):
    xs, ys = [p[0] for p in pts], [p[1] for p in pts]
    if x < xs[0]:
        i = 0
    elif x >= xs[-1]:
        if x == xs[-1]:
            return ys[-1]
        i = len(xs) - 2
    else:
        i = max(j for j in range(len(xs)) if xs[j] <= x)
    return ys[i] + (ys[i + 1] - ys[i]) / (xs[i + 1] - xs[i]) * (x - xs[i])


def spline0(x, pts=((1.0, 1.5), (4.0, 2.5))):
    xs, ys = [p[0] for p in pts], [p[1] for p in pts]
    assert xs[0] <= x <= xs[-1]
    if x == xs[-1]:
        return ys[-1]
    return ys[max(j for j in range(len(xs)) if xs[j] <= x)]


def header_items(apid, nuser, version=0, flags=3, ptype=0):
    return [("VERSION", "Int", version, version), ("TYPE", "Int", ptype, ptype), ("SEC_HDR_FLG", "Int", 0, 0), ("PKT_APID", "Int", apid, apid),
            ("SEQ_FLGS", "Int", flags, flags), ("SRC_SEQ_CTR", "Int", 0, 0), ("PKT_LEN", "Int", nuser - 1, nuser - 1)]


def ref_common(b: Bits):
    mode = b.u(8)
    flag = b.s_(4)
    pad = b.u(4)
    return mode, flag, pad, [("MODE", "Int", mode, mode), ("FLAG", "Int", flag, flag), ("PAD", "Int", pad, pad)]


def ref_sci(user: bytes, hi: bool):
    b = Bits(user)
    mode, flag, pad, items = ref_common(b)
    traw_bytes = int(b.take(16), 2).to_bytes(2, "big")
    traw = int.from_bytes(traw_bytes, "little", signed=True)
    if 3 <= mode < 9:
        tval = spline0(traw)
    elif flag != 1:
        tval = poly(traw)
    elif mode == 2 or (mode > flag and flag <= 7 and False):
        tval = poly(traw)
    else:
        tval = spline1_extrap(traw)
    items.append(("TEMP", "Float", tval, traw))
    vraw = struct.unpack("<f", int(b.take(32), 2).to_bytes(4, "big"))[0]
    vval = spline0(vraw) if flag < 0 else poly(vraw)
    items.append(("VOLT", "Float", vval, vraw))
    w = b.take(32)
    m_, e_ = int(w[:24], 2), int(w[24:], 2)
    m_ = m_ - (1 << 24) if m_ & (1 << 23) else m_
    e_ = e_ - 256 if e_ & 0x80 else e_
    mil = m_ / float(1 << 23) * 2.0 ** e_
    items.append(("MIL", "Float", mil, mil))
    half = struct.unpack(">e", int(b.take(16), 2).to_bytes(2, "big"))[0]
    items.append(("HALF", "Float", half, half))
    st = b.u(8)
    items.append(("STATE", "Str", {0: "OFF", 1: "ON", 255: X.MARKUP_LABEL}[st], st))
    ar = b.u(8)
    items.append(("ARMED", "Bool", int(bool(ar)), ar))
    if hi:
        pad2 = b.u(4)
        items = [it if it[0] != "PAD" else ("PAD", "Int", pad2, pad2) for it in items]
    return items, b.p


def ref_txt(user: bytes):
    b = Bits(user)
    mode, flag, pad, items = ref_common(b)
    nlen = b.u(8)
    items.append(("NLEN", "Float", poly(nlen), nlen))
    nbits = 16 * nlen + 32
    buf = b.bytes_right(nbits)
    idx = buf.index(bytes.fromhex("0058"))
    items.append(("NAME", "Str", buf[:idx].decode("utf-16"), buf))
    tag = b.bytes_right(24)
    tl = tag[0]
    items.append(("TAG", "Str", tag[1:1 + tl // 8].decode("ascii"), tag))
    if mode == 1:
        lb = 8
    elif mode == 2 and flag >= 0:
        lb = 16
    else:
        raise AssertionError("reference: no lookup match")
    lbuf = b.bytes_right(lb)
    items.append(("LBL", "Str", lbuf.decode("utf-8"), lbuf))
    blob = b.bytes_left(nlen + 8)
    items.append(("BLOB", "Binary", blob, blob))
    fix = b.bytes_left(24)
    items.append(("FIX", "Binary", fix, fix))
    assert mode < 5
    blk = b.bytes_left(16)
    items.append(("BLK", "Binary", blk, blk))
    ta = b.u(32)
    items.append(("T_ABS", "Float", 147.25 + 0.015625 * ta, ta))
    tr = struct.unpack(">d", int(b.take(64), 2).to_bytes(8, "big"))[0]
    items.append(("T_REL", "Float", tr, tr))
    tp = b.u(16)
    items.append(("T_PLAIN", "Float", 0.001 * tp, tp))
    wb = b.take(12)
    # byte order on a width that is not a whole number of bytes is outside the property: the packet carries zeros here
    assert int(wb, 2) == 0, "reference: W12 must be all zeros"
    items.append(("W12", "Int", 0, 0))
    p4 = b.u(4)
    items.append(("PAD4", "Int", p4, p4))
    return items, b.p


CLASS_OF = {"Int": "IntParameter", "Float": "FloatParameter", "Str": "StrParameter", "Binary": "BinaryParameter", "Bool": "BoolParameter"}


def item_diff(got: dict, want: list):
    """First difference between a decoded packet and the reference item list."""
    if list(got.keys()) != [w[0] for w in want]:
        return f"parameters {list(got.keys())}; the document prescribes {[w[0] for w in want]}"
    for (name, kind, val, raw), (k, v) in zip(want, got.items()):
        cls = getattr(v, "cls", type(v).__name__)
        if cls != CLASS_OF[kind]:
            return f"{name} is a {cls}; expected {CLASS_OF[kind]}"
        if not _eq(v, val):
            return f"{name} = {_show(v)}; XTCE semantics give {val!r}"
        rv = v.attrs.get("raw_value", "<missing>")
        rcls = getattr(rv, "cls", None)
        if rcls is not None and rcls not in CLASS_OF.values():
            return (f"{name}.raw_value is a {rcls} object (a view of the packet buffer with its own cursor and header accessors), "
                    f"not the plain encoded value {raw!r}")
        if not _eq(rv, raw) or (isinstance(raw, (bytes, str)) != isinstance(rv, (bytes, str))) or (isinstance(raw, float) != isinstance(rv, float)):
            return f"{name}.raw_value = {_show(rv)}; the encoded value is {raw!r}"
    return None


def _show(v):
    for t in (bytes, str, float, int):
        if isinstance(v, t):
            return repr(t(v))
    return repr(v)


def _eq(a, b):
    if isinstance(b, float) and isinstance(a, (int, float)) and not isinstance(a, bool):
        return a == b or abs(a - b) <= 1e-9 * max(1.0, abs(b))
    if isinstance(a, (bytes, str)) or isinstance(b, (bytes, str)):
        return type(b)(a) == b if isinstance(a, type(b)) else False
    return a == b


def end_to_end(ctx: Ctx, RULE: str = "R1.e"):
    prog = ctx.prog
    fi = prog.func(GEN)
    h = X.harness(prog)
    try:
        d0 = X.build_kitchen_sink(h)
        g1 = X.write_tree(h, d0)
        d = X.load(h, clone_tree(g1), "xtce")
    except Raised as r:
        ctx.refuted(RULE, f"{GEN}::document", f"the checker's all-features document cannot be written/loaded: {r.exc.tname} {r.exc.args}")
        return
    packets = kitchen_packets()
    stream = b"".join(p[1] for p in packets)
    _run_kitchen(ctx, RULE, fi, h, d, packets, stream)


def kitchen_packets():
    """(description, packet bytes, reference or None, bits) of the all-features stream."""
    le16 = lambda x: (x & 0xFFFF).to_bytes(2, "little")  # noqa: E731
    sci_a = bytes([2, 0x1F]) + le16(500) + struct.pack("<f", 1.0) + bytes.fromhex("40000001") + struct.pack(">e", 1.0) + bytes([1, 0])
    sci_b = bytes([0, 0x20]) + le16(-3) + struct.pack("<f", -0.5) + bytes.fromhex("a0000002") + struct.pack(">e", -2.0) + bytes([255, 7])
    sci_c = bytes([1, 0x10]) + le16(1) + struct.pack("<f", 2.0) + bytes.fromhex("7fffff7f") + struct.pack(">e", 0.0) + bytes([0, 1])
    sci_hi = bytes([7, 0xA5]) + le16(2) + struct.pack("<f", 1.0) + bytes.fromhex("40000001") + struct.pack(">e", 1.0) + bytes([255, 5]) + bytes([0x60])
    txt_bits = (f"{2:08b}" + f"{3:04b}" + "0000" + f"{2:08b}" + "".join(f"{x:08b}" for x in bytes.fromhex("feff004800580000")) +
                "".join(f"{x:08b}" for x in b"\x10OK") + "".join(f"{x:08b}" for x in b"ab") + "1011001110" +
                "".join(f"{x:08b}" for x in b"\x01\x02\x03") + "".join(f"{x:08b}" for x in b"\xaa\x55") + f"{1000:032b}" +
                "".join(f"{x:08b}" for x in struct.pack(">d", -12.75)) + f"{5000:016b}" + "000000000000" + "1010")
    txt_bits += "0" * ((8 - len(txt_bits) % 8) % 8)
    txt = int(txt_bits, 2).to_bytes(len(txt_bits) // 8, "big")
    packets = [
        ("SCI, context polynomial (boolean expression), default polynomial", ccsds_bytes(sci_a, apid=100), lambda: header_items(100, len(sci_a)) + ref_sci(sci_a, False)[0], 8 * len(sci_a)),
        ("SCI, context polynomial (FLAG != 1), negative values", ccsds_bytes(sci_b, apid=100), lambda: header_items(100, len(sci_b)) + ref_sci(sci_b, False)[0], 8 * len(sci_b)),
        ("SCI, default spline (no context matches)", ccsds_bytes(sci_c, apid=100), lambda: header_items(100, len(sci_c)) + ref_sci(sci_c, False)[0], 8 * len(sci_c)),
        ("packet the document does not define (APID 5)", ccsds_bytes(b"\x01\x02", apid=5), None, None),
        ("TXT: dynamic strings, lookups, unaligned binary, times", ccsds_bytes(txt, apid=200, ptype=0) if False else ccsds_bytes(txt, apid=200), lambda: header_items(200, len(txt)) + ref_txt(txt)[0], None),
        ("SCI_HI: second-level child, context splines", ccsds_bytes(sci_hi, apid=100), lambda: header_items(100, len(sci_hi)) + ref_sci(sci_hi, True)[0], None),
        ("VERSION criterion false (APID 100, VERSION 1)", ccsds_bytes(sci_a, apid=100, version=1), None, None),
    ]
    return packets


def _run_kitchen(ctx, RULE, fi, h, d, packets, stream):
    for report in (False, True):
        site0 = f"{GEN}::all-features stream::report_unrecognized={report}"
        try:
            h.it.events.clear()
            k, got = h.outcome("d.packet_generator(src, yield_unrecognized_packet_errors=rep)", DEF, d=d, src=stream, rep=report)
        except (Unsupported, StepLimit) as e:
            ctx.unknown(RULE, site0, str(e))
            continue
        if k != "ok":
            ctx.refuted(RULE, site0, f"decoding the all-features stream ends in {got}", where=where(fi, fi.node))
            continue
        want_seq = [p for p in packets if p[2] is not None or report]
        if len(got) != len(want_seq):
            ctx.refuted(RULE, site0, f"{len(got)} items yielded for {len(packets)} packets; expected {len(want_seq)} "
                                       f"({'undefined packets reported in position' if report else 'undefined packets skipped'})", where=where(fi, fi.node))
            continue
        for (desc, data, ref, _), y in zip(want_seq, got):
            site = f"{site0}::{desc}"
            if ref is None:
                ok = isinstance(y, ExcVal) and y.tname == "UnrecognizedPacketTypeError"
                ctx.decide(ok, RULE, site, "reported as unrecognized", f"{desc}: yielded {y!r} instead of an unrecognized-packet report", where=where(fi, fi.node))
                continue
            if not isinstance(y, dict):
                ctx.refuted(RULE, site, f"{desc}: yielded {y!r} instead of a parsed packet", where=where(fi, fi.node))
                continue
            try:
                want = ref()
            except AssertionError as e:
                ctx.unknown(RULE, site, f"reference computation failed: {e}")
                continue
            diff = item_diff(y, want)
            ctx.decide(diff is None, RULE, site, f"{len(want)} items agree (name, order, value, raw value, class)", f"{desc}: {diff}", where=where(fi, fi.node))
    # headers only: raw packets, one per input packet
    try:
        k, got = h.outcome("d.packet_generator(src, ccsds_headers_only=True)", DEF, d=d, src=stream)
        ok = k == "ok" and [bytes(x) for x in got] == [p[1] for p in packets]
        ctx.decide(ok, RULE, f"{GEN}::headers-only", "", f"headers-only mode yields {len(got) if k == 'ok' else got} items; expected the {len(packets)} raw packets",
                   where=where(fi, fi.node))
    except (Unsupported, StepLimit) as e:
        ctx.unknown(RULE, f"{GEN}::headers-only", str(e))


# ------------------------------------------------------------------------------------ second end-to-end document
def second_src() -> str:
    """A second document, assembled from objects, for the classes the all-features document does not reach: sibling
    containers that both match, (A or B) and (C or D) criteria, a context calibrator keyed on the parameter's own raw
    value (0 included), a step spline queried at its last point, the XTCE 1.1 spelling `twosCompliment`, a length lookup
    whose first entry is only partly satisfied, a 64-bit integer that is not byte-aligned, a criterion on an enumeration
    label that looks like a boolean, and a zero-length field that ends the packet."""
    E, C, M = X.E, X.C, X.M
    params = []
    for n, w in X.HEADER:
        params.append(f'parameters.Parameter("{n}", parameter_types.IntegerParameterType("{n}_T", {X._int(w)}))')
    own = f"{C}.ContextCalibrator([{M}.Comparison('0', 'Z', use_calibrated_value=False)], {C}.PolynomialCalibrator([{C}.PolynomialCoefficient(3.0, 0), {C}.PolynomialCoefficient(2.0, 1), {C}.PolynomialCoefficient(2.0, 0)]))"
    step = f"{C}.SplineCalibrator([{C}.SplinePoint(0.0, 1.0), {C}.SplinePoint(10.0, 2.0), {C}.SplinePoint(20.0, 3.5)], order=0)"
    lookups = (f"[{M}.DiscreteLookup([{M}.Comparison('1', 'K'), {M}.Comparison('0', 'Z', use_calibrated_value=False)], 8), "
               f"{M}.DiscreteLookup([{M}.Comparison('1', 'K'), {M}.Comparison('1', 'Z', operator='>=', use_calibrated_value=False)], 16), "
               f"{M}.DiscreteLookup([{M}.Comparison('2', 'K')], 8)]")
    types = {
        "K": f'parameter_types.IntegerParameterType("K_T", {X._int(8)})',
        "Z": f'parameter_types.IntegerParameterType("Z_T", {E}.IntegerDataEncoding(8, "unsigned", context_calibrators=[{own}]))',
        "S0": f'parameter_types.IntegerParameterType("S0_T", {E}.IntegerDataEncoding(8, "unsigned", default_calibrator={step}))',
        "TC": f'parameter_types.IntegerParameterType("TC_T", {X._int(16, "twosCompliment")})',
        "NIB": f'parameter_types.IntegerParameterType("NIB_T", {X._int(4)})',
        "W64": f'parameter_types.IntegerParameterType("W64_T", {X._int(64)})',
        "NIB2": f'parameter_types.IntegerParameterType("NIB2_T", {X._int(4)})',
        "EN": f'parameter_types.EnumeratedParameterType("EN_T", {X._int(8)}, {{0: "FALSE", 1: "TRUE", 2: "MAYBE"}})',
        "LB": f'parameter_types.BinaryParameterType("LB_T", {E}.BinaryDataEncoding(size_discrete_lookup_list={lookups}))',
        "PA": f'parameter_types.IntegerParameterType("PA_T", {X._int(8)})',
        "PB": f'parameter_types.IntegerParameterType("PB_T", {X._int(8)})',
        "PT": f'parameter_types.IntegerParameterType("PT_T", {X._int(8)})',
        "ZB": f'parameter_types.BinaryParameterType("ZB_T", {E}.BinaryDataEncoding(size_reference_parameter="PT"))',
    }
    for n, t in types.items():
        params.append(f'parameters.Parameter("{n}", {t})')
    crit_a = (f"[{M}.BooleanExpression({M}.Anded([], [{M}.Ored([{M}.Condition('K', '==', right_value='1', right_use_calibrated_value=False), {M}.Condition('K', '==', right_value='2', right_use_calibrated_value=False)], []), "
              f"{M}.Ored([{M}.Condition('Z', '==', right_value='0', left_use_calibrated_value=False, right_use_calibrated_value=False), "
              f"{M}.Condition('Z', '>=', right_value='3', left_use_calibrated_value=False, right_use_calibrated_value=False)], [])]))]")
    root = [n for n, _ in X.HEADER] + ["K", "Z", "S0", "TC", "NIB", "W64", "NIB2", "EN", "LB"]
    return f"""(lambda P: XtcePacketDefinition([
        containers.SequenceContainer("CCSDSPacket", [P[n] for n in {root!r}]),
        containers.SequenceContainer("CH_A", [P["PA"]], base_container_name="CCSDSPacket", restriction_criteria={crit_a}),
        containers.SequenceContainer("CH_B", [P["PB"]], base_container_name="CCSDSPacket", restriction_criteria=[{M}.Comparison("2", "K")]),
        containers.SequenceContainer("CH_T", [P["PT"], P["ZB"]], base_container_name="CH_B", restriction_criteria=[{M}.Comparison("TRUE", "EN")]),
      ], ns={{"xtce": "{X.URI}"}}, xtce_ns_prefix="xtce"))({{p.name: p for p in [{", ".join(params)}]}})"""


def pack_second(k, z, s0, tc, nib, w64, nib2, en, lb: bytes, tail: bytes = b"") -> bytes:
    bits = f"{k:08b}{z:08b}{s0:08b}{tc & 0xFFFF:016b}{nib:04b}{w64:064b}{nib2:04b}{en:08b}" + "".join(f"{x:08b}" for x in lb + tail)
    assert len(bits) % 8 == 0
    return int(bits, 2).to_bytes(len(bits) // 8, "big")


def ref_second(user: bytes):
    """Reference decoding of the second document: (kind, items) with kind in 'ok' / 'unrecognized'."""
    b = Bits(user)
    k, z, s0r, = b.u(8), b.u(8), b.u(8)
    tc = b.u(16)
    tc = tc - 65536 if tc & 0x8000 else tc
    items = [("K", "Int", k, k)]
    items.append(("Z", "Float", 5.0 + 2.0 * z, z) if z == 0 else ("Z", "Int", z, z))
    xs, ys = (0.0, 10.0, 20.0), (1.0, 2.0, 3.5)
    assert xs[0] <= s0r <= xs[-1], "reference: S0 outside the spline"
    items.append(("S0", "Float", ys[max(i for i in range(3) if xs[i] <= s0r)], s0r))
    items.append(("TC", "Int", tc, tc))
    nib = b.u(4)
    items.append(("NIB", "Int", nib, nib))
    w64 = b.u(64)
    items.append(("W64", "Int", w64, w64))
    nib2 = b.u(4)
    items.append(("NIB2", "Int", nib2, nib2))
    en = b.u(8)
    assert en in (0, 1, 2), "reference: EN unlisted"
    items.append(("EN", "Str", {0: "FALSE", 1: "TRUE", 2: "MAYBE"}[en], en))
    if k == 1 and z == 0:
        nb = 8
    elif k == 1 and z >= 1:
        nb = 16
    elif k == 2:
        nb = 8
    else:
        raise AssertionError("reference: no lookup entry matches")
    lb = b.bytes_left(nb)
    items.append(("LB", "Binary", lb, lb))
    a = (k == 1 or k == 2) and (z == 0 or z >= 3)
    bb = k == 2
    if a and bb:
        return "unrecognized", items
    if a:
        v = b.u(8)
        items.append(("PA", "Int", v, v))
    elif bb:
        v = b.u(8)
        items.append(("PB", "Int", v, v))
        if en == 1:                       # the label 'TRUE' is an ordinary enumeration label
            pt = b.u(8)
            items.append(("PT", "Int", pt, pt))
            zb = b.bytes_left(pt)
            items.append(("ZB", "Binary", zb, zb))
    return "ok", items


def end_to_end_second(ctx: Ctx, RULE: str = "R1.e2"):
    prog = ctx.prog
    fi = prog.func(GEN)
    h = X.harness(prog)
    try:
        d0 = h.ev(second_src(), DEF)
        d = X.load(h, clone_tree(X.write_tree(h, d0)), "xtce")     # inheritor links are made by the loader
    except Raised as r:
        ctx.refuted(RULE, f"{GEN}::second document", f"the checker's second document cannot be assembled: {r.exc.tname} {r.exc.args}")
        return
    W = 0xFEDCBA9876543211
    cases = [
        ("(K=1 or K=2) and (Z=0 or Z>=3): second alternative of the second group; own-value context does not apply; spline at its last point; negative twosCompliment; unaligned 64-bit integer; 16-bit lookup after a partly satisfied entry",
         pack_second(1, 3, 20, 0xFFFE, 0xA, W, 5, 2, b"\xab\xcd", bytes([7]))),
        ("both sibling containers match (K=2, Z=0): unrecognized; own-value context calibrator at raw 0", pack_second(2, 0, 10, 1, 0, 1, 0xF, 0, b"\x11", bytes([9]))),
        ("only the second sibling matches (K=2, Z=1); enumeration label TRUE selects the grandchild; zero-length field ends the packet",
         pack_second(2, 1, 10, 0x7FFF, 0xF, 2 ** 64 - 1, 0, 1, b"\x22", bytes([9, 0]))),
        ("first group and first alternative of the second group (K=1, Z=0); most negative twosCompliment; spline between points", pack_second(1, 0, 15, 0x8000, 1, 2 ** 63, 1, 0, b"\x33", bytes([4]))),
        ("second group false (K=1, Z=1): the concrete root ends the packet; spline at its first point; data field of exactly 512 bytes",
         (lambda u: u + bytes(512 - len(u)))(pack_second(1, 1, 0, 0, 0, 0, 0, 2, b"\x44\x55"))),
        ("grandchild with an 8-bit trailing field (K=2, Z=1, EN=TRUE)", pack_second(2, 1, 20, -1, 3, W, 12, 1, b"\x66", bytes([3, 8, 0x5A]))),
        ("enumeration label FALSE: the child but not the grandchild (K=2, Z=2)", pack_second(2, 2, 5, 5, 7, 7, 7, 0, b"\x77", bytes([6]))),
    ]
    # what is decoded does not depend on the logging level: the whole table is decoded once more with DEBUG logging on
    site = f"{GEN}::second document::same results with DEBUG logging enabled"
    try:
        outs = []
        for dbg in (False, True):
            h.it.ext["debug_logging"] = dbg
            h.it.events.clear()
            k, got = h.outcome("d.packet_generator(src, yield_unrecognized_packet_errors=True)", DEF, d=d,
                               src=b"".join(ccsds_bytes(u, apid=33) for _, u in cases))
            fmt_errors = [e for e in h.it.events if e and e[0] == "log-format-error"]
            outs.append((k, [(y.tname if isinstance(y, ExcVal) else [(n, _show(v), _show(v.attrs.get("raw_value"))) for n, v in y.items()])
                             for y in got] if k == "ok" else got, fmt_errors))
        h.it.ext["debug_logging"] = False
        same = outs[0][:2] == outs[1][:2] and not outs[1][2]
        why = ""
        if not same:
            if outs[1][2]:
                why = f"with DEBUG logging enabled a log call cannot format its message: {outs[1][2][0]}"
            elif outs[1][0] != "ok":
                why = f"with DEBUG logging enabled decoding the stream ends in {outs[1][1]}"
            else:
                i = next((j for j, (a, b) in enumerate(zip(outs[0][1], outs[1][1])) if a != b), None)
                why = (f"with DEBUG logging enabled packet {i} decodes to {outs[1][1][i] if i is not None else len(outs[1][1])} instead of "
                       f"{outs[0][1][i] if i is not None else len(outs[0][1])}")
        ctx.decide(same, RULE, site, "identical items with and without DEBUG logging", why, where=where(fi, fi.node))
    except (Unsupported, StepLimit) as e:
        h.it.ext["debug_logging"] = False
        ctx.unknown(RULE, site, str(e))
    for report in (False, True):
        for desc, user in cases:
            site = f"{GEN}::second document::report_unrecognized={report}::{desc[:60]}"
            try:
                kind, want = ref_second(user)
            except AssertionError as e:
                ctx.unknown(RULE, site, str(e))
                continue
            try:
                h.it.events.clear()
                k, got = h.outcome("d.packet_generator(src, yield_unrecognized_packet_errors=rep)", DEF, d=d,
                                   src=ccsds_bytes(user, apid=33), rep=report)
            except (Unsupported, StepLimit) as e:
                ctx.unknown(RULE, site, str(e))
                continue
            if k != "ok":
                ctx.refuted(RULE, site, f"{desc}: decoding ends in {got}", where=where(fi, fi.node))
                continue
            full = header_items(33, len(user)) + want
            if kind == "unrecognized":
                if not report:
                    ctx.decide(len(got) == 0, RULE, site, "skipped", f"{desc}: {len(got)} item(s) yielded; a packet matching two sibling containers "
                               f"is not defined by the document and must be skipped", where=where(fi, fi.node))
                else:
                    y = got[0] if len(got) == 1 else None
                    pd = y.kwargs.get("partial_data") if isinstance(y, ExcVal) else None
                    ok = isinstance(y, ExcVal) and y.tname == "UnrecognizedPacketTypeError" and isinstance(pd, dict) and item_diff(pd, full) is None \
                        and getattr(pd, "cls", None) == "CCSDSPacket" and pub(pd, "raw_data") is not None
                    ctx.decide(ok, RULE, site, "reported with the values decoded so far",
                               f"{desc}: yielded {y!r}{' with partial data: ' + str(item_diff(pd, full)) if isinstance(pd, dict) else ''}; expected an "
                               f"unrecognized-packet report carrying the root container's items", where=where(fi, fi.node))
                continue
            if len(got) != 1 or not isinstance(got[0], dict):
                ctx.refuted(RULE, site, f"{desc}: yielded {got!r} instead of one parsed packet", where=where(fi, fi.node))
                continue
            diff = item_diff(got[0], full)
            ctx.decide(diff is None, RULE, site, f"{len(full)} items agree", f"{desc}: {diff}", where=where(fi, fi.node))


# ------------------------------------------------------------------------------------ third document (hand-written XML)
def ref_third(apid: int, user: bytes):
    """Reference decoding of the hand-written document (xmlcommon.third_text)."""
    b = Bits(user)
    id_, mode = b.u(8), b.u(8)
    items = [("ID", "Int", id_, id_), ("MODE", "Int", mode, mode)]
    if 100 <= apid < 200:
        ta, tr = b.u(16), b.u(16)
        items.append(("T_ABS", "Float", 0.5 * ta + 100.0, ta))          # XTCE: value = scale * raw + offset
        items.append(("T_REL", "Float", tr - 3.5, tr))
        su = b.s_(16)
        items.append(("SU", "Int", su, su))                            # the encoding says two's complement; `signed` on the type does not
        us = b.u(8)
        items.append(("US", "Int", us, us))
        be = b.u(16)
        items.append(("BE16", "Int", be, be))
        w = b.u(16)                                                     # two encodings that differ only in their byte order
        le = ((w & 0xFF) << 8) | (w >> 8)
        items.append(("LE16", "Int", le, le))
        return "ok", items
    if 200 <= apid < 300:
        cc = b.u(8)
        if mode == 1:
            items.append(("CC", "Float", 2.0 * cc, cc))                 # the first context that tests true, in document order
        elif mode <= 2 and id_ >= 5:
            items.append(("CC", "Float", 3.0 * cc + 7.0, cc))
        else:
            items.append(("CC", "Float", cc + 0.5, cc))
        sp = b.u(8)
        assert 0 <= sp <= 30 and sp not in (10, 20), "reference: SP outside the spline or on one of its steps"
        # points in document order: (0,0) (10,10) | (10,20) (20,30) | (20,25) (30,35): a step up at 10, a step down at 20
        items.append(("SP", "Float", float(sp) if sp < 10 else (20.0 + (sp - 10) * 1.0 if sp < 20 else 25.0 + (sp - 20) * 1.0), sp))
        raw = b.bytes_right(64)
        i = next((j for j in range(0, 8, 2) if raw[j:j + 2] == b"!\x00"), None)
        assert i is not None, "reference: STR without terminator"
        items.append(("STR", "Str", raw[:i].decode("utf-16-le"), raw))
        return "ok", items
    if apid == 77:          # FAMILY is abstract and has no inheritors: its entries are decoded, then the packet is unrecognized
        x = b.u(8)
        items.append(("X8", "Int", x, x))
        return "unrecognized", items
    if apid == 400 and id_ != 10:
        # two sibling criteria with the same text `LV == 4`: one on the calibrated value (2 * raw), one on the raw value
        lv = b.u(8)
        items.append(("LV", "Float", 2.0 * lv, lv))
        if lv == 2:
            x = b.u(8)
            items.append(("X8", "Int", x, x))
            return "ok", items
        if lv == 4:
            y = b.u(8)
            items.append(("Y8", "Int", y, y))
            return "ok", items
        return "unrecognized", items
    if apid >= 300 and id_ == 10:                                       # value="010" is the decimal number ten
        y = b.u(8)
        items.append(("Y8", "Int", y, y))
        return "ok", items
    return "unrecognized", items                                        # ID == 1 and ID == 2 never both hold


def third_cases():
    s16 = lambda v: (v & 0xFFFF).to_bytes(2, "big")
    A = lambda id_, mode, ta, tr, su, us: bytes([id_, mode]) + s16(ta) + s16(tr) + s16(su) + bytes([us]) + b"\x12\x34\x12\x34"
    B = lambda id_, mode, cc, sp, text: bytes([id_, mode, cc, sp]) + (text.encode("utf-16-le") + b"!\x00" + b"\xee" * 8)[:8]
    cases = [
        ("time encoding with scale 0.5 and offset 100; two's complement under signed=\"false\"; lower end of the APID range", 100, A(0, 0, 1000, 7, -42, 200)),
        ("upper end of the APID range 100..199; most negative 16-bit value", 199, A(9, 9, 0, 0, -32768, 255)),
        ("APID below every range", 99, A(0, 0, 1, 1, 1, 1)),
        ("APID 50 (only the second comparison of the range holds)", 50, A(0, 0, 1, 1, 1, 1)),
        ("first context (one comparison) and second context (two comparisons) both hold: document order decides", 200, B(7, 1, 10, 5, "HI")),
        ("only the second context holds", 250, B(5, 2, 10, 15, "A")),
        ("no context holds: default calibrator", 299, B(4, 2, 10, 19, "")),
        ("spline beyond its step down (two points share raw 20, the second has the lower value)", 201, B(0, 0, 3, 25, "Z")),
        ("contradictory equalities on one parameter never match (ID=1)", 300, bytes([1, 0, 5])),
        ("contradictory equalities on one parameter never match (ID=2)", 301, bytes([2, 0, 5])),
        ("zero-padded literal 010 is decimal ten (ID=10)", 300, bytes([10, 0, 0x5A])),
        ("zero-padded literal 010 is not eight (ID=8)", 2047, bytes([8, 0, 0x5A])),
        ("the idle APID 2047 is described by the document like any other (ID=10)", 2047, bytes([10, 3, 0xA5])),
        ("APID 0", 0, bytes([10, 3, 0xA5])),
        ("an abstract container without inheritors describes no packet (APID 77)", 77, bytes([1, 2, 0x33])),
        ("siblings with the same criterion text, one calibrated one raw: calibrated 4 (raw 2)", 400, bytes([0, 0, 2, 0x61])),
        ("siblings with the same criterion text, one calibrated one raw: raw 4 (calibrated 8)", 400, bytes([0, 0, 4, 0x62])),
        ("siblings with the same criterion text: neither holds (raw 3)", 400, bytes([0, 0, 3, 0x63])),
    ]
    return cases


def end_to_end_third(ctx: Ctx, RULE: str = "R1.e3"):
    from ..xmlmodel import parse_text
    prog = ctx.prog
    fi = prog.func(GEN)
    h = X.harness(prog)
    try:
        d = X.load(h, parse_text(X.third_text()), "xtce")
    except Raised as r:
        ctx.refuted(RULE, f"{GEN}::hand-written document", f"the checker's hand-written document fails to load: {r.exc.tname} {r.exc.args}")
        return
    cases = third_cases()
    for report in (False, True):
        for desc, apid, user in cases:
            site = f"{GEN}::hand-written document::report_unrecognized={report}::{desc[:70]}"
            try:
                kind, want = ref_third(apid, user)
            except AssertionError as e:
                ctx.unknown(RULE, site, str(e))
                continue
            try:
                h.it.events.clear()
                k, got = h.outcome("d.packet_generator(src, yield_unrecognized_packet_errors=rep)", DEF, d=d,
                                   src=ccsds_bytes(user, apid=apid), rep=report)
            except (Unsupported, StepLimit) as e:
                ctx.unknown(RULE, site, str(e))
                continue
            if k != "ok":
                ctx.refuted(RULE, site, f"{desc}: decoding ends in {got}", where=where(fi, fi.node))
                continue
            full = header_items(apid, len(user)) + want
            if kind == "unrecognized":
                if not report:
                    ctx.decide(len(got) == 0, RULE, site, "skipped", f"{desc}: {len(got)} item(s) yielded ({[sorted(y) if isinstance(y, dict) else y for y in got]!r}); "
                               f"no container of the document describes this packet", where=where(fi, fi.node))
                else:
                    y = got[0] if len(got) == 1 else None
                    pd = y.kwargs.get("partial_data") if isinstance(y, ExcVal) else None
                    ok = isinstance(y, ExcVal) and y.tname == "UnrecognizedPacketTypeError" and isinstance(pd, dict) and item_diff(pd, full) is None
                    ctx.decide(ok, RULE, site, "reported with the values decoded so far",
                               f"{desc}: yielded {y!r}{' with partial data: ' + str(item_diff(pd, full)) if isinstance(pd, dict) else ''}; expected an "
                               f"unrecognized-packet report carrying the root container's items", where=where(fi, fi.node))
                continue
            if len(got) != 1 or not isinstance(got[0], dict):
                ctx.refuted(RULE, site, f"{desc}: yielded {got!r} instead of one parsed packet", where=where(fi, fi.node))
                continue
            diff = item_diff(got[0], full)
            ctx.decide(diff is None, RULE, site, f"{len(full)} items agree", f"{desc}: {diff}", where=where(fi, fi.node))


    # the generator's other options do not change what is decoded: records with a 4-byte prefix read from a file in 7-byte
    # chunks (skip_header_bytes, buffer_read_size_bytes), and segment combining with groups of two APIDs interleaved
    from ..models import file_source
    oks = [(desc, apid, user) for desc, apid, user in cases if ref_third(apid, user)[0] == "ok"]
    site = f"{GEN}::hand-written document::skip_header_bytes=4, buffer_read_size_bytes=7 on a file"
    try:
        stream = b"".join(bytes([0xE1, 0xE2, 0xE3, 0xE4]) + ccsds_bytes(user, apid=apid) for _, apid, user in oks)
        k, got = h.outcome("d.packet_generator(src, skip_header_bytes=4, buffer_read_size_bytes=7)", DEF, d=d, src=file_source(stream))
        bad = None
        if k != "ok" or len(got) != len(oks):
            bad = f"{'ends in ' + str(got) if k != 'ok' else str(len(got)) + ' packets'}; the file holds {len(oks)} records"
        else:
            for (desc, apid, user), g in zip(oks, got):
                diff = item_diff(g, header_items(apid, len(user)) + ref_third(apid, user)[1]) if isinstance(g, dict) else f"yielded {g!r}"
                if diff:
                    bad = f"`{desc}`: {diff}"
                    break
        ctx.decide(bad is None, RULE, site, f"{len(oks)} records", f"records with a 4-byte prefix read in 7-byte chunks: {bad}", where=where(fi, fi.node))
    except (Unsupported, StepLimit, Raised) as e:
        ctx.unknown(RULE, site, str(e))
    site = f"{GEN}::hand-written document::combine_segmented_packets, groups of two APIDs interleaved"
    try:
        (_, a1, u1), (_, a2, u2) = next(x for x in oks if 100 <= x[1] < 200), next(x for x in oks if 200 <= x[1] < 300)
        seg = lambda apid, part, flags, count: ccsds_bytes(part, apid=apid, flags=flags, count=count)      # noqa: E731
        stream = seg(a1, u1[:3], 1, 0) + seg(a2, u2[:5], 1, 0) + seg(a1, u1[3:], 2, 1) + seg(a2, u2[5:], 2, 1)
        k, got = h.outcome("d.packet_generator(src, combine_segmented_packets=True)", DEF, d=d, src=stream)
        bad = None
        if k != "ok" or len(got) != 2:
            bad = f"{'ends in ' + str(got) if k != 'ok' else str(len(got)) + ' packets'}; two complete groups were sent"
        else:
            for (apid, user, n1), g in zip(((a1, u1, 3), (a2, u2, 5)), got):
                diff = item_diff(g, header_items(apid, n1, flags=1) + ref_third(apid, user)[1]) if isinstance(g, dict) else f"yielded {g!r}"
                if diff:
                    bad = f"group of APID {apid}: {diff}"
                    break
        ctx.decide(bad is None, RULE, site, "two groups", f"FIRST(A) FIRST(B) LAST(A) LAST(B) with combining enabled: {bad}", where=where(fi, fi.node))
    except (Unsupported, StepLimit, Raised) as e:
        ctx.unknown(RULE, site, str(e))
    # two definitions alive at once: a second definition assembled from SOME of this definition's container objects (a
    # trimmed copy for another consumer) must not change what this one decodes
    site = f"{GEN}::hand-written document::second definition built from a subset of its containers"
    try:
        h.ev("XtcePacketDefinition([d.containers['CCSDSPacket'], d.containers['RANGE_A']])", DEF, d=d)
        bad = None
        for desc, apid, user in cases:
            kind, want = ref_third(apid, user)
            if kind != "ok":
                continue
            k, got = h.outcome("d.packet_generator(src)", DEF, d=d, src=ccsds_bytes(user, apid=apid))
            diff = item_diff(got[0], header_items(apid, len(user)) + want) if k == "ok" and len(got) == 1 and isinstance(got[0], dict) else f"yields {got!r}"
            if diff:
                bad = f"after another definition was assembled from two of its containers, `{desc}`: {diff}"
                break
        ctx.decide(bad is None, RULE, site, "unchanged", bad or "", where=where(fi, fi.node))
    except (Unsupported, StepLimit, Raised, AssertionError) as e:
        ctx.unknown(RULE, site, str(e))


def check(ctx: Ctx) -> None:
    ctx.guard("R1.e3", GEN, end_to_end_third, ctx)
    ctx.guard("R1.e2", GEN, end_to_end_second, ctx)
    ctx.guard("R1.1", DEF, registries, ctx)
    ctx.guard("R1.2", DEF, dispatch, ctx)
    ctx.guard("R1.e", GEN, end_to_end, ctx)


def mutants(prog):
    import re
    out = []

    def sub(rel, name, pattern, repl, expect="R1", flags=0):
        src = prog.files[rel]
        new, n = re.subn(pattern, repl, src, count=1, flags=flags)
        if n:
            out.append((name, rel, new, expect))

    enc, pt, par = "xtce/encodings.py", "xtce/parameter_types.py", "xtce/parameters.py"
    sub(DEF, "registry entry removed", r"        'RelativeTimeParameterType': parameter_types\.RelativeTimeParameterType,\n", "", "R1")
    sub(DEF, "registry maps to the wrong class", r"'BooleanParameterType': parameter_types\.BooleanParameterType", "'BooleanParameterType': parameter_types.IntegerParameterType", "R1")
    sub(pt, "binary encoding not searched", r"                              encodings\.FloatDataEncoding,\n                              encodings\.BinaryDataEncoding\]:", "                              encodings.FloatDataEncoding]:", "R1")
    sub(enc, "polynomial default calibrator not searched", r"        for calibrator in \[calibrators\.SplineCalibrator,\n                           calibrators\.PolynomialCalibrator,", "        for calibrator in [calibrators.SplineCalibrator,", "R1")
    sub(par, "value stored under the type's name", r"packet\[self\.name\] = self\.parameter_type\.parse_value\(packet\)", "packet[self.parameter_type.name] = self.parameter_type.parse_value(packet)", "R1")
    sub(enc, "default calibrator shadowed by context list", r"        if self\.default_calibrator:  # If no context", "        elif self.default_calibrator:  # If no context", "R1.e")
    sub(enc, "string termination search on the text", r"tchar_byte_index = raw_string_buffer\.index\(self\.termination_character\)", "tchar_byte_index = raw_string_buffer.index(self.termination_character[-1:])", "R1.e")
    sub(pt, "enum from the calibrated value", r"raw_enum_value = super\(\)\.parse_value\(packet\)\.raw_value", "raw_enum_value = int(super().parse_value(packet))", "R1.e")
    sub(DEF, "unrecognized packets end the stream", r"(                # Continue to next packet\n                )continue", r"\1return", "R1.e")
    sub(DEF, "parsed packet yielded twice when reporting", r"(                    yield e\n)", r"\1                    yield packet\n", "R1.e")
    sub("xtce/containers.py", "entry list sorted by name at load", r"        return cls\(name=element\.attrib\['name'\],\n                   entry_list=entry_list,", "        return cls(name=element.attrib['name'],\n                   entry_list=sorted(entry_list, key=lambda e: e.name),", "R1.e")
    return out


SPEC = PropSpec(
    pid="C01",
    title="End-to-end decoding conforms to the XTCE document for every stream",
    check=check,
    floors={"R1.e3": 20, "R1.e2": 10, "R1.1": 15, "R1.2": 12, "R1.e": 12},
    fallback={"R1.1": ("R1.e", "R1.e2"), "R1.2": ("R1.e", "R1.e2")},
    explanation=("Skeleton rules that hold for every document and stream: R1.1 the tag->class registry of parameter types and "
                 "the class lists tried for encodings and default calibrators contain every concrete class under its own "
                 "class name (the tag the writer emits); R1.2 every concrete parameter type / encoding resolves "
                 "parse_value to a real decoder; R1.3 Parameter.parse stores the type's result under the parameter's "
                 "name. R1.e end-to-end decision table: the checker's all-features document (every parameter type, "
                 "encoding, calibrator kind, criteria form, nested and inherited containers, all three dynamic-length "
                 "forms) is written, loaded through the XML model and a stream reaching every container - plus packets the "
                 "document does not define - is decoded by interpreting the whole library; each item's name, position, "
                 "value, raw value and class is compared with the checker's independent reference (bit strings, struct, "
                 "its own calibration formulas); undefined packets are skipped or reported in their stream position; "
                 "headers-only mode yields the raw packets. The value-level claim for all documents is the conjunction "
                 "of C03-C08/C14, each decided for its own part."
                 " R1.e2: a second document (two sibling containers that both match, (A or B) and (C or D) criteria, a context calibrator keyed on the parameter's own raw value incl. 0, a step spline queried at its last point, the XTCE 1.1 spelling twosCompliment, a length lookup whose first entry is only partly satisfied) decoded for five packets with and without error reporting."
                 " R1.e3: a third document written by hand as XML text (spellings the library's writer never produces: the `signed` attribute contradicting the encoding, zero-padded literals, a comparison list with two comparisons on one parameter - a range and a contradiction -, time encodings with scale and offset together, contexts of different lengths in document order, a spline with a step, a little-endian termination character) decoded for APIDs 0..2047 against a reference, with and without error reporting."
                 ' The hand-written document is also decoded from prefixed records read in 7-byte chunks (skip_header_bytes x buffer_read_size_bytes), with interleaved segment groups of two APIDs under combining, and after a second definition was assembled from some of its container objects; it contains word-spelled operators at their boundary values, a spline with tied points in both directions, AncillaryDataSet in front of calibrators and an abstract container nothing inherits from.'),
    rule_doc="R1.1 per registry row / listed class; R1.2 per concrete class; R1.e per packet of the stream x reporting option",
    assumptions=["struct (IEEE-754), Python codecs", "the model of lxml used to load the document (spv/xmlmodel.py)"],
    mutants=mutants,
    technique="registry/dispatch table rules over the class hierarchy; end-to-end decision table by abstract interpretation against an independent reference",
)

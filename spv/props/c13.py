"""C13 - primary-header construction and header accessors are exact inverses (DESIGN 5, C13).

Decides, by constant folding and table comparison, that the pack expression, the range checks, the accessor
windows and the framer's length read agree with each other and with the CCSDS 133.0-B primary-header layout.
"""
from __future__ import annotations

import ast
from typing import Dict, Optional, Tuple

from ..astutil import dotted, norm
from ..cfg import CFG
from ..core import Ctx, PropSpec, Unsupported
from ..extract import (body_raises, calls, expand_straightline, flatten_binop, fn_stmts, raises_type, range_guard, resolve_local, returns,
                       single_def, stmt_site, where)
from ..normalize import inline_helpers
from ..roles import bits_name
from ..program import AnchorMissing

# CCSDS 133.0-B-2, 4.1.3: field -> (start bit, width) inside the 48-bit primary header
CCSDS = {
    "version_number": (0, 3),
    "type": (3, 1),
    "secondary_header_flag": (4, 1),
    "apid": (5, 11),
    "sequence_flags": (16, 2),
    "sequence_count": (18, 14),
}
LEN_FIELD = (32, 16)
HEADER_BITS = 48
ORDER = ["version_number", "type", "secondary_header_flag", "apid", "sequence_flags", "sequence_count",
         "data_length"]

PK = "packets.py"


def accessor_table(ctx: Ctx) -> Dict[str, Tuple[Optional[int], Optional[int], ast.AST]]:
    """field -> (start, width, node) from RawPacketData properties that return _extract_bits(self, s, w)."""
    prog = ctx.prog
    ci = prog.cls("RawPacketData")
    out = {}
    for name, fi in ci.methods.items():
        if not fi.is_property:
            continue
        rets = returns(fi)
        if len(rets) != 1 or rets[0].value is None:
            continue
        v = rets[0].value
        if isinstance(v, ast.Call) and (dotted(v.func) or "").split(".")[-1] == bits_name(prog) and len(v.args) == 3:
            if dotted(v.args[0]) != "self":
                continue
            s = prog.fold_opt(v.args[1], PK, cls="RawPacketData")
            w = prog.fold_opt(v.args[2], PK, cls="RawPacketData")
            out[name] = (s, w, v)
    return out


def pack_table(ctx: Ctx):
    """Returns (fi, {field: shift}, length_term_ast or None, to_bytes_call, header_expr)."""
    prog = ctx.prog
    fi = inline_helpers(prog, prog.func(f"{PK}::create_ccsds_packet"))
    tb = None
    for c in calls(fi, attr="to_bytes"):
        tb = c
        break
    if tb is None:
        raise AnchorMissing("no .to_bytes(...) call in create_ccsds_packet")
    recv = resolve_local(fi, tb.func.value)
    if isinstance(recv, ast.Name):          # several definitions: an accumulation `h = a; h = h | b; ...`
        recv0 = recv
        recv = expand_straightline(fi, recv, tb)
        ast.copy_location(recv, tb)
        if isinstance(recv, ast.Name):
            recv = recv0
    terms = flatten_binop(recv, ast.BitOr)
    if len(terms) == 1:
        terms = flatten_binop(recv, ast.Add)
    table, length_term, extras = {}, None, []
    for t in terms:
        name, shift = None, None
        if isinstance(t, ast.BinOp) and isinstance(t.op, ast.LShift):
            name = dotted(t.left)
            shift = prog.fold_opt(t.right, PK)
        elif isinstance(t, ast.BinOp) and isinstance(t.op, ast.Mult):
            for a, b in ((t.left, t.right), (t.right, t.left)):
                k = prog.fold_opt(b, PK)
                if dotted(a) and isinstance(k, int) and k > 0 and (k & (k - 1)) == 0:
                    name, shift = dotted(a), k.bit_length() - 1
        elif isinstance(t, ast.Name):
            name, shift = t.id, 0
        if name is not None and name in fi.params and isinstance(shift, int):
            if name in table:
                extras.append(t)
            table[name] = shift
        elif "len(" in norm(t):
            length_term = t
        else:
            extras.append(t)
    return fi, table, length_term, tb, recv, extras


def check(ctx: Ctx) -> None:
    prog = ctx.prog
    H = prog.fold_opt(prog.cls("RawPacketData").attrs.get("HEADER_LENGTH_BYTES") or ast.Constant(None), PK)
    ctx.decide(H == 6, "R13.header-length", f"{PK}::RawPacketData::HEADER_LENGTH_BYTES",
               "8*H = 48 bits", f"HEADER_LENGTH_BYTES folds to {H!r}, the CCSDS primary header is 6 octets", H=H)

    # ---------------- accessors
    acc = ctx.guard("R13.accessor", f"{PK}::RawPacketData", accessor_table, ctx) or {}
    for f, (rs, rw) in CCSDS.items():
        site = f"{PK}::RawPacketData.{f}"
        if f not in acc:
            ctx.unknown("R13.accessor", site, "no property returning _extract_bits(self, start, width)")
            continue
        s, w, node = acc[f]
        if s is None or w is None:
            ctx.unknown("R13.accessor", site, f"window does not fold: {norm(node)}")
            continue
        ctx.decide((s, w) == (rs, rw), "R13.accessor", site,
                   f"window ({s},{w}) equals the CCSDS layout",
                   f"accessor reads bits [{s},{s + w}) but CCSDS places {f} at [{rs},{rs + rw})",
                   where=f"space_packet_parser/{PK}:{node.lineno}", got=[s, w], expected=[rs, rw])
    # tiling of [0,32)
    if all(f in acc and None not in acc[f][:2] for f in CCSDS):
        wins = sorted((acc[f][0], acc[f][0] + acc[f][1]) for f in CCSDS)
        tiled = wins[0][0] == 0 and wins[-1][1] == 32 and all(a[1] == b[0] for a, b in zip(wins, wins[1:]))
        ctx.decide(tiled, "R13.tiling", f"{PK}::RawPacketData::accessor-windows",
                   "six accessor windows tile bits [0,32) without gap or overlap",
                   f"accessor windows {wins} do not tile [0,32)")

    # data_length accessor: len(self) - H - 1
    try:
        fi_dl = prog.func(f"{PK}::RawPacketData.data_length")
        rets = returns(fi_dl)
        ok = None
        if len(rets) == 1 and rets[0].value is not None:
            from ..affine import AffBuilder, Aff

            def res(e):
                v = prog.fold_opt(e, PK, cls="RawPacketData") if not isinstance(e, ast.Constant) else None
                return Aff.k(v) if isinstance(v, int) and not isinstance(v, bool) else None
            try:
                a = AffBuilder(res).build(rets[0].value)
                want = Aff.atom("len(self)") - Aff.k(7)
                ok = (a == want)
                detail = repr(a)
            except Unsupported as e:
                ok, detail = None, str(e)
        ctx.decide(ok, "R13.data-length", f"{PK}::RawPacketData.data_length",
                   "data_length = len(self) - 6 - 1",
                   f"data_length is {detail}, expected len(self) - 7 (octets of data field minus one)",
                   where=where(fi_dl, rets[0]) if rets else "")
    except AnchorMissing as e:
        ctx.unknown("R13.data-length", f"{PK}::RawPacketData.data_length", str(e))

    # header_values order
    try:
        fi_hv = prog.func(f"{PK}::RawPacketData.header_values")
        rets = returns(fi_hv)
        names = None
        rv = resolve_local(fi_hv, rets[0].value) if len(rets) == 1 and rets[0].value is not None else None
        if isinstance(rv, ast.Call) and rv.args and not rv.keywords and len(rv.args) == 7:
            rv = ast.Tuple(elts=list(rv.args), ctx=ast.Load())        # NamedTuple(...) / tuple-like factory of the seven fields
        if isinstance(rv, ast.Tuple):
            names = [(dotted(e) or "?").replace("self.", "") for e in rv.elts]
        ctx.decide(None if names is None else names == ORDER, "R13.header-values",
                   f"{PK}::RawPacketData.header_values", "seven fields in layout order",
                   f"header_values lists {names}, layout order is {ORDER}")
    except AnchorMissing as e:
        ctx.unknown("R13.header-values", f"{PK}::RawPacketData.header_values", str(e))

    # ---------------- pack expression
    got = ctx.guard("R13.pack", f"{PK}::create_ccsds_packet", pack_table, ctx)
    if got is None:
        return
    fi, table, length_term, tb, recv, extras = got
    for t in extras:
        ctx.note(f"unrecognised term in the header expression: {norm(t)[:60]} (decided by the boundary table R13.w)")
    for f, (rs, rw) in CCSDS.items():
        site = f"{fi.key}::pack::{f}"
        if f not in table:
            ctx.unknown("R13.pack", site, f"field {f} not found as `name << k` in the header expression (shape not recognised; "
                                          f"decided by the boundary table R13.w)", where=where(fi, recv))
            continue
        want = HEADER_BITS - rs - rw
        ctx.decide(table[f] == want, "R13.pack", site,
                   f"shift {table[f]} = 48 - {rs} - {rw}",
                   f"{f} is shifted by {table[f]}, CCSDS layout needs 48 - {rs} - {rw} = {want}",
                   where=where(fi, recv), got=table[f], expected=want)
        if f in acc and None not in acc[f][:2]:
            s, w, _ = acc[f]
            ctx.decide(table[f] == HEADER_BITS - s - w, "R13.pack-vs-accessor", site,
                       "pack shift is the inverse of the accessor window",
                       f"pack shift {table[f]} is not 48 - start - width of accessor window ({s},{w})",
                       where=where(fi, recv))
    # length term: len(data) - 1 at shift 0
    if length_term is None:
        ctx.unknown("R13.length-term", f"{fi.key}::pack::length", "no len(data) term recognised in the header expression",
                    where=where(fi, recv))
    else:
        from ..affine import AffBuilder, Aff
        try:
            a = AffBuilder().build(length_term)
            ok = a == Aff.atom("len(data)") - Aff.k(1)
            ctx.decide(ok, "R13.length-term", f"{fi.key}::pack::length", "length field = len(data) - 1 at shift 0",
                       f"length term is {a!r}; CCSDS 4.1.3.5.3 requires len(data) - 1 in the low 16 bits",
                       where=where(fi, length_term))
        except Unsupported as e:
            ctx.unknown("R13.length-term", f"{fi.key}::pack::length", str(e))
    # to_bytes(H, "big") and result = header + data
    nb = prog.fold_opt(tb.args[0], PK) if tb.args else None
    order = tb.args[1].value if len(tb.args) > 1 and isinstance(tb.args[1], ast.Constant) else \
        (next((k.value.value for k in tb.keywords if k.arg == "byteorder" and isinstance(k.value, ast.Constant)), None))
    ctx.decide(nb == 6 and order == "big", "R13.to-bytes", f"{fi.key}::to_bytes",
               "header serialised as 6 big-endian bytes",
               f"header serialised with to_bytes({nb!r}, {order!r}); needs (6, 'big')", where=where(fi, tb))
    # packet = header_bytes + data ; return RawPacketData(packet)
    rets = returns(fi)
    ok = None
    why = ""
    if len(rets) == 1 and isinstance(rets[0].value, ast.Call) and \
            (dotted(rets[0].value.func) or "").split(".")[-1] == "RawPacketData" and rets[0].value.args:
        pk = resolve_local(fi, rets[0].value.args[0])
        parts = [resolve_local(fi, x) for x in flatten_binop(pk, ast.Add)]
        if len(parts) == 2 and any(n is tb for n in ast.walk(parts[0])) and dotted(parts[1]) == "data":
            ok = True
        elif len(parts) >= 1:
            ok = False
            why = f"returned bytes are {norm(pk)}, expected <6 header bytes> + data"
    ctx.decide(ok, "R13.concat", f"{fi.key}::return", "result is header bytes followed by data", why,
               where=where(fi, rets[0]) if rets else "")

    # ---------------- range checks
    ranges: Dict[str, Tuple[Optional[int], Optional[int], ast.If]] = {}
    cfg = CFG(fi.node)
    dom = cfg.dominators()
    hdr_node = None
    for st in fn_stmts(fi):
        if any(n is tb for n in ast.walk(st)) or any(n is recv for n in ast.walk(st)):
            n = cfg.node_of(st)
            if n is not None and (hdr_node is None or n.id < hdr_node.id):
                hdr_node = n
    for st in fn_stmts(fi):
        if isinstance(st, ast.If) and not st.orelse:
            rg = range_guard(st.test, prog, PK)
            if rg is None:
                continue
            subj, lo, hi = rg
            r = body_raises(st.body)
            if r is None:
                continue
            ranges[subj] = (lo, hi, st)
            exc = raises_type(r)
            ctx.decide(exc == "ValueError", "R13.reject-type", f"{fi.key}::guard::{subj}",
                       "out-of-range values are rejected with ValueError",
                       f"guard on {subj} raises {exc}, the contract is ValueError", where=where(fi, r))
            tnode = cfg.node_of(st.test)
            if hdr_node is not None and tnode is not None:
                ctx.decide(tnode.id in dom.get(hdr_node.id, set()), "R13.reject-dominates",
                           f"{fi.key}::guard::{subj}", "guard dominates the header construction",
                           "range guard does not dominate the header construction (something is built first)",
                           where=where(fi, st))
    for f, (rs, rw) in CCSDS.items():
        site = f"{fi.key}::range::{f}"
        if f not in ranges:
            ctx.unknown("R13.range", site, f"no rejecting range check on {f} recognised before the header is built "
                                           f"(decided by the boundary table R13.w)", where=where(fi, fi.node))
            continue
        lo, hi, st = ranges[f]
        want = (0, 2 ** rw - 1)
        ctx.decide((lo, hi) == want, "R13.range", site, f"accepted range [{lo},{hi}] = [0, 2**{rw}-1]",
                   f"accepted range of {f} is [{lo},{hi}], a {rw}-bit field holds exactly [0,{want[1]}]",
                   where=where(fi, st), got=[lo, hi], expected=list(want))
    site = f"{fi.key}::range::len(data)"
    if "len(data)" not in ranges:
        ctx.unknown("R13.range", site, "no rejecting check on the data length recognised (decided by the boundary table "
                                       "R13.w)", where=where(fi, fi.node))
    else:
        lo, hi, st = ranges["len(data)"]
        ctx.decide((lo, hi) == (1, 65536), "R13.range", site, "data length accepted in [1, 65536] = [0, 2**16-1] + 1",
                   f"data length accepted in [{lo},{hi}]; the 16-bit length field (len-1) needs [1,65536]",
                   where=where(fi, st), got=[lo, hi], expected=[1, 65536])

    # ---------------- framer reads the same length window
    try:
        fg = prog.func(f"{PK}::ccsds_generator")
        hit = None
        for c in calls(fg, bits_name(prog)):
            if len(c.args) == 3:
                s = prog.fold_opt(c.args[1], PK)
                w = prog.fold_opt(c.args[2], PK)
                hit = (s, w, c)
        if hit is None:
            ctx.unknown("R13.framer-length", f"{fg.key}::_extract_bits", "no length read found in the framer")
        else:
            ctx.decide(hit[:2] == LEN_FIELD, "R13.framer-length", f"{fg.key}::_extract_bits",
                       "framer reads the length field at bits [32,48)",
                       f"framer reads length at ({hit[0]},{hit[1]}); the length field is at (32,16)",
                       where=where(fg, hit[2]))
    except AnchorMissing as e:
        ctx.unknown("R13.framer-length", f"{PK}::ccsds_generator", str(e))

    ctx.guard("R13.w", PK, witness_search, ctx, ctx.stats.get("tier") == "thorough")
    # "the framer re-frames it as that single packet ... for every packet the framer yields": the framing table of C02 (every
    # source kind, read sizes, fragmentations, prefix 0/3) applied to packets built here
    from . import framer as F
    ctx.guard("R13.f", F.GEN, F.framing_cases, ctx, "R13.f", truncation=False, level=0)
    # ... also through the definition's generator in header-only mode, with and without a per-record prefix
    from .c10 import definition_level
    ctx.guard("R13.c", "xtce/definitions.py", definition_level, ctx, "R13.c")
    from ..core import REFUTED, UNKNOWN
    if any(o.verdict == REFUTED and o.rule == "R13.w" for o in ctx.obs):
        for o in ctx.obs:
            if o.verdict == UNKNOWN:
                o.verdict, o.rule = "PROVED", o.rule + ".superseded"
                o.why = "superseded by the concrete witness reported under R13.w: " + o.why


# ------------------------------------------------------------------------------------------------ witness search
FIELDS = [("version_number", 3), ("type", 1), ("secondary_header_flag", 1), ("apid", 11), ("sequence_flags", 2),
          ("sequence_count", 14)]


def witness_search(ctx: Ctx, thorough: bool):
    """Interpret constructor, accessors and framer on boundary values (every field at 0/1/max-1/max with all-zero and
    all-max neighbours, pairwise extremes, data lengths around every power-of-two boundary) against the checker's own
    CCSDS packer: turns any unprovable variant into a concrete counterexample and cross-checks the table rules."""
    from ..harness import Harness
    from ..interp import BytesObj, Raised, StepLimit
    from ..models import ccsds_bytes, source_externals
    prog = ctx.prog
    fi = prog.func(f"{PK}::create_ccsds_packet")
    h = Harness(prog, source_externals(), max_steps=2_000_000)
    combos = []
    maxes = {f: 2 ** w - 1 for f, w in FIELDS}
    for base in (0, "max"):
        for f, w in FIELDS:
            for v in sorted({0, 1, maxes[f] - 1 if maxes[f] > 1 else 0, maxes[f]}):
                d = {g: (0 if base == 0 else maxes[g]) for g, _ in FIELDS}
                d[f] = v
                combos.append(d)
    import itertools
    for (f, _), (g, _) in itertools.combinations(FIELDS, 2):
        d = {x: 0 for x, _ in FIELDS}
        d[f], d[g] = maxes[f], maxes[g]
        combos.append(d)
    combos.append({f: (0x5A5A5A & maxes[f]) for f, _ in FIELDS})
    # the identification word and the sequence word hold the same 16-bit value (0x5ABC), and the next packet's identification word
    # equals this packet's sequence word (0x0964)
    combos.append({"version_number": 2, "type": 1, "secondary_header_flag": 1, "apid": 700, "sequence_flags": 1, "sequence_count": 6844})
    combos.append({"version_number": 0, "type": 0, "secondary_header_flag": 0, "apid": 100, "sequence_flags": 0, "sequence_count": 2404})
    combos.append({"version_number": 0, "type": 0, "secondary_header_flag": 1, "apid": 356, "sequence_flags": 3, "sequence_count": 1})
    lens = [1, 2, 3, 255, 256, 257, 32767, 32768, 32769, 65535, 65536]
    site = f"{fi.key}::witness-search"
    bad = None
    n = 0
    try:
        # accessors on buffers too short to hold the field come first (they fail, or read what is there) - and must leave nothing
        # behind that changes what later, well-formed packets give
        for short in (b"", b"\x0c", b"\x0c\x34\x56"):
            for fname, _ in FIELDS:
                h.outcome(f"obj.{fname}", PK, obj=BytesObj(short, cls="RawPacketData"))
        seen = set()
        for d in combos:
            allmax = all(d[f] == maxes[f] for f in d)
            for ln in (lens if (thorough or d is combos[0] or d is combos[-1] or allmax) else [1, 300]):
                key = (tuple(sorted(d.items())), ln)
                if key in seen:
                    continue
                seen.add(key)
                n += 1
                data = bytes((i * 7 + ln) % 256 for i in range(min(ln, 64))) + bytes(max(0, ln - 64))
                kind, pkt = h.outcome("create_ccsds_packet(data, version_number=a, type=b, secondary_header_flag=c, apid=d, "
                                      "sequence_flags=e, sequence_count=f)", PK, data=data, a=d["version_number"], b=d["type"],
                                      c=d["secondary_header_flag"], d=d["apid"], e=d["sequence_flags"], f=d["sequence_count"])
                want = ccsds_bytes(data, version=d["version_number"], type=d["type"], shf=d["secondary_header_flag"],
                                   apid=d["apid"], flags=d["sequence_flags"], count=d["sequence_count"])
                if kind != "ok" or bytes(pkt) != want:
                    bad = (f"create_ccsds_packet({d}, {ln} data bytes): " + (f"raises {pkt}" if kind != "ok" else
                           f"header {bytes(pkt)[:6].hex()}, CCSDS layout gives {want[:6].hex()}"))
                    break
                # the object create_ccsds_packet RETURNS answers like a packet framed from the same bytes
                for acc, wantv in [(fname, d[fname]) for fname, _ in FIELDS] + [("data_length", ln - 1),
                                                                                 ("header_values", tuple(d[f] for f, _ in FIELDS) + (ln - 1,))]:
                    k2, got = h.outcome(f"obj.{acc}", PK, obj=pkt)
                    if k2 != "ok" or (tuple(got) if acc == "header_values" else got) != wantv:
                        bad = f"the packet returned by create_ccsds_packet({d}, {ln} data bytes): {acc} is {got!r}, its bytes say {wantv!r}"
                        break
                if bad:
                    break
                obj = BytesObj(want, cls="RawPacketData")
                for fname, _ in FIELDS:
                    k2, got = h.outcome(f"obj.{fname}", PK, obj=obj)
                    if k2 != "ok" or got != d[fname]:
                        bad = f"accessor {fname} of the packet built from {d} returns {got!r}, expected {d[fname]}"
                        break
                if bad:
                    break
                k2, got = h.outcome("obj.data_length", PK, obj=BytesObj(want, cls="RawPacketData"))
                if k2 != "ok" or got != ln - 1:
                    bad = f"data_length of a packet with {ln} data bytes is {got!r}, expected {ln - 1}"
                    break
                k2, got = h.outcome("obj.header_values", PK, obj=BytesObj(want, cls="RawPacketData"))
                wantv = tuple(d[f] for f, _ in FIELDS) + (ln - 1,)
                if k2 != "ok" or tuple(got) != wantv:
                    bad = f"header_values of the packet built from {d} with {ln} data bytes is {got!r}, expected {wantv}"
                    break
                k2, got = h.outcome("ccsds_generator(src)", PK, src=want)
                if k2 != "ok" or [bytes(x) for x in got] != [want]:
                    bad = (f"the framer does not re-frame the packet built from {d} with {ln} data bytes as that single packet: "
                           f"{'raises ' + str(got) if k2 != 'ok' else str(len(got)) + ' packets'}")
                    break
            if bad:
                break
        # rejects
        if not bad:
            for fname, w in FIELDS:
                for v in (-1, 2 ** w):
                    kw = {f: 0 for f, _ in FIELDS}
                    kw[fname] = v
                    kind, got = h.outcome("create_ccsds_packet(b'x', version_number=a, type=b, secondary_header_flag=c, apid=d, "
                                          "sequence_flags=e, sequence_count=f)", PK, a=kw["version_number"], b=kw["type"],
                                          c=kw["secondary_header_flag"], d=kw["apid"], e=kw["sequence_flags"], f=kw["sequence_count"])
                    if not (kind == "raise" and got == "ValueError"):
                        bad = f"{fname}={v} is {'accepted' if kind == 'ok' else 'rejected with ' + str(got)}; must be rejected with ValueError"
            for ln in (0, 65537):
                kind, got = h.outcome("create_ccsds_packet(data)", PK, data=bytes(ln))
                if not (kind == "raise" and got == "ValueError"):
                    bad = f"{ln} data bytes are {'accepted' if kind == 'ok' else 'rejected with ' + str(got)}; must be rejected with ValueError"
            # out-of-range values stay rejected whatever the other fields are (an oversized length must not hide in the bits of a
            # neighbouring field that are already set; a negative field must not be cancelled by another one)
            for ln, kw in ((65537, {"sequence_count": 1}), (65537, {"sequence_count": 16383, "apid": 2047, "sequence_flags": 3}),
                           (131073, {"sequence_count": 3}), (65536 + 2 ** 16, {"sequence_count": 16383}), (0, {"sequence_count": 16383})):
                args = ", ".join(f"{k}={v}" for k, v in kw.items())
                kind, got = h.outcome(f"create_ccsds_packet(data, {args})", PK, data=bytes(ln))
                if not (kind == "raise" and got == "ValueError"):
                    bad = (f"{ln} data bytes with {args} are {'accepted' if kind == 'ok' else 'rejected with ' + str(got)}; "
                           f"must be rejected with ValueError")
            for kw in ({"apid": 2048, "sequence_count": 16383}, {"sequence_count": 16384, "sequence_flags": 3}, {"version_number": 8, "type": 1},
                       {"sequence_flags": 4, "apid": 2047}, {"type": 2, "version_number": 7}, {"secondary_header_flag": 2, "type": 1}):
                args = ", ".join(f"{k}={v}" for k, v in kw.items())
                kind, got = h.outcome(f"create_ccsds_packet(b'xy', {args})", PK)
                if not (kind == "raise" and got == "ValueError"):
                    bad = f"{args} is {'accepted' if kind == 'ok' else 'rejected with ' + str(got)}; must be rejected with ValueError"
    except StepLimit as e:
        # one packet of at most 65542 bytes: a clean framer needs a few hundred interpreter steps (slices are native)
        bad = (f"constructing / re-framing a single packet ({n} cases in) does not finish within {h.it.max_steps} interpreter steps "
               f"({e}): the framer no longer re-frames the packet as that single packet")
    except Unsupported as e:
        ctx.unknown("R13.w", site, str(e))
        return
    ctx.stats["witness_cases"] = n
    ctx.decide(bad is None, "R13.w", site, f"{n} boundary cases agree with the CCSDS packer", bad or "", where=where(fi, fi.node))


def mutants(prog):
    """One-instance-broken variants of the current packets.py (in memory)."""
    import re
    src = prog.files[PK]
    out = []

    def sub(name, pattern, repl, expect, count=1):
        new, n = re.subn(pattern, repl, src, count=count)
        if n:
            out.append((name, PK, new, expect))

    for f, k in (("version_number", 3), ("type", 4), ("secondary_header_flag", 5), ("apid", 16),
                 ("sequence_flags", 18), ("sequence_count", 32)):
        sub(f"pack shift of {f} +1", rf"({f} << 48 - ){k}\b", rf"\g<1>{k - 1}", "R13.pack")
        sub(f"pack shift of {f} -1", rf"({f} << 48 - ){k}\b", rf"\g<1>{k + 1}", "R13.pack")
    for f, hi in (("version_number", 7), ("type", 1), ("secondary_header_flag", 1), ("apid", 2047),
                  ("sequence_flags", 3), ("sequence_count", 16383)):
        sub(f"upper bound of {f} +1", rf"({f} > ){hi}\b", rf"\g<1>{hi + 1}", "R13.range")
        sub(f"lower bound of {f} -1", rf"({f} < )0\b", r"\g<1>-1", "R13.range")
    sub("data length upper bound", r"(len\(data\) > )65536", r"\g<1>65537", "R13.range")
    sub("data length lower bound", r"(len\(data\) < )1\b", r"\g<1>0", "R13.range")
    sub("length term without -1", r"\| len\(data\) - 1\)", "| len(data))", "R13.length-term")
    for f, (s, w) in CCSDS.items():
        sub(f"accessor {f} start+1", rf"(_extract_bits\(self, ){s}, {w}\)", rf"\g<1>{s + 1}, {w})", "R13.accessor")
        sub(f"accessor {f} width+1", rf"(_extract_bits\(self, ){s}, {w}\)", rf"\g<1>{s}, {w + 1})", "R13.accessor")
    sub("data_length off by one", r"(HEADER_LENGTH_BYTES - )1\n", r"\g<1>2\n", "R13.data-length")
    sub("framer length window", r"_extract_bits\(header_bytes, 32, 16\)", "_extract_bits(header_bytes, 32, 15)",
        "R13.framer-length")
    sub("little-endian header", r'HEADER_LENGTH_BYTES, "big"\)', 'HEADER_LENGTH_BYTES, "little")', "R13.to-bytes")
    sub("ValueError -> TypeError", r'raise ValueError\("apid must', 'raise TypeError("apid must', "R13.reject-type")
    return out


SPEC = PropSpec(
    pid="C13",
    title="Primary-header construction and header accessors are exact inverses",
    check=check,
    floors={"R13.accessor": 6, "R13.pack": 6, "R13.range": 7, "R13.reject-type": 7, "R13.length-term": 1,
            "R13.framer-length": 1, "R13.to-bytes": 1, "R13.concat": 1, "R13.w": 1, "R13.f": 10, "R13.c": 6},
    fallback={r: ("R13.w",) for r in ("R13.pack", "R13.range", "R13.concat", "R13.length-term", "R13.to-bytes",
                                      "R13.reject-type", "R13.reject-dominates", "R13.framer-length", "R13.header-values",
                                      "R13.accessor", "R13.tiling", "R13.data-length", "R13.pack-vs-accessor")},
    explanation=("Table agreement by constant folding: the 48-bit OR-tree of create_ccsds_packet (field -> shift), "
                 "its rejecting range checks (field -> accepted closed range), the RawPacketData accessor windows "
                 "(field -> start,width), data_length, header_values and the framer's length read are extracted from "
                 "the AST and compared with each other and with the CCSDS 133.0-B primary-header layout, row by row. "
                 "Decides the layout/inverse statement for every field value at once (shifts and windows are "
                 "value-independent); relies on C03 for what _extract_bits returns and on C02 for re-framing."
                 ' R13.f: the framing table of C02 (all source kinds, read sizes, fragmentations, prefix) on constructed packets; a step limit on a single packet counts as a refutation.'
                 ' R13.c: constructed packets through the definition-level generator in header-only mode (prefix, combining, flags); R13.w crosses out-of-range arguments with the other fields.'),
    rule_doc=("one obligation per (rule, field): R13.pack shift = 48-start-width; R13.range = [0,2**width-1]; "
              "R13.accessor window = CCSDS window; R13.tiling; R13.length-term = len(data)-1; data range [1,65536]; "
              "R13.to-bytes (6,'big'); R13.concat header+data; R13.reject-type ValueError; R13.reject-dominates; "
              "R13.framer-length window (32,16). Distinct = distinct (rule, site)."),
    assumptions=["CPython int <<, |, int.to_bytes semantics", "CCSDS 133.0-B-2 primary header layout 3,1,1,11,2,14,16",
                 "_extract_bits(d,s,n) returns bits [s,s+n) (decided by C03)"],
    mutants=mutants,
    technique="constant folding and table comparison against the CCSDS 133.0-B layout; boundary witness search by abstract interpretation",
)

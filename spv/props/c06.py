"""C06 - match criteria evaluate to the mathematical truth of their comparisons (DESIGN 5, C06).

Structural: the operator table (every accepted spelling -> the relation it denotes); value-taint rule: no
truthiness test on a packet value inside the evaluators.
Model evaluation (abstract interpreter on the source of the evaluators, model packets/values built by the checker):
Comparison / Condition over every spelling x value kind x boundary values (0, negative, false, empty, int-vs-float),
both value selectors; BooleanExpression truth tables for all AND/OR trees up to a size bound; DiscreteLookup.
"""
from __future__ import annotations

import ast
import itertools
import operator

from ..astutil import dotted, norm, walk_local
from ..core import Ctx, PropSpec, Unsupported
from ..extract import where
from ..harness import Harness, cursor
from ..interp import pub, Raised

CMP = "xtce/comparisons.py"
REL = {"__eq__": operator.eq, "__ne__": operator.ne, "__lt__": operator.lt, "__gt__": operator.gt,
       "__le__": operator.le, "__ge__": operator.ge}
SPELLINGS = {
    "==": "__eq__", "eq": "__eq__", "!=": "__ne__", "neq": "__ne__",
    "<": "__lt__", "lt": "__lt__", "&lt;": "__lt__", ">": "__gt__", "gt": "__gt__", "&gt;": "__gt__",
    "<=": "__le__", "leq": "__le__", "&lt;=": "__le__", ">=": "__ge__", "geq": "__ge__", "&gt;=": "__ge__",
}
KINDS = {
    # integers beyond 2**53 are compared exactly (no detour through a double)
    "Int": ([0, 1, -1, 5, 2 ** 53 + 1, 2 ** 64 - 1], ["0", "1", "-1", "5", "3", "9007199254740993", "9007199254740992", "18446744073709551615"], int),
    "Float": ([0.0, 2.5, -1.5, 3.0, 0.30000000000000004, 4000000001.0], ["0", "2.5", "-1.5", "3", "0.3", "4000000000"], float),
    # labels that look like booleans / numbers and blank-padded fixed-width literals are ordinary strings
    "Str": (["", "a", "b", "TRUE", "false", "1", "ON  ", " ON"], ["", "a", "b", "TRUE", "False", "1", "0", "ON  ", "ON", " ON"], str),
    "Bool": ([0, 1], ["0", "1"], int),
}


def _other(kind, v):
    """A raw value of the same kind that differs from v (so that a wrong selector is visible)."""
    if kind in ("Int", "Bool"):
        return v + 7
    if kind == "Float":
        return v + 0.25
    return v + "z"


def table(ctx: Ctx, h: Harness):
    prog = ctx.prog
    ci = prog.cls("MatchCriteria")
    tname = "_valid_operators"
    if tname not in ci.attrs:       # renamed: the class-level dict literal that has the XTCE spelling "==" among its keys
        tname = next((k for k, v in ci.attrs.items() if isinstance(v, ast.Dict) and
                      any(isinstance(x, ast.Constant) and x.value == "==" for x in v.keys)), None)
    if tname is None:
        ctx.unknown("R6.1", f"{CMP}::MatchCriteria::_valid_operators", "operator table not found")
        return None
    try:
        tab = h.it._eval_class_attr(ci, ci.attrs[tname])
    except (Unsupported, Raised) as e:
        ctx.unknown("R6.1", f"{CMP}::MatchCriteria::_valid_operators", f"table does not evaluate: {e}")
        return None
    if not isinstance(tab, dict):
        ctx.unknown("R6.1", f"{CMP}::MatchCriteria::_valid_operators", "operator table is not a dict")
        return None
    node = ci.attrs[tname]

    def relation_of(v):
        """The relation a table value denotes, however it is spelled ('__le__', 'le', operator.le, ...)."""
        if isinstance(v, str):
            k = v.strip("_")
            return {"eq": "__eq__", "ne": "__ne__", "lt": "__lt__", "gt": "__gt__", "le": "__le__", "ge": "__ge__"}.get(k)
        for name, f in REL.items():
            if v is f:
                return name
        return None
    for sp, want in SPELLINGS.items():
        site = f"{CMP}::MatchCriteria::_valid_operators[{sp!r}]"
        if sp not in tab:
            ctx.refuted("R6.1", site, f"spelling {sp!r} is no longer accepted", where=f"space_packet_parser/{CMP}:{node.lineno}")
            continue
        rel = relation_of(tab[sp])
        if rel is None:
            ctx.unknown("R6.1", site, f"table value {tab[sp]!r} is not a recognisable relation (decided by the R6.cmp/R6.cond tables only)")
        else:
            ctx.decide(rel == want, "R6.1", site, f"{sp!r} -> {want}",
                       f"spelling {sp!r} is mapped to {tab[sp]!r}; it denotes {want}",
                       where=f"space_packet_parser/{CMP}:{node.lineno}", got=str(tab[sp]), expected=want)
    for sp in tab:
        if sp not in SPELLINGS:
            ctx.note(f"extra operator spelling {sp!r} -> {tab[sp]!r}")
    return tab


def _truth(x):
    return x is True or x is False


REPS = ["==", "neq", "&lt;", "gt", "leq", "&gt;="]   # one spelling per relation (quick tier); R6.1 ties the rest


def _spellings(ctx):
    if ctx.stats.get("tier") == "thorough":
        return list(SPELLINGS.items())
    return [(s, SPELLINGS[s]) for s in REPS]


def comparison_cases(ctx: Ctx, h: Harness):
    fi = ctx.prog.func(f"{CMP}::Comparison.evaluate")
    # value and raw value of DIFFERENT kinds (an enumerated item: label 'ON', raw 1; a calibrated integer: 20.5, raw 3): the
    # literal is interpreted in the type of the value that was SELECTED
    site = f"{fi.key}::value and raw value of different kinds"
    try:
        bad = None
        for kind, v, raw, lit, usecal, sp, want in (("Str", "ON", 1, "1", False, "==", True), ("Str", "ON", 1, "1", False, "!=", False),
                                                    ("Str", "ON", 1, "2", False, "<", True), ("Str", "ON", 1, "ON", True, "==", True),
                                                    ("Str", "ON", 1, "0", False, ">", True), ("Float", 20.5, 3, "3", False, "==", True),
                                                    ("Float", 20.5, 3, "10", True, ">", True), ("Float", 20.5, 3, "10", False, ">", False)):
            pkt = h.packet(b"", {"P": h.val(kind, v, raw)})
            k, got = h.outcome("Comparison(lit, 'P', operator=sp, use_calibrated_value=uc).evaluate(pkt)", CMP, lit=lit, sp=sp, uc=usecal, pkt=pkt)
            if k != "ok" or not _truth(got) or got != want:
                bad = (f"P = {v!r} with raw value {raw!r}: Comparison(P {sp} {lit!r}, use_calibrated_value={usecal}) gives {got!r}"
                       f"{' (raised)' if k != 'ok' else ''}; the relation on the {'calibrated' if usecal else 'raw'} value is {want}")
                break
        ctx.decide(bad is None, "R6.cmp", site, "", bad or "", where=where(fi, fi.node))
    except Unsupported as e:
        ctx.unknown("R6.cmp", site, str(e))
    for kind, (vals, lits, conv) in KINDS.items():
        for sp, dun in _spellings(ctx):
            site = f"{fi.key}::{kind}::{sp}"
            bad = None
            n = 0
            try:
                for v, lit, usecal in itertools.product(vals, lits, (True, False)):
                    raw = _other(kind, v)
                    pkt = h.packet(b"", {"P": h.val(kind, v, raw)})
                    n += 1
                    kind_, got = h.outcome("Comparison(lit, 'P', operator=sp, use_calibrated_value=uc).evaluate(pkt)", CMP,
                                           lit=lit, sp=sp, uc=usecal, pkt=pkt)
                    subject = v if usecal else raw
                    want = REL[dun](subject, conv(lit))
                    if kind_ != "ok" or not _truth(got) or got != want:
                        bad = (f"Comparison(P {sp} {lit!r}, use_calibrated_value={usecal}) with P={v!r} (raw {raw!r}) "
                               f"gives {got!r}{' (raised)' if kind_ != 'ok' else ''}; the relation is {want}")
                        break
            except Unsupported as e:
                ctx.unknown("R6.cmp", site, str(e))
                continue
            ctx.decide(bad is None, "R6.cmp", site, f"{n} cases", bad or "", where=where(fi, fi.node), cases=n)
    # comparison against the value currently being parsed (context calibrator criteria)
    site = f"{fi.key}::current-value"
    try:
        bad = None
        for v, lit, sp in itertools.product([0, 3, -2], ["0", "3"], ["==", "!=", "<", ">="]):
            pkt = h.packet(b"", {})
            k, got = h.outcome("Comparison(lit, 'SELF', operator=sp, use_calibrated_value=False).evaluate(pkt, cur)", CMP,
                               lit=lit, sp=sp, pkt=pkt, cur=v)
            want = REL[SPELLINGS[sp]](v, int(lit))
            if k != "ok" or got is not want:
                bad = f"comparison of the current raw value {v} {sp} {lit!r} gives {got!r}, expected {want}"
                break
        ctx.decide(bad is None, "R6.cmp", site, "", bad or "", where=where(fi, fi.node))
    except Unsupported as e:
        ctx.unknown("R6.cmp", site, str(e))


def declared_cases(ctx: Ctx):
    """R6.xml: criteria as declared in a document - the literal is the attribute / element text as written (blank padding is
    part of a string literal; boolean-looking labels stay labels)."""
    from ..xmlmodel import make_elem
    from . import xmlcommon as X
    fi = ctx.prog.func(f"{CMP}::Comparison.evaluate")
    site = f"{CMP}::Comparison.from_xml::string literals as written"
    try:
        hx = X.harness(ctx.prog)
        X.set_ns_state(hx, None, {})
        bad = None
        for lit in ("ON  ", " ON", "ON", "TRUE", "false", "1", ""):
            for v in ("ON  ", " ON", "ON", "TRUE", "false", "1", "0", ""):
                for op in ("==", "!="):
                    el = make_elem("Comparison", {"parameterRef": "P", "value": lit, "comparisonOperator": op})
                    pkt = hx.packet(b"", {"P": hx.val("Str", v, v.encode())})
                    k, got = hx.outcome("comparisons.Comparison.from_xml(el).evaluate(pkt)", "xtce/encodings.py", el=el, pkt=pkt)
                    want = (v == lit) if op == "==" else (v != lit)
                    if k != "ok" or got is not want:
                        bad = f"<Comparison parameterRef=P value={lit!r} comparisonOperator={op!r}> with P={v!r}: {got!r}; the relation is {want}"
                        break
                    cel = make_elem("Condition", children=[make_elem("ParameterInstanceRef", {"parameterRef": "P"}),
                                                            make_elem("ComparisonOperator", text=op), make_elem("Value", text=lit)])
                    k, got = hx.outcome("comparisons.Condition.from_xml(el).evaluate(pkt)", "xtce/encodings.py", el=cel, pkt=pkt)
                    if lit != "" and (k != "ok" or got is not want):
                        bad = f"<Condition> P {op} <Value>{lit!r}</Value> with P={v!r}: {got!r}{' (raised)' if k != 'ok' else ''}; the relation is {want}"
                        break
                if bad:
                    break
            if bad:
                break
        ctx.decide(bad is None, "R6.xml", site, "", bad or "", where=where(fi, fi.node))
    except (Unsupported, Raised) as e:
        ctx.unknown("R6.xml", site, str(e))


    # the selector attribute is an xs:boolean: true | false | 1 | 0 (and absent = true)
    site = f"{CMP}::Comparison.from_xml::useCalibratedValue spellings"
    try:
        hx = X.harness(ctx.prog)
        X.set_ns_state(hx, None, {})
        bad = None
        pkt = hx.packet(b"", {"P": hx.val("Float", 20.0, 7)})          # calibrated 20.0, raw 7
        for attr, cal in ((None, True), ("true", True), ("false", False), ("1", True), ("0", False)):
            a = {"parameterRef": "P", "value": "7", "comparisonOperator": "=="}
            if attr is not None:
                a["useCalibratedValue"] = attr
            k, got = hx.outcome("comparisons.Comparison.from_xml(el).evaluate(pkt)", "xtce/encodings.py", el=make_elem("Comparison", a), pkt=pkt)
            want = not cal
            if k != "ok" or got is not want:
                bad = (f"<Comparison parameterRef=P value=7 useCalibratedValue={attr!r}> with P calibrated 20.0 / raw 7: {got!r}; the document selects the "
                       f"{'calibrated' if cal else 'raw'} value, so the relation is {want}")
                break
            ref = {"parameterRef": "P"}
            if attr is not None:
                ref["useCalibratedValue"] = attr
            cel = make_elem("Condition", children=[make_elem("ParameterInstanceRef", ref), make_elem("ComparisonOperator", text="=="),
                                                    make_elem("Value", text="7")])
            k, got = hx.outcome("comparisons.Condition.from_xml(el).evaluate(pkt)", "xtce/encodings.py", el=cel, pkt=pkt)
            if k != "ok" or got is not want:
                bad = (f"<Condition> with <ParameterInstanceRef parameterRef=P useCalibratedValue={attr!r}> == 7, P calibrated 20.0 / raw 7: {got!r}"
                       f"{' (raised)' if k != 'ok' else ''}; the relation is {want}")
                break
        ctx.decide(bad is None, "R6.xml", site, "", bad or "", where=where(fi, fi.node))
    except (Unsupported, Raised) as e:
        ctx.unknown("R6.xml", site, str(e))


def condition_cases(ctx: Ctx, h: Harness):
    fi = ctx.prog.func(f"{CMP}::Condition.evaluate")
    pairs = [("Int", "Int"), ("Int", "Float"), ("Float", "Int"), ("Float", "Float"), ("Str", "Str"), ("Bool", "Int")]
    for (lk, rk) in pairs:
        for sp, dun in _spellings(ctx):
            site = f"{fi.key}::{lk}-vs-{rk}::{sp}"
            bad = None
            n = 0
            try:
                lvals = KINDS[lk][0]
                rvals = KINDS[rk][0]
                for lv, rv, lcal, rcal in itertools.product(lvals, rvals, (True, False), (True, False)):
                    lraw, rraw = _other(lk, lv), _other(rk, rv)
                    pkt = h.packet(b"", {"L": h.val(lk, lv, lraw), "R": h.val(rk, rv, rraw)})
                    n += 1
                    k, got = h.outcome("Condition('L', sp, right_param='R', left_use_calibrated_value=lc, "
                                       "right_use_calibrated_value=rc).evaluate(pkt)", CMP, sp=sp, lc=lcal, rc=rcal, pkt=pkt)
                    want = REL[dun](lv if lcal else lraw, rv if rcal else rraw)
                    if k != "ok" or not _truth(got) or got != want:
                        bad = (f"Condition(L {sp} R) with L={lv!r}/raw {lraw!r} ({lk}, calibrated={lcal}) and "
                               f"R={rv!r}/raw {rraw!r} ({rk}, calibrated={rcal}) gives {got!r}"
                               f"{' (raised)' if k != 'ok' else ''}; the relation is {want}")
                        break
            except Unsupported as e:
                ctx.unknown("R6.cond", site, str(e))
                continue
            ctx.decide(bad is None, "R6.cond", site, f"{n} cases", bad or "", where=where(fi, fi.node), cases=n)
    # fixed right-hand value
    for lk in ("Int", "Float", "Str"):
        vals, lits, conv = KINDS[lk]
        for sp, dun in _spellings(ctx):
            site = f"{fi.key}::{lk}-vs-literal::{sp}"
            bad = None
            try:
                for lv, lit, lcal in itertools.product(vals, lits, (True, False)):
                    if lit == "":
                        continue   # Condition treats an empty literal as absent (constructor contract)
                    lraw = _other(lk, lv)
                    pkt = h.packet(b"", {"L": h.val(lk, lv, lraw)})
                    k, got = h.outcome("Condition('L', sp, right_value=lit, left_use_calibrated_value=lc, "
                                       "right_use_calibrated_value=False).evaluate(pkt)", CMP, sp=sp, lit=lit, lc=lcal, pkt=pkt)
                    want = REL[dun](lv if lcal else lraw, conv(lit))
                    if k != "ok" or not _truth(got) or got != want:
                        bad = (f"Condition(L {sp} {lit!r}) with L={lv!r}/raw {lraw!r} (calibrated={lcal}) gives {got!r}"
                               f"{' (raised)' if k != 'ok' else ''}; the relation is {want}")
                        break
            except Unsupported as e:
                ctx.unknown("R6.cond", site, str(e))
                continue
            ctx.decide(bad is None, "R6.cond", site, "", bad or "", where=where(fi, fi.node))
    # fixed right-hand value given as an object (the constructor takes Any): interpreted in the type of the left value
    OBJ_LITS = {"Int": [2.0, True, 0, -1, 5], "Float": [3, 2.5, 0, True, 0.30000000000000004], "Str": [1, 2.5]}
    for lk in ("Int", "Float", "Str"):
        vals, _lits, conv = KINDS[lk]
        for sp, dun in _spellings(ctx)[:6] if len(_spellings(ctx)) > 6 else _spellings(ctx):
            site = f"{fi.key}::{lk}-vs-literal object::{sp}"
            bad = None
            try:
                for lv, lit, lcal in itertools.product(vals, OBJ_LITS[lk], (True, False)):
                    lraw = _other(lk, lv)
                    pkt = h.packet(b"", {"L": h.val(lk, lv, lraw)})
                    k, got = h.outcome("Condition('L', sp, right_value=lit, left_use_calibrated_value=lc, "
                                       "right_use_calibrated_value=False).evaluate(pkt)", CMP, sp=sp, lit=lit, lc=lcal, pkt=pkt)
                    want = REL[dun](lv if lcal else lraw, conv(lit))
                    if k != "ok" or not _truth(got) or got != want:
                        bad = (f"Condition(L {sp} {lit!r}) (literal given as {type(lit).__name__}) with L={lv!r}/raw {lraw!r} (calibrated={lcal}) gives {got!r}"
                               f"{' (raised)' if k != 'ok' else ''}; the relation is {want}")
                        break
            except Unsupported as e:
                ctx.unknown("R6.cond", site, str(e))
                continue
            ctx.decide(bad is None, "R6.cond", site, "", bad or "", where=where(fi, fi.node))


# ---- boolean expression trees: ('and'|'or', n_leaves, [subtrees])
def trees(depth: int, maxgroups: int):
    if depth == 1:
        return [(k, n, []) for k in ("and", "or") for n in (0, 1, 2)]
    sub = trees(depth - 1, maxgroups)
    out = []
    for k in ("and", "or"):
        opp = [t for t in sub if t[0] != k]
        for n in (0, 1, 2):
            out.append((k, n, []))
            for g in range(1, maxgroups + 1):
                for combo in itertools.combinations_with_replacement(range(len(opp)), g):
                    out.append((k, n, [opp[i] for i in combo]))
    return out


def n_leaves(t):
    return t[1] + sum(n_leaves(s) for s in t[2])


def build_src(t, counter):
    k, n, subs = t
    conds = []
    for _ in range(n):
        i = next(counter)
        conds.append(f"Condition('V{i}', '==', right_value='1', right_use_calibrated_value=False)")
    groups = [build_src(s, counter) for s in subs]
    cls = "Anded" if k == "and" else "Ored"
    return f"{cls}([{', '.join(conds)}], [{', '.join(groups)}])"


def ref_eval(t, vals, counter):
    k, n, subs = t
    res = []
    for _ in range(n):
        res.append(vals[next(counter)])
    for s in subs:
        res.append(ref_eval(s, vals, counter))
    return all(res) if k == "and" else any(res)


def show_tree(t, counter):
    k, n, subs = t
    parts = [f"V{next(counter)}" for _ in range(n)] + [show_tree(s, counter) for s in subs]
    return f"{'AND' if k == 'and' else 'OR'}({', '.join(parts)})"


def boolean_cases(ctx: Ctx, h: Harness, thorough: bool):
    fi = ctx.prog.func(f"{CMP}::BooleanExpression.evaluate")
    # a group is decided by its first deciding member, in document order: a later member that names a parameter the packet does
    # not (yet) hold is not consulted (a disjunction that already holds, a conjunction that already fails)
    cA = "Condition('A', '==', right_value='1', right_use_calibrated_value=False)"
    cX = "Condition('ABSENT', '>', right_value='5', right_use_calibrated_value=False)"
    for label, src, a, want in (("A or ABSENT with A true", f"BooleanExpression(Ored([{cA}, {cX}], []))", 1, True),
                                ("A and ABSENT with A false", f"BooleanExpression(Anded([{cA}, {cX}], []))", 0, False),
                                ("A or (ABSENT and A) with A true", f"BooleanExpression(Ored([{cA}], [Anded([{cX}, {cA}], [])]))", 1, True)):
        site = f"{fi.key}::short-circuit::{label}"
        try:
            k, got = h.outcome(f"{src}.evaluate(pkt)", CMP, pkt=h.packet(b"", {"A": h.val("Int", a, a)}))
            ctx.decide(k == "ok" and got is want, "R6.bool", site, "", f"{label}: {'raises ' + str(got) if k != 'ok' else repr(got)}; the expression is "
                       f"{want} whatever the absent parameter would be, and the library evaluates members in order", where=where(fi, fi.node))
        except Unsupported as e:
            ctx.unknown("R6.bool", site, str(e))
    ts = trees(2, 2)
    # depth 3: one nested chain per shape plus all depth-3 trees with a single nested group
    d2 = trees(2, 1)
    for k in ("and", "or"):
        for n in (0, 1):
            for s in d2:
                if s[0] != k and s[2]:
                    ts.append((k, n, [s]))
    if thorough:
        ts = trees(3, 2)
    seen = set()
    total = 0
    for t in ts:
        nl = n_leaves(t)
        if nl > (7 if thorough else 6) or repr(t) in seen:
            continue
        seen.add(repr(t))
        shape = show_tree(t, itertools.count())
        site = f"{fi.key}::tree::{shape}"
        src = f"BooleanExpression({build_src(t, itertools.count())}).evaluate(pkt)"
        bad = None
        try:
            for bits in itertools.product((0, 1), repeat=nl):
                pkt = h.packet(b"", {f"V{i}": h.val("Int", b) for i, b in enumerate(bits)})
                total += 1
                k, got = h.outcome(src, CMP, pkt=pkt)
                want = ref_eval(t, [bool(b) for b in bits], itertools.count())
                if k != "ok" or not _truth(got) or got != want:
                    bad = (f"{shape} under assignment {dict((f'V{i}', b) for i, b in enumerate(bits))} evaluates to "
                           f"{got!r}{' (raised)' if k != 'ok' else ''}; its truth value is {want}")
                    break
        except Unsupported as e:
            ctx.unknown("R6.bool", site, str(e))
            continue
        ctx.decide(bad is None, "R6.bool", site, f"all {2 ** nl} assignments", bad or "", where=where(fi, fi.node))
    # a single Condition as the whole expression
    try:
        bad = None
        for b in (0, 1):
            pkt = h.packet(b"", {"V0": h.val("Int", b)})
            k, got = h.outcome("BooleanExpression(Condition('V0', '==', right_value='1', "
                               "right_use_calibrated_value=False)).evaluate(pkt)", CMP, pkt=pkt)
            if k != "ok" or got is not bool(b):
                bad = f"BooleanExpression(Condition V0==1) with V0={b} gives {got!r}"
        ctx.decide(bad is None, "R6.bool", f"{fi.key}::tree::Condition", "", bad or "", where=where(fi, fi.node))
    except Unsupported as e:
        ctx.unknown("R6.bool", f"{fi.key}::tree::Condition", str(e))
    # mixed int/float leaves inside a fold (NotImplemented must not leak into the folds)
    try:
        bad = None
        for kind, expect in (("Anded", False), ("Ored", True)):
            pkt = h.packet(b"", {"I": h.val("Int", 3), "F": h.val("Float", 3.0 if kind == "Ored" else 4.0)})
            op = "==" if kind == "Ored" else "=="
            k, got = h.outcome(f"BooleanExpression({kind}([Condition('I', '==', right_param='F')], [])).evaluate(pkt)",
                               CMP, pkt=pkt)
            if k != "ok" or got is not expect:
                bad = f"{kind}([I == F]) with I=3 (int) and F={pkt['F']!r} (float) gives {got!r}, expected {expect}"
        ctx.decide(bad is None, "R6.bool", f"{fi.key}::int-vs-float-leaf", "", bad or "", where=where(fi, fi.node))
    except Unsupported as e:
        ctx.unknown("R6.bool", f"{fi.key}::int-vs-float-leaf", str(e))
    ctx.stats["boolean_assignments"] = total


def lookup_cases(ctx: Ctx, h: Harness):
    fi = ctx.prog.func(f"{CMP}::DiscreteLookup.evaluate")
    site = f"{fi.key}::first-match"
    try:
        bad = None
        for ncrit in (0, 1, 2):
            for bits in itertools.product((0, 1), repeat=ncrit):
                for lv in (0, 0.0, 5.0, 16):
                    pkt = h.packet(b"", {f"V{i}": h.val("Int", b) for i, b in enumerate(bits)})
                    crit = ", ".join(f"Comparison('1', 'V{i}')" for i in range(ncrit))
                    k, got = h.outcome(f"DiscreteLookup([{crit}], lv).evaluate(pkt)", CMP, pkt=pkt, lv=lv)
                    want = lv if all(bits) else None
                    same = (got is None and want is None) or (got is not None and want is not None and got == want
                                                             and type(got) is type(want))
                    if k != "ok" or not same:
                        bad = (f"DiscreteLookup with criteria values {bits} and lookup value {lv!r} returns {got!r}, "
                               f"expected {want!r}")
        ctx.decide(bad is None, "R6.lookup", site, "", bad or "", where=where(fi, fi.node))
    except Unsupported as e:
        ctx.unknown("R6.lookup", site, str(e))


def consumers(ctx: Ctx, h: Harness):
    """The consumers of a lookup list take the FIRST entry whose criteria hold, whatever its value (0 included)."""
    ENC = "xtce/encodings.py"
    for cls, arg in (("StringDataEncoding", "discrete_lookup_length"), ("BinaryDataEncoding", "size_discrete_lookup_list")):
        fi = ctx.prog.func_opt(f"{ENC}::{cls}._calculate_size") or ctx.prog.resolve_method(cls, "parse_value")
        if fi is None:
            ctx.unknown("R6.consumer", f"{ENC}::{cls}", "no parse_value")
            continue
        site = f"{ENC}::{cls}._calculate_size::first-match"
        try:
            bad = None
            for vals, m, want in (([0, 16], [1, 1], 0), ([8, 16], [0, 1], 16), ([8, 0, 24], [0, 1, 1], 0), ([5, 6], [1, 1], 5)):
                lk = ", ".join(f"comparisons.DiscreteLookup([comparisons.Comparison('{mm}', 'ONE')], {v})" for v, mm in zip(vals, m))
                if ctx.prog.resolve_method(cls, "_calculate_size") is not None:
                    pkt = h.packet(b"", {"ONE": h.val("Int", 1)})
                    k, got = h.outcome(f"{cls}({arg}=[{lk}])._calculate_size(pkt)", ENC, pkt=pkt)
                else:   # private helper renamed / inlined: observe the length through the cursor of the public decoder
                    pkt = h.packet(b"AAAAAAAA", {"ONE": h.val("Int", 1)})
                    k, got = h.outcome(f"{cls}({arg}=[{lk}]).parse_value(pkt)", ENC, pkt=pkt)
                    if k == "ok":
                        got = cursor(h, pub(pkt, "raw_data"))
                if k != "ok" or got != want:
                    bad = (f"{cls}: lookup values {vals} with entries matching {[bool(x) for x in m]} gives length {got!r}; "
                           f"the first matching entry has value {want}")
                    break
            ctx.decide(bad is None, "R6.consumer", site, "", bad or "", where=where(fi, fi.node))
        except Unsupported as e:
            ctx.unknown("R6.consumer", site, str(e))


def taint_rule(ctx: Ctx):
    """R6.2: inside the evaluators no value taken from the packet mapping is used for its truthiness."""
    prog = ctx.prog
    for key in (f"{CMP}::Comparison.evaluate", f"{CMP}::Condition.evaluate", f"{CMP}::DiscreteLookup.evaluate",
                f"{CMP}::BooleanExpression.evaluate"):
        fi = prog.func_opt(key)
        if fi is None:
            ctx.unknown("R6.2", key, "evaluator not found")
            continue
        tainted = set()
        changed = True
        fns = [fi] + prog.nested(fi)
        body_nodes = [n for f in fns for n in walk_local(f.node)]
        while changed:
            changed = False
            for n in body_nodes:
                tgt, val = None, None
                if isinstance(n, ast.Assign) and len(n.targets) == 1 and isinstance(n.targets[0], ast.Name):
                    tgt, val = n.targets[0].id, n.value
                if tgt and tgt not in tainted and _is_value_source(val, tainted):
                    tainted.add(tgt)
                    changed = True
        hits = []
        for n in body_nodes:
            tests = []
            if isinstance(n, (ast.If, ast.While, ast.IfExp, ast.Assert)):
                tests.append(n.test)
            if isinstance(n, ast.BoolOp):
                tests += n.values
            if isinstance(n, ast.UnaryOp) and isinstance(n.op, ast.Not):
                tests.append(n.operand)
            for t in tests:
                if isinstance(t, ast.Name) and t.id in tainted:
                    hits.append(t)
                elif _is_value_source(t, set()) and not isinstance(t, ast.Name):
                    hits.append(t)
        if hits:
            for t in hits:
                ctx.refuted("R6.2", f"{key}::{norm(t)}",
                            f"truthiness of the packet value `{norm(t)}` is tested: a value of 0, False or '' is "
                            f"treated as absent", where=where(fi, t))
        else:
            ctx.proved("R6.2", key, f"no truthiness test on packet values (tracked: {sorted(tainted)})")


def _is_value_source(e, tainted) -> bool:
    if e is None:
        return False
    if isinstance(e, ast.Name):
        return e.id in tainted
    if isinstance(e, ast.Subscript) and dotted(e.value) == "packet":
        return True
    if isinstance(e, ast.Attribute) and e.attr == "raw_value":
        return True
    if isinstance(e, ast.IfExp):
        return _is_value_source(e.body, tainted) or _is_value_source(e.orelse, tainted)
    if isinstance(e, ast.Call) and isinstance(e.func, ast.Name) and e.func.id == "_get_parsed_value":
        return True
    return False


def check(ctx: Ctx) -> None:
    h = Harness(ctx.prog)
    thorough = ctx.stats.get("tier") == "thorough"
    tab = ctx.guard("R6.1", f"{CMP}::MatchCriteria", table, ctx, h)
    ctx.guard("R6.cmp", f"{CMP}::Comparison.evaluate", comparison_cases, ctx, h)
    ctx.guard("R6.cond", f"{CMP}::Condition.evaluate", condition_cases, ctx, h)
    ctx.guard("R6.xml", CMP, declared_cases, ctx)
    ctx.guard("R6.bool", f"{CMP}::BooleanExpression.evaluate", boolean_cases, ctx, h, thorough)
    ctx.guard("R6.lookup", f"{CMP}::DiscreteLookup.evaluate", lookup_cases, ctx, h)
    ctx.guard("R6.2", CMP, taint_rule, ctx)
    ctx.guard("R6.consumer", "xtce/encodings.py", consumers, ctx, h)
    # R6.pure: evaluation is a function of the criteria and the packet only (no state kept between evaluations)
    from ..callgraph import CallGraph
    from .c11 import effect_rule
    roots = [f"{CMP}::{c}.evaluate" for c in ("Comparison", "Condition", "BooleanExpression", "DiscreteLookup")]
    ctx.guard("R6.pure", CMP, effect_rule, ctx, CallGraph(ctx.prog), roots, "R6.pure", "criteria evaluation")
    # end to end: context calibrators / criteria of the second document of C01, also with DEBUG logging switched on
    from .c01 import end_to_end_second
    ctx.guard("R6.e2", "xtce/definitions.py", end_to_end_second, ctx, "R6.e2")
    from .c01 import end_to_end_third
    ctx.guard("R6.e3", "xtce/definitions.py", end_to_end_third, ctx, "R6.e3")


def mutants(prog):
    import re
    src = prog.files[CMP]
    out = []

    def sub(name, pattern, repl, expect="R6", flags=0):
        new, n = re.subn(pattern, repl, src, count=1, flags=flags)
        if n:
            out.append((name, CMP, new, expect))

    sub("xs:boolean 1 read as false (Comparison selector)", r"use_calibrated_value = element\.attrib\['useCalibratedValue'\]\.lower\(\) in \('true', '1'\)",
        "use_calibrated_value = element.attrib['useCalibratedValue'].lower() == 'true'", "R6.xml")
    sub("leq -> __lt__", r'"leq": "__le__"', '"leq": "__lt__"', "R6.1")
    sub("&gt;= -> __gt__", r'"&gt;=": "__ge__"', '"&gt;=": "__gt__"', "R6.1")
    sub("!= -> __eq__", r'"!=": "__ne__"', '"!=": "__eq__"', "R6.1")
    sub("falsy value rejected", r"if parsed_value is None:\n(\s+)raise ComparisonError", r"if not parsed_value:\n\1raise ComparisonError")
    sub("raw dunder dispatch in Condition", r"getattr\(operator_module, operator\)\(left_value, right_value\)",
        "getattr(left_value, operator)(right_value)")
    sub("right selector copied from left", r"_get_parsed_value\(self\.right_param, self\.right_use_calibrated_value\)",
        "_get_parsed_value(self.right_param, self.left_use_calibrated_value)")
    sub("selector inverted in Comparison", r"if self\.use_calibrated_value:\n(\s+)parsed_value = packet\[self\.referenced_parameter\]\n",
        r"if not self.use_calibrated_value:\n\1parsed_value = packet[self.referenced_parameter]\n")
    sub("or-fold ignores nested ands' ors", r"for anded in ored\.ands:\n(\s+)if _and\(anded\):",
        r"for anded in ored.ands:\n\1if all(c.evaluate(packet) for c in anded.conditions):")
    sub("and-fold returns at first true", r"if condition\.evaluate\(packet\) is False:\n(\s+)return False",
        r"if condition.evaluate(packet) is True:\n\1return True")
    sub("and-fold skips nested ors", r"for ored in anded\.ors:\n(\s+)if not _or\(ored\):", r"for ored in []:\n\1if not _or(ored):")
    sub("lookup any instead of all", r"if all\(criterion\.evaluate\(packet, current_parsed_value\) for criterion in self\.match_criteria\)",
        "if any(criterion.evaluate(packet, current_parsed_value) for criterion in self.match_criteria)")
    sub("lookup returns truthiness", r"return self\.lookup_value\n", "return self.lookup_value or None\n")
    sub("literal not coerced", r"required_value = t_comparate\(self\.required_value\)", "required_value = self.required_value")
    sub("literal coercion cached on the criterion", r"(required_value = t_comparate\(self\.required_value\))",
        r"\1\n            self._coerced = required_value", "R6.pure")
    sub("Anded/Ored dispatch swapped", r"if isinstance\(self\.expression, Anded\):\n(\s+)return _and", r"if isinstance(self.expression, Ored):\n\1return _and")
    return out


SPEC = PropSpec(
    pid="C06",
    title="Match criteria evaluate to the mathematical truth of their comparisons",
    check=check,
    floors={"R6.e3": 20, "R6.1": 16, "R6.cmp": 25, "R6.cond": 54, "R6.bool": 40, "R6.lookup": 1, "R6.2": 4, "R6.pure": 4, "R6.consumer": 2, "R6.xml": 1, "R6.e2": 10},
    explanation=("(1) Table rule R6.1: every accepted operator spelling maps to the relation it denotes. "
                 "(2) Taint rule R6.2: no truthiness test on a value read from the packet inside the evaluators. "
                 "(3) Decision tables by abstract interpretation of the evaluators' source over model packets and "
                 "model value objects (native int/float/str subclasses carrying raw_value, so CPython's own rich "
                 "comparison semantics - including NotImplemented for int-vs-float dunders - apply): Comparison for "
                 "every spelling x {int, float, str, bool} x boundary values incl. 0/negative/empty x both selectors "
                 "with raw != calibrated; Condition for every spelling x operand kind pairs incl. int-vs-float x all "
                 "four selector combinations; BooleanExpression truth tables for every AND/OR tree up to the size "
                 "bound (all assignments); DiscreteLookup incl. falsy lookup values. Results must be the bool "
                 "objects True/False. Does not decide literal coercion for bytes values."
                 ' R6.xml: criteria as declared in a document keep their literal exactly as written (blank padding, TRUE/False labels); R6.e2: the second end-to-end document of C01, also with DEBUG logging switched on.'
                 ' R6.e3: the hand-written document of R1.e3 (zero-padded decimal literals, two comparisons on one parameter in one list).'
                 ' R6.cond also takes literals given as objects (int / float / bool) and integers beyond 2**53; R6.xml the four xs:boolean spellings of useCalibratedValue; R6.bool the evaluation order of groups (a member that already decides the group shields later members that name absent parameters).'),
    rule_doc=("R6.1 one obligation per spelling; R6.cmp per (value kind, spelling) over all (value, literal, selector) "
              "combinations; R6.cond per (kind pair, spelling); R6.bool per tree shape over all assignments; "
              "R6.lookup; R6.2 per evaluator."),
    assumptions=["CPython rich-comparison semantics of int/float/str (executed natively on model values)",
                 "value classes are built-in subclasses carrying raw_value (decided by C20)"],
    mutants=mutants,
    technique="operator-table check, value-taint rule, decision tables by abstract interpretation over value classes",
)

"""Property registry: one module per property, each exporting SPEC (a core.PropSpec)."""
import importlib

ALL = ["C%02d" % i for i in range(1, 21)]


def load(pid: str):
    mod = importlib.import_module(f"spv.props.{pid.lower()}")
    return mod.SPEC


def available():
    out = []
    for pid in ALL:
        try:
            load(pid)
            out.append(pid)
        except ModuleNotFoundError:
            pass
    return out

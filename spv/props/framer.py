"""Shared rules about ``packets.ccsds_generator`` used by C02 (exact framing), C10 (termination / complete
packets) and C19 (the listing relies on a terminating framer)."""
from __future__ import annotations

import ast
from typing import Dict, List, Optional

from ..affine import Aff, AffBuilder
from ..astutil import dotted, norm, walk_local
from ..cfg import CFG
from ..core import Ctx, Unsupported
from ..extract import assignments, fn_stmts, single_def, stmt_site, where
from ..facts import FactFlow, entails
from ..harness import Harness
from ..interp import Raised, StepLimit
from ..normalize import inline_helpers
from ..roles import bits_name
from ..models import ccsds_bytes, file_source, socket_source, source_externals
from ..program import AnchorMissing

PK = "packets.py"
GEN = f"{PK}::ccsds_generator"


class Roles:
    """Roles discovered from the yield: yield RawPacketData(X); X = B[P:P+N]; HB = B[P:P+H]."""

    def __init__(self, prog):
        self.prog = prog
        self.fi = fi = inline_helpers(prog, prog.func(GEN))
        ys = [n for n in walk_local(fi.node) if isinstance(n, ast.Yield)]
        if len(ys) != 1 or ys[0].value is None:
            raise AnchorMissing(f"expected exactly one yield in ccsds_generator, found {len(ys)}")
        self.yield_node = ys[0]
        v = ys[0].value
        if not (isinstance(v, ast.Call) and (dotted(v.func) or "").split(".")[-1] == "RawPacketData" and len(v.args) == 1):
            raise Unsupported(f"yield is not RawPacketData(<slice>): {norm(v)}")
        x = v.args[0]
        self.x_stmt = None
        if isinstance(x, ast.Name):
            defs = assignments(fi, x.id)
            if len(defs) != 1 or not isinstance(defs[0], ast.Assign):
                raise Unsupported(f"packet bytes variable {x.id} has {len(defs)} definitions")
            self.x_stmt = defs[0]
            x = defs[0].value
        if not (isinstance(x, ast.Subscript) and isinstance(x.slice, ast.Slice) and isinstance(x.value, ast.Name)
                and x.slice.lower is not None and x.slice.upper is not None and x.slice.step is None):
            raise Unsupported(f"yielded bytes are not a slice B[P:P+N]: {norm(x)}")
        self.x_slice = x
        self.B = x.value.id
        if not isinstance(x.slice.lower, ast.Name):
            raise Unsupported("slice start is not a cursor variable")
        self.P = x.slice.lower.id
        self.H = prog.fold_opt(prog.cls("RawPacketData").attrs.get("HEADER_LENGTH_BYTES") or ast.Constant(None), PK)
        self.loop = None
        for st in fn_stmts(fi):
            if isinstance(st, ast.While) and any(n is self.yield_node for n in ast.walk(st)):
                self.loop = st
                break
        if self.loop is None:
            raise Unsupported("the yield is not inside a while loop")
        self.params = fi.params

    def builder(self, expand: bool = False) -> AffBuilder:
        prog, fi = self.prog, self.fi

        def res(e):
            if isinstance(e, (ast.Attribute,)) or (isinstance(e, ast.Name) and e.id not in fi.params):
                c = prog.fold_opt(e, PK)
                if isinstance(c, int) and not isinstance(c, bool):
                    return Aff.k(c)
            if expand and isinstance(e, ast.Name):
                v = single_def(fi, e.id)
                if v is not None and not isinstance(v, (ast.Subscript, ast.Constant)):
                    try:
                        return AffBuilder(res).build(v)
                    except Unsupported:
                        return None
            return None
        return AffBuilder(res)


# ------------------------------------------------------------------------------------------- symbolic rules
def length_arithmetic(ctx: Ctx, r: Roles, rule: str):
    """N = H + (LEN + 1), LEN = _extract_bits(HB, 32, 16), HB = B[P:P+H]."""
    fi = r.fi
    site = f"{GEN}::packet-length"
    up = r.x_slice.slice.upper
    b = r.builder(expand=True)
    try:
        n_aff = b.build(up) - Aff.atom(r.P)
    except Unsupported as e:
        ctx.unknown(rule, site, f"packet length is not affine: {e}")
        return
    calls = [a for a in n_aff.atoms() if a.startswith(f"call:{bits_name(r.prog)}(")]
    if len(calls) != 1 or n_aff.terms.get(calls[0]) != 1 or len(n_aff.terms) != 1:
        ctx.unknown(rule, site, f"packet length {n_aff!r} is not <length field> + constant")
        return
    const = n_aff.const
    ctx.decide(const == 7, rule, site, "N = _extract_bits(header, 32, 16) + 1 + 6",
               f"packet length is <length field> + {const}; CCSDS 4.1.3.5.3: data field is length+1 octets after a "
               f"6-octet header, i.e. <length field> + 7", where=where(fi, up), form=repr(n_aff))
    # the call: window and argument
    call = None
    for n in walk_local(fi.node):
        if isinstance(n, ast.Call) and (dotted(n.func) or "").split(".")[-1] == bits_name(r.prog) and len(n.args) == 3:
            call = n
    if call is None:
        ctx.unknown(rule, f"{GEN}::length-read", "length read not found")
        return
    s, w = r.prog.fold_opt(call.args[1], PK), r.prog.fold_opt(call.args[2], PK)
    ctx.decide((s, w) == (32, 16), rule, f"{GEN}::length-read", "length field read at bits [32,48)",
               f"length field read at ({s},{w}); CCSDS places it at (32,16)", where=where(fi, call))
    hb = call.args[0]
    hbv = single_def(fi, hb.id) if isinstance(hb, ast.Name) else hb
    ok = None
    why = ""
    if isinstance(hbv, ast.Subscript) and isinstance(hbv.slice, ast.Slice) and isinstance(hbv.value, ast.Name):
        try:
            lo = b.build(hbv.slice.lower) if hbv.slice.lower is not None else Aff.k(0)
            hi = b.build(hbv.slice.upper) if hbv.slice.upper is not None else None
            ok = hbv.value.id == r.B and lo == Aff.atom(r.P) and hi is not None and (hi - lo) == Aff.k(6)
            why = f"header bytes are {norm(hbv)}; expected {r.B}[{r.P}:{r.P}+6]"
        except Unsupported as e:
            why = str(e)
    ctx.decide(ok, rule, f"{GEN}::header-slice-shape", "header bytes = B[P:P+6]", why, where=where(fi, call))


def cursor_updates(ctx: Ctx, r: Roles, rule: str):
    """Per iteration the cursor moves by the prefix before the header slice and by the packet length after the packet
    slice.  Every write of the cursor in the loop is classified: trim reset (`P = 0` right after `B = B[P:]`), or an
    advance `P += d` / `P = E` (d = E - P); the advances before / after the packet slice are summed."""
    fi = r.fi
    writes = [st for st in fn_stmts(fi) if any(n is st for n in ast.walk(r.loop))
              and ((isinstance(st, ast.AugAssign) and dotted(st.target) == r.P)
                   or (isinstance(st, ast.Assign) and any(dotted(t) == r.P for t in st.targets)))]
    b0 = r.builder(expand=False)
    b = r.builder(expand=True)
    P = Aff.atom(r.P)
    n_aff = b.build(r.x_slice.slice.upper) - P
    try:
        n_raw = b0.build(r.x_slice.slice.upper) - b0.build(r.x_slice.slice.lower)
    except Unsupported:
        n_raw = None
    skip_name = "skip_header_bytes" if "skip_header_bytes" in fi.params else None
    x_line = (r.x_stmt or r.yield_node).lineno
    top = set(map(id, r.loop.body))
    before, after, shape_problem = [], [], None
    for w in writes:
        if isinstance(w, ast.Assign) and isinstance(w.value, ast.Constant) and w.value.value == 0 and _is_trim_reset(r, w):
            ctx.proved(rule, f"{GEN}::cursor-write::{norm(w)}", "cursor reset belongs to the buffer trim", where=where(fi, w))
            continue
        site = f"{GEN}::cursor-write::{norm(w)}"
        try:
            if isinstance(w, ast.AugAssign) and isinstance(w.op, ast.Add):
                raw, d = b0.build(w.value), b.build(w.value)
            elif isinstance(w, ast.AugAssign) and isinstance(w.op, ast.Sub):
                raw, d = -b0.build(w.value), -b.build(w.value)
            elif isinstance(w, ast.Assign) and len(w.targets) == 1:
                raw, d = b0.build(w.value) - P, b.build(w.value) - P
            else:
                raise Unsupported(f"cursor written by `{norm(w)}`")
        except Unsupported as e:
            ctx.unknown(rule, site, str(e), where=where(fi, w))
            shape_problem = w
            continue
        if id(w) not in top:
            ctx.unknown(rule, site, "conditional cursor write (not on the main path of the loop body)", where=where(fi, w))
            shape_problem = w
            continue
        (after if w.lineno > x_line or (w.lineno == x_line and w is not r.x_stmt and _after(r, w)) else before).append((w, raw, d))
    if shape_problem is not None:
        return
    site = f"{GEN}::cursor-advance"
    if not after:
        ctx.unknown(rule, site, f"no write of `{r.P}` after the packet slice recognised (decided by the framing tables)",
                    where=where(fi, r.x_stmt or fi.node))
    else:
        raw = sum((x[1] for x in after), Aff.k(0))
        d = sum((x[2] for x in after), Aff.k(0))
        ok = (n_raw is not None and raw == n_raw) or d == n_aff
        ctx.decide(ok, rule, site, "cursor advances by the packet length",
                   f"cursor advances by {d!r} after a packet of length {n_aff!r}", where=where(fi, after[0][0]))
    site = f"{GEN}::cursor-skip"
    if skip_name:
        d = sum((x[2] for x in before), Aff.k(0))
        ctx.decide(d == Aff.atom(skip_name), rule, site, "prefix bytes are skipped once per packet",
                   f"cursor skips {d!r} before the packet slice, the declared prefix is {skip_name}",
                   where=where(fi, before[0][0] if before else fi.node))
    elif before:
        d = sum((x[2] for x in before), Aff.k(0))
        ctx.decide(d == Aff.k(0), rule, site, "no skip", f"cursor moves by {d!r} before the packet slice", where=where(fi, before[0][0]))


def _after(r: Roles, w) -> bool:
    body = r.loop.body
    ref = r.x_stmt if r.x_stmt in body else None
    return ref is not None and w in body and body.index(w) > body.index(ref)


def _is_trim_reset(r: Roles, w: ast.Assign) -> bool:
    for st in fn_stmts(r.fi):
        for fld in ("body", "orelse"):
            body = getattr(st, fld, None)
            if isinstance(body, list) and w in body:
                i = body.index(w)
                if i > 0:
                    prev = body[i - 1]
                    return isinstance(prev, ast.Assign) and any(dotted(t) == r.B for t in prev.targets)
    return False


def trim_pair(ctx: Ctx, r: Roles, rule: str):
    fi = r.fi
    found = 0
    for st in fn_stmts(fi):
        if isinstance(st, ast.Assign) and any(dotted(t) == r.B for t in st.targets) and any(n is st for n in ast.walk(r.loop)):
            found += 1
            site = f"{GEN}::trim::{norm(st)}"
            v = st.value
            ok = None
            why = ""
            if isinstance(v, ast.Subscript) and isinstance(v.slice, ast.Slice) and dotted(v.value) == r.B and v.slice.upper is None \
                    and v.slice.step is None:
                lo = v.slice.lower
                if isinstance(lo, ast.Name) and lo.id == r.P:
                    # followed immediately by P = 0
                    nxt = _next_stmt(fi, st)
                    ok = isinstance(nxt, ast.Assign) and any(dotted(t) == r.P for t in nxt.targets) and \
                        isinstance(nxt.value, ast.Constant) and nxt.value.value == 0
                    why = f"`{norm(st)}` is not immediately followed by `{r.P} = 0`"
                else:
                    ok = False
                    why = (f"buffer is trimmed at `{norm(lo) if lo is not None else 0}` instead of the cursor `{r.P}`: "
                           f"unparsed bytes are discarded (or kept twice) once the two differ")
            else:
                why = f"buffer re-assignment `{norm(st)}` is not a trim B = B[P:]"
            ctx.decide(ok, rule, site, "trim keeps the absolute position (B=B[P:]; P=0)", why, where=where(fi, st))
    if found == 0:
        ctx.note("no buffer trim in the packet loop (memory grows with the stream; not a framing error)")


def _next_stmt(fi, st):
    for s in fn_stmts(fi):
        for fld in ("body", "orelse"):
            body = getattr(s, fld, None)
            if isinstance(body, list) and st in body:
                i = body.index(st)
                return body[i + 1] if i + 1 < len(body) else None
    return None


def slice_safety(ctx: Ctx, r: Roles, rule: str):
    """Must-facts: at HB = B[P:P+6]  len(B)-P-6 >= 0 ; at X = B[P:P+N]  len(B)-P-N >= 0, on every path."""
    fi = r.fi
    cfg = CFG(fi.node)
    b = r.builder(expand=False)
    nonneg = [Aff.atom(p) for p in ("skip_header_bytes",) if p in fi.params]
    ff = FactFlow(cfg, b, assume=nonneg)
    lenB, P = Aff.atom(f"len({r.B})"), Aff.atom(r.P)
    sites = []
    # header slice
    hb_stmt = None
    for st in fn_stmts(fi):
        if isinstance(st, ast.Assign) and isinstance(st.value, ast.Subscript) and dotted(st.value.value) == r.B \
                and isinstance(st.value.slice, ast.Slice) and st is not r.x_stmt and any(n is st for n in ast.walk(r.loop)) \
                and st.value.slice.upper is not None:
            hb_stmt = st
    if hb_stmt is not None:
        try:
            width = b.build(hb_stmt.value.slice.upper) - b.build(hb_stmt.value.slice.lower)
            sites.append(("header-slice", hb_stmt, lenB - P - width))
        except Unsupported as e:
            ctx.unknown(rule, f"{GEN}::header-slice", str(e))
    else:
        ctx.unknown(rule, f"{GEN}::header-slice", "header slice not found")
    try:
        width = b.build(r.x_slice.slice.upper) - b.build(r.x_slice.slice.lower)
        sites.append(("packet-slice", r.x_stmt or fi.node, lenB - P - width))
    except Unsupported as e:
        ctx.unknown(rule, f"{GEN}::packet-slice", str(e))
    for name, st, req in sites:
        site = f"{GEN}::{name}"
        node = cfg.node_of(st)
        if node is None:
            ctx.unknown(rule, site, "statement not in the CFG")
            continue
        if ff.proves(node.id, req):
            ctx.proved(rule, site, f"{req!r} >= 0 holds on every path reaching the slice", where=where(fi, st))
            continue
        path = ff.refute(node.id, req)
        if path is not None:
            ctx.refuted(rule, site,
                        f"a path reaches `{norm(st)[:70]}` with fewer bytes buffered than the slice needs "
                        f"({req!r} < 0): the source ran dry and the short buffer is still framed",
                        where=where(fi, st), path=cfg.describe_path(path[-12:], "space_packet_parser/" + PK))
        else:
            ctx.unknown(rule, site, f"cannot establish {req!r} >= 0 at the slice", where=where(fi, st))


def accounting(ctx: Ctx, r: Roles, rule: str):
    """The byte counter that ends iteration for sized sources grows by exactly skip + N per yielded packet, once."""
    fi = r.fi
    b = r.builder(expand=True)
    # the counter: the name compared with the total length in the loop's exit test
    counter = None
    for n in ast.walk(r.loop):
        if isinstance(n, ast.Compare) and len(n.ops) == 1 and isinstance(n.ops[0], ast.Eq):
            names = [dotted(n.left), dotted(n.comparators[0])]
            if all(names) and any("total" in x for x in names):
                counter = next((x for x in names if "total" not in x), counter)
    if counter is None:
        ctx.note("no byte counter compared with a total length found (iteration ends by exhaustion only)")
        return
    n_aff = b.build(r.x_slice.slice.upper) - Aff.atom(r.P)
    skip = Aff.atom("skip_header_bytes") if "skip_header_bytes" in fi.params else Aff.k(0)
    incs = [st for st in fn_stmts(fi) if isinstance(st, (ast.AugAssign, ast.Assign)) and any(n is st for n in ast.walk(r.loop))
            and any(dotted(t) == counter for t in ([st.target] if isinstance(st, ast.AugAssign) else st.targets))]
    site = f"{GEN}::byte-accounting::{counter}"
    total = Aff.k(0)
    try:
        for st in incs:
            if not (isinstance(st, ast.AugAssign) and isinstance(st.op, ast.Add)):
                ctx.unknown(rule, site, f"counter written by `{norm(st)}`")
                return
            total = total + b.build(st.value)
    except Unsupported as e:
        ctx.unknown(rule, site, str(e))
        return
    ctx.decide(total == skip + n_aff, rule, site, "counter grows by prefix + packet length per packet",
               f"`{counter}` grows by {total!r} per iteration but {(skip + n_aff)!r} bytes of the source are consumed: the known-length "
               f"exit fires early or never", where=where(fi, incs[0]) if incs else "")


def refill_consistency(ctx: Ctx, r: Roles, rule: str):
    """Each refill loop `while A < X` that is followed by an exhaustion check `if A < Y: break` needs Y <= X:
    otherwise the generator stops although the loop exited because enough bytes were buffered."""
    fi = r.fi
    b = r.builder(expand=False)
    body = r.loop.body
    n = 0
    for i, st in enumerate(body):
        if isinstance(st, ast.While) and i + 1 < len(body) and isinstance(body[i + 1], ast.If):
            guard = body[i + 1]
            if not any(isinstance(x, (ast.Break, ast.Return)) for x in guard.body):
                continue
            n += 1
            site = f"{GEN}::refill-vs-exhaustion-check::{n}"
            try:
                from ..affine import cmp_to_aff
                lp, _ = cmp_to_aff(st.test, b.build)       # loop continues while lp >= 0
                gp, _ = cmp_to_aff(guard.test, b.build)    # generator stops when gp >= 0
                if not lp or not gp or len(lp) != 1 or len(gp) != 1:
                    raise Unsupported("conditions are not single affine comparisons")
                # stop-condition must imply loop-condition: gp >= 0  =>  lp >= 0, i.e. lp - gp >= 0 always
                d = lp[0] - gp[0]
                facts = [Aff.atom(p) for p in ("skip_header_bytes",) if p in fi.params]
                if entails(facts, d):
                    ctx.proved(rule, site, "the generator stops only when the refill loop gave up", where=where(fi, guard))
                elif entails(facts, -d - Aff.k(0)) and not d.is_const() or (d.is_const() and d.const < 0):
                    ctx.refuted(rule, site,
                                f"the refill loop runs while `{norm(st.test)}` but the generator stops when "
                                f"`{norm(guard.test)}`: with {(-d)!r} > 0 the loop can exit with enough bytes for its own "
                                f"condition and the generator still stops, dropping the rest of the stream",
                                where=where(fi, guard))
                else:
                    ctx.unknown(rule, site, f"cannot relate `{norm(st.test)}` and `{norm(guard.test)}`", where=where(fi, guard))
            except Unsupported as e:
                ctx.unknown(rule, site, str(e))
    return n


def reader_bound(ctx: Ctx, r: Roles, rule: str):
    fi = r.fi
    # the reader variable: callee of a call whose result is appended to B
    reader = None
    appended = set()
    for n in walk_local(r.loop):
        if isinstance(n, ast.AugAssign) and dotted(n.target) == r.B and isinstance(n.op, ast.Add):
            if isinstance(n.value, ast.Name):
                appended.add(n.value.id)
            elif isinstance(n.value, ast.Call) and isinstance(n.value.func, ast.Name):
                reader = n.value.func.id
    for n in walk_local(r.loop):
        tgt = val = None
        if isinstance(n, ast.Assign) and len(n.targets) == 1 and isinstance(n.targets[0], ast.Name):
            tgt, val = n.targets[0].id, n.value
        elif isinstance(n, ast.NamedExpr):
            tgt, val = n.target.id, n.value
        if tgt in appended and isinstance(val, ast.Call) and isinstance(val.func, ast.Name):
            reader = val.func.id
    if reader is None:
        ctx.unknown(rule, f"{GEN}::reader-bound", "reader call not found")
        return
    defs = assignments(fi, reader)
    bad = [d for d in defs if isinstance(d, ast.Assign) and isinstance(d.value, ast.Constant) and d.value.value is None]
    site = f"{GEN}::reader-bound"
    if bad:
        ctx.refuted(rule, site, f"`{reader}` is bound to None on the branch at line {bad[0].lineno} but called "
                                f"unconditionally by the refill loops", where=where(fi, bad[0]))
    else:
        ctx.decide(len(defs) >= 3 or None, rule, site, f"{len(defs)} source branches bind a callable reader",
                   f"only {len(defs)} bindings of the reader found")


def loop_independence(ctx: Ctx, r: Roles, rule: str):
    src = r.fi.params[0]
    uses = []
    for n in ast.walk(r.loop):
        test = None
        if isinstance(n, (ast.If, ast.While, ast.IfExp)) and n is not r.loop:
            test = n.test
        if isinstance(n, ast.Call) and dotted(n.func) in ("isinstance", "type", "hasattr"):
            test = n
        if test is not None:
            uses += [x for x in ast.walk(test) if isinstance(x, ast.Name) and x.id == src]
    ctx.decide(not uses, rule, f"{GEN}::loop-uses-source",
               "the packet loop does not look at the source object or its kind",
               f"the packet loop refers to `{src}` (line {uses[0].lineno if uses else '?'}): framing depends on the source kind",
               where=where(r.fi, uses[0]) if uses else "")


# ------------------------------------------------------------------------------------------- model evaluation
def ref_frames(stream: bytes, skip: int):
    out = []
    pos = 0
    while len(stream) - pos >= skip + 6:
        ln = int.from_bytes(stream[pos + skip + 4:pos + skip + 6], "big")
        total = 6 + ln + 1
        if len(stream) - pos - skip < total:
            break
        out.append(stream[pos + skip:pos + skip + total])
        pos += skip + total
    return out


def mk_stream(sizes, skip=0, seed=1):
    out = b""
    for i, n in enumerate(sizes):
        data = bytes(((i * 37 + j * 11 + seed) % 256) for j in range(n))
        out += bytes([0xE0 + (i % 16)] * skip) + ccsds_bytes(data, version=i % 8, type=i % 2, shf=(i // 2) % 2,
                                                             apid=(i * 331 + seed) % 2048, flags=i % 4, count=(i * 7919) % 16384)
    return out


def _ascii_print(*a, sep=" ", end="\n", file=None, flush=False):
    """print() to a standard output that can only encode ASCII (a legacy console, a redirect with PYTHONIOENCODING=ascii)."""
    text = sep.join(str(x) for x in a) + end
    try:
        text.encode("ascii")
    except UnicodeEncodeError as e:
        from ..interp import ExcVal
        raise Raised(ExcVal("UnicodeEncodeError", (e.reason,)))
    return None


def run_framer(h: Harness, source, **kw):
    kw = dict(kw)
    if kw.pop("__ascii_stdout__", False):
        h.it.ext["print"] = _ascii_print
    else:
        h.it.ext.pop("print", None)
    args = ", ".join(f"{k}={k}" for k in kw)
    h.it.events.clear()
    size = len(source) if isinstance(source, (bytes, bytearray)) else int(source.attrs.get("__size__", 4096))
    # a terminating framer needs a few dozen interpreter steps per byte for tiny fragments and ~100 per packet
    h.it.max_steps = 50_000 + 400 * min(size, 70_000) + size // 200
    try:
        kind, got = h.outcome(f"ccsds_generator(src{', ' + args if args else ''})", PK, src=source, **kw)
    except StepLimit:
        return ("diverges", None)
    if kind == "ok":
        return ("ok", [bytes(x) for x in got])
    if kind == "raise" and got == "timeout":
        # a live socket went silent: everything yielded before the blocking recv counts
        return ("ok", [bytes(e[1]) for e in h.it.events if e[0] == "yield"])
    return (kind, got)


def sources_for(stream: bytes, level: int):
    """(description, factory, kwargs) for the three source kinds with several read sizes / fragmentations."""
    out = [("bytes", lambda: stream, {})]
    if len(stream) > 2000:
        n = len(stream)
        out += [("file(read=None)", lambda: file_source(stream), {}),
                ("file(read=4096)", lambda: file_source(stream), {"buffer_read_size_bytes": 4096}),
                ("file(read=65543)", lambda: file_source(stream), {"buffer_read_size_bytes": 65543}),
                ("socket(whole,recv=None)", lambda: socket_source([stream]), {}),
                ("socket(halves,recv=30000)", lambda: socket_source([stream[:n // 2], stream[n // 2:]]), {"buffer_read_size_bytes": 30000})]
        return out
    for rs in ([None, 1, 7, 4096] if level == 0 else [None, 1, 2, 3, 5, 7, 13, 64, 4096]):
        kw = {} if rs is None else {"buffer_read_size_bytes": rs}
        out.append((f"file(read={rs})", lambda: file_source(stream), kw))
    n = len(stream)
    frag_sets = [[stream], [stream[i:i + 1] for i in range(n)], [stream[:6], stream[6:]], [stream[:7], stream[7:]]]
    if n > 12:
        frag_sets += [[stream[:n // 2], stream[n // 2:]], [stream[:10], stream[10:30], stream[30:]], [stream[i:i + 5] for i in range(0, n, 5)]]
    if level > 0:
        frag_sets += [[stream[:c], stream[c:]] for c in range(1, min(n, 40))]
    for i, fr in enumerate(frag_sets):
        for rs in ([None, 4] if level == 0 else [None, 1, 4, 9]):
            kw = {} if rs is None else {"buffer_read_size_bytes": rs}
            out.append((f"socket(frag#{i},recv={rs})", (lambda fr=fr: socket_source(fr)), kw))
    # a file handle the caller has already read from (peeked at the first header / read it to the end before): the library
    # frames the file, not the rest of the handle
    if n >= 6:
        out.append(("file(handle at byte 6, read=None)", lambda: file_source(stream, 6), {}))
        out.append(("file(handle at byte 2, read=7)", lambda: file_source(stream, 2), {"buffer_read_size_bytes": 7}))
        out.append(("file(handle at end, read=None)", lambda: file_source(stream, n), {}))
        # ... also when the rest of the handle happens to end on a packet boundary (the caller read exactly the first packet(s))
        pos = 0
        for i, fr in enumerate(ref_frames(stream, 0)[:3]):
            pos += len(fr)
            if 0 < pos < n:
                out.append((f"file(handle after {i + 1} packet(s) = byte {pos}, read=None)", (lambda pos=pos: file_source(stream, pos)), {}))
                out.append((f"file(handle after {i + 1} packet(s) = byte {pos}, read=5)", (lambda pos=pos: file_source(stream, pos)), {"buffer_read_size_bytes": 5}))
    # a file object whose read(n) returns fewer bytes than asked for before the end of the file (legal for buffered readers over
    # interactive raw streams): only an empty result means end of file
    out.append(("file(short reads of 3, read=7)", lambda: file_source(stream, max_chunk=3), {"buffer_read_size_bytes": 7}))
    out.append(("file(short reads of 1, read=4096)", lambda: file_source(stream, max_chunk=1), {"buffer_read_size_bytes": 4096}))
    # a file that lives on disk (has a descriptor; can be memory-mapped unless it is empty) behaves like any other file
    out.append(("file(on disk, read=None)", lambda: file_source(stream, on_disk=True), {}))
    out.append(("file(on disk, read=7)", lambda: file_source(stream, on_disk=True), {"buffer_read_size_bytes": 7}))
    # a handle whose descriptor holds fewer bytes than the stream delivers (read/write handle with unflushed writes, a
    # decompressing wrapper passing its descriptor through): the stream is what read() and seek() see
    fr0 = ref_frames(stream, 0)
    if len(fr0) >= 2:
        k = len(fr0[0])
        out.append((f"file(descriptor holds only the first {k} bytes, read=None)", (lambda k=k: file_source(stream, on_disk=True, disk_size=k)), {}))
        out.append((f"file(descriptor holds only the first {k} bytes, read=7)", (lambda k=k: file_source(stream, on_disk=True, disk_size=k)), {"buffer_read_size_bytes": 7}))
    # the progress display is cosmetic: same packets with it switched on, for every kind of source
    out.append(("bytes, show_progress", lambda: stream, {"show_progress": True}))
    out.append(("file(read=7), show_progress", lambda: file_source(stream), {"buffer_read_size_bytes": 7, "show_progress": True}))
    out.append(("socket(whole), show_progress", lambda: socket_source([stream]), {"show_progress": True}))
    out.append(("bytes, show_progress on an ASCII-only standard output", lambda: stream, {"show_progress": True, "__ascii_stdout__": True}))
    # a connection that stays open after the last byte: every complete packet must already have been yielded
    for i, fr in enumerate(frag_sets[:4]):
        out.append((f"live-socket(frag#{i})", (lambda fr=fr: socket_source(fr, stays_open=True)), {}))
    return out


def framing_cases(ctx: Ctx, rule: str, *, truncation: bool, level: int):
    nbad = 0
    prog = ctx.prog
    fi = prog.func(GEN)
    h = Harness(prog, source_externals(), max_steps=3_000_000)
    total = 0
    size_sets = [[], [1], [1, 1], [4, 1, 9], [2, 300, 1], [65536], [1, 65536, 2], "zero-header", "idle-and-repeats", [8, 8, 8, 8], [512], [1024, 3]] \
        if not truncation else [[3, 1, 6], [1, 65536, 2], [65530, 65535]]
    for skip in (0, 3):
        for sizes in size_sets:
            if sizes == "zero-header":
                # a valid packet whose six header octets are all zero (version 0, APID 0, CONTINUATION, count 0, 1 data byte)
                full = mk_stream([2], skip) + bytes(skip) + ccsds_bytes(b"\x00", apid=0, flags=0, count=0) + \
                    bytes([0xE1] * skip) + ccsds_bytes(b"\x07\x08", apid=9)
                sizes = [2, 1, 2]
            elif sizes == "idle-and-repeats":
                # the framer delivers every packet whatever its header says: the idle APID 2047 (with and without a secondary
                # header), version 7 (whose length field means the same), neighbours of one APID that repeat a sequence count
                hdrs = [dict(apid=2047, count=0), dict(apid=2047, shf=1, count=0), dict(apid=9, count=5), dict(apid=9, count=5),
                        dict(apid=1283, version=7, count=1), dict(apid=2047, version=7, type=1, shf=1, flags=0, count=16383), dict(apid=9, count=5)]
                sizes = [2, 1, 3, 3, 4, 1, 3]
                full = b"".join(bytes([0xE7] * skip) + ccsds_bytes(bytes([65 + i] * n), **hd) for i, (n, hd) in enumerate(zip(sizes, hdrs)))
            else:
                full = mk_stream(sizes, skip)
            cuts = range(0, len(full) + 1) if truncation else [len(full)]
            if truncation and len(full) > 2000:
                # long streams (packets up to the largest one the length field can announce): cuts around every packet boundary
                bnd, cuts = 0, set()
                for sz in sizes:
                    for b in (bnd, bnd + skip + 6 + sz):
                        cuts.update(c for c in (b - 1, b, b + 1, b + skip + 5, b + skip + 6, b + skip + 7) if 0 <= c <= len(full))
                    bnd += skip + 6 + sz
                cuts = sorted(cuts)
            if len(full) > 2000:
                srcsel = 0
            else:
                srcsel = level
            for cut in cuts:
                stream = full[:cut]
                want = ref_frames(stream, skip)
                site = f"{GEN}::stream sizes={sizes},skip={skip}" + (f",cut={cut}" if truncation else "")
                bad = None
                try:
                    for desc, mk, kw in sources_for(stream, srcsel if len(stream) < 200 else 0):
                        if len(stream) > 2000 and desc.startswith("socket(frag#1"):
                            continue
                        total += 1
                        kw2 = dict(kw)
                        if skip:
                            kw2["skip_header_bytes"] = skip
                        kind, got = run_framer(h, mk(), **kw2)
                        if kind != "ok" or got != want:
                            shown = (f"{len(got)} packets {[g.hex()[:24] for g in got][:4]}" if kind == "ok" else
                                     ("does not terminate" if kind == "diverges" else f"raises {got}"))
                            bad = (f"source {desc}{' skip=' + str(skip) if skip else ''} over a stream of {len(stream)} bytes "
                                   f"(packet data sizes {sizes}{', cut at ' + str(cut) if truncation else ''}): {shown}; "
                                   f"expected {len(want)} complete packets")
                            break
                except Unsupported as e:
                    ctx.unknown(rule, site, str(e))
                    continue
                ctx.decide(bad is None, rule, site, "all source kinds / read sizes / fragmentations agree", bad or "",
                           where=where(fi, fi.node))
                nbad += bad is not None
                if nbad >= 4:
                    ctx.stats[f"{rule}_runs"] = total
                    return          # enough counterexamples; the remaining cases would only repeat them
    ctx.stats[f"{rule}_runs"] = total


def garbage_cases(ctx: Ctx, rule: str):
    """Arbitrary byte strings: termination, every item complete by its own length field, consecutive slices."""
    prog = ctx.prog
    fi = prog.func(GEN)
    h = Harness(prog, source_externals(), max_steps=2_000_000)
    strings = [b"", b"\x00", b"\xff" * 5, b"\x00" * 6, b"\x00" * 7, b"\x00" * 20, b"\xff" * 40, bytes(range(64)),
               bytes((i * 97 + 13) % 256 for i in range(150)), b"\x08\x01\xc0\x00\x00\x00", b"\x08\x01\xc0\x00\xff\xff" + b"z" * 10]
    for s in strings:
        site = f"{GEN}::garbage::{s[:8].hex()}..len={len(s)}"
        bad = None
        try:
            for desc, mk, kw in sources_for(s, 0):
                kind, got = run_framer(h, mk(), **kw)
                if kind != "ok":
                    bad = f"source {desc} over {len(s)} arbitrary bytes: " + ("does not terminate" if kind == "diverges" else f"raises {got}")
                    break
                if got != ref_frames(s, 0):
                    bad = f"source {desc} over {len(s)} arbitrary bytes yields {[g.hex()[:20] for g in got][:3]}; expected {len(ref_frames(s, 0))} items"
                    break
        except Unsupported as e:
            ctx.unknown(rule, site, str(e))
            continue
        ctx.decide(bad is None, rule, site, "", bad or "", where=where(fi, fi.node))


def big_stream_case(ctx: Ctx, rule: str):
    """Beyond the 20 MB trim threshold twice (two trims): bytes source and chunked file source."""
    prog = ctx.prog
    fi = prog.func(GEN)
    h = Harness(prog, source_externals(), max_steps=3_000_000)
    npk = 700
    parts = []
    for i in range(npk):
        data = bytes([i % 256]) * 65536
        parts.append(ccsds_bytes(data, apid=i % 2048, count=i % 16384))
    stream = b"".join(parts)
    site = f"{GEN}::stream-beyond-two-trims({len(stream)} bytes)"
    bad = None
    try:
        for desc, mk, kw in (("bytes", lambda: stream, {}), ("file(read=1000003)", lambda: file_source(stream), {"buffer_read_size_bytes": 1000003})):
            kind, got = run_framer(h, mk(), **kw)
            if kind != "ok" or len(got) != npk or any(got[i] != parts[i] for i in (0, 1, 319, 320, 321, 639, 640, 641, npk - 1)) \
                    or sum(map(len, got)) != len(stream):
                k = None
                if kind == "ok":
                    k = next((i for i in range(min(len(got), npk)) if got[i] != parts[i]), min(len(got), npk))
                bad = (f"source {desc}: " + (f"{len(got)} packets, first deviation at packet {k}" if kind == "ok" else
                                             ("does not terminate" if kind == "diverges" else f"raises {got}"))
                       + f"; expected {npk} packets of 65542 bytes")
                break
    except Unsupported as e:
        ctx.unknown(rule, site, str(e))
        return
    ctx.decide(bad is None, rule, site, "45 MB stream framed exactly across two buffer trims", bad or "", where=where(fi, fi.node))

"""C17 - a loaded definition is a consistent object graph; broken documents fail at load (DESIGN 5, C17).

R17.g identity/consistency of the loaded graph (loader interpreted on the XML model, kitchen-sink document in several
      element orders): every name denotes one object; entry lists, nested references and parameter types are those
      very objects; inheritor lists are exactly the containers naming the container as base, each once.
R17.c every single-point corruption of the document (reference renamed to an undefined name at each kind of reference,
      definition duplicated identically / with a change, definition deleted, base cycle, nesting cycle) is rejected at load;
      identical duplicate containers are tolerated and keep the graph consistent.
R17.1 structural: each store into a name-keyed registry is dominated by a membership test on that registry.
R17.3 structural: the only mutation of an `inheritors` list is the back-population; mutable dataclass defaults are
      factories.
"""
from __future__ import annotations

import ast

from ..astutil import dotted, norm, walk_local
from ..cfg import CFG
from ..core import Ctx, PropSpec, Unsupported
from ..extract import where
from ..interp import Obj, Raised, StepLimit
from ..xmlmodel import all_elements, append, attach_nsmap, clone, is_elem, make_elem, split_tag
from . import xmlcommon as X
from .c16 import clone_tree

DEF = X.DEF
LOAD = f"{DEF}::XtcePacketDefinition.from_xtce"


def local(e):
    return split_tag(e.attrs["tag"])[1]


def find_all(root, name):
    return [e for e in all_elements(root) if local(e) == name]


def try_load(h, doc, arg="xtce"):
    try:
        return ("ok", X.load(h, doc, arg))
    except Raised as r:
        return ("raise", r.exc.tname)
    except RecursionError:
        return ("raise", "RecursionError")
    except StepLimit:
        return ("raise", "RecursionError (step limit)")


def graph_consistency(ctx: Ctx, d, site: str):
    """Returns the first inconsistency of a loaded definition, or None."""
    pt, pa, co = d.attrs["parameter_types"], d.attrs["parameters"], d.attrs["containers"]
    for name, p in pa.items():
        if p.attrs["name"] != name:
            return f"parameters[{name!r}] is named {p.attrs['name']!r}"
        t = p.attrs["parameter_type"]
        if pt.get(t.attrs["name"]) is not t:
            return f"parameter {name} carries a parameter type object that is not parameter_types[{t.attrs['name']!r}]"
    bases = {}
    for name, c in co.items():
        if c.attrs["name"] != name:
            return f"containers[{name!r}] is named {c.attrs['name']!r}"
        for i, e in enumerate(c.attrs["entry_list"]):
            if e.cls == "Parameter":
                if pa.get(e.attrs["name"]) is not e:
                    return f"entry {i} of {name} is a Parameter object that is not parameters[{e.attrs['name']!r}]"
            elif e.cls == "SequenceContainer":
                if co.get(e.attrs["name"]) is not e:
                    return f"entry {i} of {name} is a container object that is not containers[{e.attrs['name']!r}]"
            else:
                return f"entry {i} of {name} is a {e.cls}"
        b = c.attrs.get("base_container_name")
        if b:
            if b not in co:
                return f"{name} names the undefined base container {b}"
            bases.setdefault(b, []).append(name)
    for name, c in co.items():
        inh = list(c.attrs.get("inheritors") or [])
        if sorted(inh) != sorted(bases.get(name, [])):
            return f"inheritors of {name} are {inh}; the containers naming it as base are {bases.get(name, [])}"
    return None


def reorder(root, name, key):
    """Copy of the document with the children of element `name` re-ordered."""
    r = clone_tree(root)
    for e in find_all(r, name):
        kids = e.attrs["__children__"]
        kids.sort(key=key)
    attach_nsmap(r)
    return r


def consistency(ctx: Ctx):
    prog = ctx.prog
    h = X.harness(prog)
    d = X.build_kitchen_sink(h)
    g1 = X.write_tree(h, d)
    variants = {
        "document order": clone_tree(g1),
        "containers reversed (users before the containers they nest / inherit)": reorder(g1, "ContainerSet", lambda e: -["CCSDSPacket", "COMMON", "SCI", "TXT", "SCI_HI"].index(e.attrs["attrib"].get("name"))),
        "nested container declared between its two users": reorder(g1, "ContainerSet", lambda e: ["SCI", "COMMON", "TXT", "SCI_HI", "CCSDSPacket"].index(e.attrs["attrib"].get("name"))),
        "containers sorted by name": reorder(g1, "ContainerSet", lambda e: e.attrs["attrib"].get("name")),
        "parameters reversed": reorder(g1, "ParameterSet", lambda e: -list(d.attrs["parameters"]).index(e.attrs["attrib"].get("name"))),
        "parameter types reversed": reorder(g1, "ParameterTypeSet", lambda e: -list(d.attrs["parameter_types"]).index(e.attrs["attrib"].get("name"))),
    }
    # unconditional inheritance: a BaseContainer without RestrictionCriteria still makes the child an inheritor
    unc = clone_tree(g1)
    for e in find_all(unc, "SequenceContainer"):
        if e.attrs["attrib"].get("name") == "SCI_HI":
            for b in find_all(e, "BaseContainer"):
                b.attrs["__children__"][:] = []
    attach_nsmap(unc)
    variants["child whose BaseContainer has no RestrictionCriteria"] = unc
    # forward-referenced diamond: SCI nests DIA_M and then DIA_N, DIA_M itself nests DIA_N, both declared after SCI
    dia = clone_tree(g1)
    try:
        cs = find_all(dia, "ContainerSet")[0]
        sci = next(e for e in find_all(dia, "SequenceContainer") if e.attrs["attrib"].get("name") == "SCI")
        el = next(c for c in sci.attrs["__children__"] if is_elem(c) and split_tag(c.attrs["tag"])[1] == "EntryList")
        pref = next(c for c in el.attrs["__children__"] if is_elem(c) and split_tag(c.attrs["tag"])[1] == "ParameterRefEntry")
        ns_uri = split_tag(sci.attrs["tag"])[0]
        T = (lambda t: "{%s}%s" % (ns_uri, t)) if ns_uri else (lambda t: t)
        pname = pref.attrs["attrib"]["parameterRef"]
        append(el, make_elem(T("ContainerRefEntry"), {"containerRef": "DIA_M"}))
        append(el, make_elem(T("ContainerRefEntry"), {"containerRef": "DIA_N"}))
        append(cs, make_elem(T("SequenceContainer"), {"name": "DIA_M"}, children=[
            make_elem(T("EntryList"), children=[make_elem(T("ContainerRefEntry"), {"containerRef": "DIA_N"})])]))
        append(cs, make_elem(T("SequenceContainer"), {"name": "DIA_N"}, children=[
            make_elem(T("EntryList"), children=[make_elem(T("ParameterRefEntry"), {"parameterRef": pname})])]))
        attach_nsmap(dia)
        variants["forward-referenced diamond (a container nested directly and through another nested container)"] = dia
    except (StopIteration, IndexError, KeyError):
        ctx.unknown("R17.g", f"{LOAD}::graph::diamond", "could not build the diamond variant from the written document")
    for name, doc in variants.items():
        site = f"{LOAD}::graph::{name}"
        try:
            kind, got = try_load(X.harness(prog), doc)
        except Unsupported as e:
            ctx.unknown("R17.g", site, str(e))
            continue
        if kind != "ok":
            ctx.refuted("R17.g", site, f"a valid document ({name}) fails to load: {got}")
            continue
        bad = graph_consistency(ctx, got, site)
        ctx.decide(bad is None, "R17.g", site, "one object per name; references and inheritor lists consistent",
                   f"loaded definition ({name}) is inconsistent: {bad}")
    return g1


def dup_with_flipped_selector(kind):
    def f(r):
        s_ = find_all(r, "ContainerSet")[0]
        referenced = {e.attrs["attrib"].get("containerRef") for e in all_elements(s_)}
        sel = lambda k: [e for e in all_elements(k) if e.attrs["tag"].endswith(kind) and "parameterRef" in e.attrs["attrib"]  # noqa: E731
                         and any(a.attrs["tag"].endswith("RestrictionCriteria") for a in e.attrs["iterancestors"]())]
        for k in reversed([k for k in s_.attrs["__children__"] if is_elem(k)]):
            if k.attrs["attrib"].get("name") in referenced or not sel(k):
                continue            # a leaf: no other container names it as its base or nests it
            c = clone(k)
            e = sel(c)[0]
            cur = e.attrs["attrib"].get("useCalibratedValue", "true").lower()
            e.attrs["attrib"]["useCalibratedValue"] = "false" if cur == "true" else "true"
            append(s_, c)
            return None
        return False
    return f


def corruptions(g1):
    """(description, corrupted document, expectation) ; expectation 'reject' | 'consistent'."""
    out = []

    def mut(desc, fn, expect="reject"):
        r = clone_tree(g1)
        if fn(r) is not False:
            attach_nsmap(r)
            out.append((desc, r, expect))

    def rename_attr(tagname, attr, pick=0, new="NO_SUCH_NAME"):
        def f(r):
            els = [e for e in find_all(r, tagname) if attr in e.attrs["attrib"]]
            if len(els) <= pick:
                return False
            els[pick].attrs["attrib"][attr] = new
        return f
    mut("entry-list parameterRef renamed to an undefined name", rename_attr("ParameterRefEntry", "parameterRef", 3))
    mut("last entry-list parameterRef renamed", rename_attr("ParameterRefEntry", "parameterRef", -1))
    mut("parameterTypeRef renamed to an undefined name", rename_attr("Parameter", "parameterTypeRef", 5))
    mut("nested containerRef renamed to an undefined name", rename_attr("ContainerRefEntry", "containerRef", 0))
    mut("base containerRef renamed to an undefined name", rename_attr("BaseContainer", "containerRef", 0))
    mut("second base containerRef renamed", rename_attr("BaseContainer", "containerRef", 2))

    def dup(setname, idx, change=None):
        def f(r):
            s = find_all(r, setname)[0]
            kids = [k for k in s.attrs["__children__"] if is_elem(k)]
            c = clone(kids[idx])
            if change:
                change(c)
            append(s, c)
        return f
    mut("parameter type duplicated identically", dup("ParameterTypeSet", 8))
    mut("parameter type duplicated with a change", dup("ParameterTypeSet", 8, lambda c: [e.attrs["attrib"].__setitem__("sizeInBits", "9") for e in all_elements(c) if "sizeInBits" in e.attrs["attrib"]]))

    def dup_kind(suffix, rename_to_first=False):
        """Duplicate the first parameter type whose tag ends with `suffix` (every reader class checks names: numeric, string,
        enumerated, time types); with rename_to_first the copy takes the name of the first type of the set instead."""
        def f(r):
            s_ = find_all(r, "ParameterTypeSet")[0]
            kids = [k for k in s_.attrs["__children__"] if is_elem(k)]
            hit = [k for k in kids if k.attrs["tag"].endswith(suffix)]
            if not hit:
                return False
            c = clone(hit[0])
            if rename_to_first:
                c.attrs["attrib"]["name"] = kids[0].attrs["attrib"]["name"]
            append(s_, c)
        return f
    for suffix in ("AbsoluteTimeParameterType", "RelativeTimeParameterType", "EnumeratedParameterType", "StringParameterType", "BinaryParameterType",
                   "FloatParameterType", "BooleanParameterType"):
        mut(f"{suffix} duplicated identically", dup_kind(suffix))
        mut(f"{suffix} added under the name of another type", dup_kind(suffix, True))
    mut("parameter duplicated identically", dup("ParameterSet", 9))
    mut("parameter duplicated with a different type", dup("ParameterSet", 9, lambda c: c.attrs["attrib"].__setitem__("parameterTypeRef", "MODE_T")))
    mut("container duplicated with a change", dup("ContainerSet", 2, lambda c: c.attrs["attrib"].__setitem__("abstract", "true")))
    mut("nested container duplicated with a change", dup("ContainerSet", 1, lambda c: c.attrs["attrib"].__setitem__("abstract", "true")))
    mut("leaf container duplicated with a change", dup("ContainerSet", 3, lambda c: c.attrs["attrib"].__setitem__("abstract", "true")))
    mut("last leaf container duplicated with a change", dup("ContainerSet", 4, lambda c: c.attrs["attrib"].__setitem__("shortDescription", "other")))

    def other_long_description(c):
        from ..xmlmodel import make_elem, split_tag, clark
        ns, _ = split_tag(c.attrs["tag"])
        for k in c.attrs["__children__"]:
            if is_elem(k) and k.attrs["tag"].endswith("LongDescription"):
                k.attrs["text"] = (k.attrs["text"] or "") + " (revised)"
                return
        ld = make_elem(clark(ns, "LongDescription") if ns else "LongDescription", text="another description")
        ld.attrs["__parent__"] = c
        c.attrs["__children__"].insert(0, ld)
    mut("leaf container duplicated with another LongDescription", dup("ContainerSet", 3, other_long_description))

    mut("leaf container duplicated with useCalibratedValue flipped in a restriction Comparison", dup_with_flipped_selector("Comparison"))
    mut("leaf container duplicated with useCalibratedValue flipped in a restriction Condition operand", dup_with_flipped_selector("ParameterInstanceRef"))
    mut("container duplicated identically", dup("ContainerSet", 4), "consistent-or-reject")

    def delete(setname, name):
        def f(r):
            s = find_all(r, setname)[0]
            s.attrs["__children__"][:] = [k for k in s.attrs["__children__"] if not (is_elem(k) and k.attrs["attrib"].get("name") == name)]
        return f
    mut("used parameter definition deleted", delete("ParameterSet", "TEMP"))
    mut("used parameter type definition deleted", delete("ParameterTypeSet", "TEMP_T"))
    mut("nested container definition deleted", delete("ContainerSet", "COMMON"))
    mut("base container definition deleted", delete("ContainerSet", "SCI"))

    def unused_param(r):
        # a parameter that no entry list uses still has to name a defined type
        s = find_all(r, "ParameterSet")[0]
        kids = [k for k in s.attrs["__children__"] if is_elem(k)]
        c = clone(kids[0])
        c.attrs["attrib"]["name"] = "NOT_USED_ANYWHERE"
        c.attrs["attrib"]["parameterTypeRef"] = "NO_SUCH_TYPE"
        append(s, c)
    mut("unused parameter whose parameterTypeRef is undefined", unused_param)

    def base_cycle(r):
        for e in find_all(r, "SequenceContainer"):
            if e.attrs["attrib"].get("name") == "SCI":
                for b in find_all(e, "BaseContainer"):
                    b.attrs["attrib"]["containerRef"] = "SCI_HI"
    mut("base-container cycle SCI <-> SCI_HI", base_cycle)

    def self_base(r):
        for e in find_all(r, "SequenceContainer"):
            if e.attrs["attrib"].get("name") == "TXT":
                for b in find_all(e, "BaseContainer"):
                    b.attrs["attrib"]["containerRef"] = "TXT"
    mut("container that is its own base", self_base)

    def nest_cycle(r):
        ns = split_tag(r.attrs["tag"])[0]
        for e in find_all(r, "SequenceContainer"):
            if e.attrs["attrib"].get("name") == "COMMON":
                el = find_all(e, "EntryList")[0]
                from ..xmlmodel import clark
                append(el, make_elem(clark(ns, "ContainerRefEntry"), {"containerRef": "SCI"}))
    mut("nesting cycle COMMON -> SCI -> COMMON", nest_cycle)
    return out


def corruption_table(ctx: Ctx, g1):
    prog = ctx.prog
    for desc, doc, expect in corruptions(g1):
        site = f"{LOAD}::corruption::{desc}"
        try:
            kind, got = try_load(X.harness(prog), doc)
        except Unsupported as e:
            ctx.unknown("R17.c", site, str(e))
            continue
        if expect == "reject":
            ctx.decide(kind == "raise", "R17.c", site, f"rejected at load ({got})" if kind == "raise" else "",
                       f"a document with `{desc}` loads without error and yields a definition that fails (or misbehaves) later")
        else:
            if kind == "raise":
                ctx.proved("R17.c", site, f"rejected at load ({got})")
            else:
                bad = graph_consistency(ctx, got, site)
                ctx.decide(bad is None, "R17.c", site, "tolerated; graph stays consistent", f"`{desc}` is accepted but the graph is inconsistent: {bad}")
    # the hand-written document (leaf containers restricted by comparison lists): a duplicate that differs only in the selector
    # of one comparison is a conflicting duplicate
    from ..xmlmodel import parse_text
    site = f"{LOAD}::corruption::hand-written document: leaf container duplicated with useCalibratedValue flipped in a Comparison"
    try:
        doc = parse_text(X.third_text())
        if dup_with_flipped_selector("Comparison")(doc) is False:
            ctx.unknown("R17.c", site, "no leaf container with a Comparison found")
        else:
            attach_nsmap(doc)
            kind, got = try_load(X.harness(prog), doc)
            ctx.decide(kind == "raise", "R17.c", site, f"rejected at load ({got})" if kind == "raise" else "",
                       "a document with two containers of one name that differ in the useCalibratedValue of a restriction comparison loads without error "
                       "(the first definition silently wins)")
    except Unsupported as e:
        ctx.unknown("R17.c", site, str(e))
    # what a load decides does not depend on earlier loads in the same process: after a load that was rejected half-way, a
    # document with a deleted definition is still rejected and the valid document still loads consistently
    cs = {d: (doc, ex) for d, doc, ex in corruptions(g1)}
    site = f"{LOAD}::corruption::rejected load, then a document with a deleted definition, then the valid document"
    try:
        h = X.harness(prog)
        verdicts = []
        for first in ("nesting cycle COMMON -> SCI -> COMMON", "container duplicated with a change", "last entry-list parameterRef renamed"):
            k1, _ = try_load(h, cs[first][0])
            for later in ("nested container definition deleted", "base container definition deleted", "used parameter definition deleted"):
                k2, got2 = try_load(h, cs[later][0])
                if k2 != "raise":
                    verdicts.append(f"after the rejected load of `{first}`, the document with `{later}` loads without error")
            k3, got3 = try_load(h, clone_tree(g1))
            if k3 != "ok":
                verdicts.append(f"after the rejected load of `{first}`, the valid document fails to load: {got3}")
            else:
                bad = graph_consistency(ctx, got3, site)
                if bad:
                    verdicts.append(f"after the rejected load of `{first}`, the valid document loads inconsistently: {bad}")
        ctx.decide(not verdicts, "R17.c", site, "loads are independent of earlier (failed) loads", "; ".join(verdicts[:2]))
    except Unsupported as e:
        ctx.unknown("R17.c", site, str(e))
    except KeyError as e:
        ctx.unknown("R17.c", site, f"corruption {e} not available")
    # the same through the package-level loader and a *path*: what is loaded is what the file holds now, not what an earlier
    # load of the same path returned
    site = f"{LOAD}::corruption::same path loaded again after the file changed"
    try:
        if prog.func_opt("__init__.py::load_xml") is None:
            ctx.note("no package-level load_xml(filename): path histories not applicable")
        else:
            docs = {}
            h = X.harness(prog, documents=docs)
            verdicts = []
            docs["def.xml"] = clone_tree(g1)
            attach_nsmap(docs["def.xml"])
            k1, d1 = h.outcome("load_xml(p)", "__init__.py", p="def.xml")
            if k1 != "ok":
                verdicts.append(f"the valid document does not load through load_xml: {d1}")
            for later in ("nested container definition deleted", "used parameter type definition deleted", "parameter duplicated with a different type"):
                docs["def.xml"] = cs[later][0]
                k2, got2 = h.outcome("load_xml(p)", "__init__.py", p="def.xml")
                if k2 != "raise":
                    verdicts.append(f"after def.xml was overwritten with a document with `{later}`, load_xml('def.xml') still returns a definition")
            docs["def.xml"] = clone_tree(g1)
            attach_nsmap(docs["def.xml"])
            k3, d3 = h.outcome("load_xml(p)", "__init__.py", p="def.xml")
            if k3 == "ok" and k1 == "ok" and d3 is d1:
                verdicts.append("two loads of the same path return one shared definition object (a change made through one is seen through the other)")
            ctx.decide(not verdicts, "R17.c", site, "every load reads the file", "; ".join(verdicts[:2]))
    except (Unsupported, StepLimit) as e:
        ctx.unknown("R17.c", site, str(e))


def guarded_inserts(ctx: Ctx):
    """R17.1: registry[name] = obj is dominated by a test `name in registry` / `not in` on the same registry."""
    prog = ctx.prog
    sites = 0
    for key in (f"{DEF}::XtcePacketDefinition._parse_parameter_type_set", f"{DEF}::XtcePacketDefinition._parse_parameter_set",
                f"{DEF}::XtcePacketDefinition._parse_container_set", "xtce/containers.py::SequenceContainer.from_xml"):
        fi = prog.func_opt(key)
        if fi is None:
            ctx.unknown("R17.1", key, "loader stage not found")
            continue
        cfg = CFG(fi.node)
        dom = cfg.dominators()
        for n in walk_local(fi.node):
            if isinstance(n, ast.Assign) and len(n.targets) == 1 and isinstance(n.targets[0], ast.Subscript) and \
                    isinstance(n.targets[0].value, ast.Name) and ("lookup" in n.targets[0].value.id or "dict" in n.targets[0].value.id):
                reg = n.targets[0].value.id
                sites += 1
                node = cfg.node_of(n)
                guarded = False
                for t in cfg.nodes:
                    if t.kind == "test" and node is not None and t.id in dom.get(node.id, set()):
                        for c in ast.walk(t.ast):
                            if isinstance(c, ast.Compare) and any(isinstance(o, (ast.In, ast.NotIn)) for o in c.ops) and \
                                    any(isinstance(x, ast.Name) and x.id == reg for x in c.comparators):
                                guarded = True
                            if isinstance(c, ast.Call) and isinstance(c.func, ast.Attribute) and c.func.attr in ("get", "__contains__", "keys") \
                                    and isinstance(c.func.value, ast.Name) and c.func.value.id == reg:
                                guarded = True
                ctx.decide(guarded or None, "R17.1", f"{key}::{norm(n.targets[0])}", "insert guarded by a membership test on the registry",
                           f"`{norm(n)}` is not dominated by a membership test on `{reg}`: a second definition of the same name silently "
                           f"replaces the first while earlier references keep pointing at the old object", where=where(fi, n))
    ctx.stats["registry_inserts"] = sites


def inheritors_rule(ctx: Ctx):
    prog = ctx.prog
    writers = []
    for fi in prog.functions.values():
        for n in walk_local(fi.node):
            if isinstance(n, ast.Call) and isinstance(n.func, ast.Attribute) and n.func.attr in ("append", "extend", "insert", "remove", "clear", "pop") \
                    and isinstance(n.func.value, ast.Attribute) and n.func.value.attr == "inheritors":
                writers.append((fi, n))
            if isinstance(n, (ast.Assign, ast.AugAssign)):
                for t in (n.targets if isinstance(n, ast.Assign) else [n.target]):
                    if isinstance(t, ast.Attribute) and t.attr == "inheritors" and fi.name not in ("__init__", "__post_init__"):
                        writers.append((fi, n))
    from ..callgraph import CallGraph
    load_closure = CallGraph(prog).closure([LOAD, f"{DEF}::XtcePacketDefinition.__init__"])
    for fi, n in writers:
        ok = fi.key in load_closure
        ctx.decide(ok, "R17.3", f"{fi.key}::{norm(n)[:70]}", "inheritor lists are written by the back-population only",
                   f"`{norm(n)[:70]}` changes an inheritor list outside the loader's back-population", where=where(fi, n))
    if not writers:
        ctx.unknown("R17.3", f"{DEF}::XtcePacketDefinition._parse_container_set::inheritors",
                    "no statement writing an `.inheritors` list recognised (decided by the graph table R17.g)")
    ci = prog.classes.get("SequenceContainer")
    if ci is not None:
        for fname in ("inheritors", "restriction_criteria"):
            ann = ci.ann_attrs.get(fname)
            v = ann.value if ann is not None else None
            shared = isinstance(v, (ast.List, ast.Dict, ast.Set))
            ctx.decide(not shared and v is not None, "R17.3", f"xtce/containers.py::SequenceContainer::{fname}-default",
                       "mutable default built by a factory", f"dataclass field {fname} has a shared mutable default")


def check(ctx: Ctx) -> None:
    g1 = ctx.guard("R17.g", LOAD, consistency, ctx)
    if g1 is not None:
        ctx.guard("R17.c", LOAD, corruption_table, ctx, g1)
    ctx.guard("R17.1", DEF, guarded_inserts, ctx)
    ctx.guard("R17.3", DEF, inheritors_rule, ctx)


def mutants(prog):
    import re
    out = []

    def sub(rel, name, pattern, repl, expect="R17", flags=0):
        src = prog.files[rel]
        new, n = re.subn(pattern, repl, src, count=1, flags=flags)
        if n:
            out.append((name, rel, new, expect))

    cont = "xtce/containers.py"
    sub(DEF, "duplicate parameter types overwrite", r"            if parameter_type_object\.name in parameter_type_dict:\n                raise ValueError\(f\"Found duplicate parameter type \{parameter_type_object\.name\}\. \"\n                                 f\"Parameter types names are expected to be unique\"\)\n", "")
    sub(DEF, "duplicate parameters overwrite", r"            if parameter_object\.name in parameter_lookup:\n                raise ValueError\(f\"Found duplicate parameter name \{parameter_object\.name\}\. \"\n                                 \"Parameters are expected to be unique\"\)\n", "")
    sub(DEF, "equal duplicate container replaces the registered one", r"            elif container_lookup\[sequence_container\.name\] == sequence_container:\n                continue",
        "            elif container_lookup[sequence_container.name] == sequence_container:\n                container_lookup[sequence_container.name] = sequence_container")
    sub(DEF, "conflicting duplicate container accepted", r"            else:\n                raise ValueError\(f\"Found duplicate sequence container name \"", "            elif False:\n                raise ValueError(f\"Found duplicate sequence container name \"")
    sub(DEF, "inheritors only for restricted children", r"if sc\.base_container_name:\n", "if sc.base_container_name and sc.restriction_criteria and len(sc.restriction_criteria) > 1:\n")
    sub(DEF, "inheritors appended twice", r"(                container_lookup\[sc\.base_container_name\]\.inheritors\.append\(name\)\n)", r"\1\1")
    sub(cont, "undefined parameterRef skipped", r"entry_list\.append\(parameter_lookup\[parameter_name\]\)  # KeyError if parameter is not in the lookup",
        "if parameter_name in parameter_lookup:\n                    entry_list.append(parameter_lookup[parameter_name])")
    sub(cont, "zero matches raise ElementNotFoundError", r"        if len\(containers\) != 1:\n            raise ValueError\(", "        if len(containers) == 0:\n            raise ElementNotFoundError(")
    sub(cont, "nested container re-parsed every time", r"if entry\.attrib\['containerRef'\] in container_lookup:", "if False:")
    sub(cont, "base container not parsed eagerly", r"            if base_container_name not in container_lookup:\n", "            if False:\n")
    return out


SPEC = PropSpec(
    pid="C17",
    title="A loaded definition is a consistent object graph; broken documents fail at load",
    check=check,
    floors={"R17.g": 7, "R17.c": 20, "R17.1": 4, "R17.3": 3},
    fallback={"R17.3": ("R17.g",), "R17.1": ("R17.c",)},
    explanation=("The loader is interpreted on the XML model. R17.g: the checker's document (all classes, nested and "
                 "inherited containers) is loaded in five element orders (users before/after what they reference) and the "
                 "resulting object graph is checked by identity: registries keyed by the object's own name, entry lists and "
                 "parameter types are the registry objects themselves, inheritor lists equal the set of containers naming "
                 "the container as base, each once. R17.c: 21 single-point corruptions (each kind of structural reference "
                 "renamed to an undefined name, definitions duplicated identically / with a change, definitions deleted, "
                 "base cycle, self base, nesting cycle) must be rejected at load (any exception, including the "
                 "interpreter's recursion limit for cycles); an identical duplicate container may be tolerated if the "
                 "graph stays consistent. R17.1 structural: every registry insert is dominated by a membership test. "
                 "R17.3: inheritor lists have one writer; mutable dataclass defaults are factories."
                 ' Graph variants include unconditional inheritance and a forward-referenced diamond (a container nested directly and through another nested container).'
                 ' After a load that was rejected half-way, documents with deleted definitions are still rejected and the valid document still loads consistently; the same through load_xml and a path whose file changed; an unused parameter must still name a defined type.'
                 ' Duplicates that differ only in a short or long description are conflicting duplicates.'
                 ' Duplicates that differ only in a useCalibratedValue (Comparison of the hand-written document, Condition operand of the all-features document) are conflicting duplicates.'),
    rule_doc="R17.g per element order; R17.c per corruption; R17.1 per registry insert; R17.3 per writer/default",
    assumptions=["lxml ElementPath semantics as modelled", "cycles are rejected through Python's recursion limit (RecursionError)"],
    mutants=mutants,
    technique="abstract interpretation of the loader over corrupted model documents; identity check of the object graph; guarded-insert dominance",
)

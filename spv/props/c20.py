"""C20 - parsed values are drop-in built-ins with a raw value and survive copying (DESIGN 5, C20).

Class-shape rules (what hashing/ordering/arithmetic/formatting/copy/pickle of the built-in subclasses rest on):
R20.1 base table (mixin first, then exactly the matching built-in).
R20.2 constructor: decision table of ``_Parameter.__new__`` by abstract interpretation for each value class x
      {falsy, ordinary} value x {raw omitted, raw falsy, raw ordinary}: value forwarded to the built-in constructor,
      raw chosen by an ``is None`` test; the constructor is not memoised (no cache decorator).
R20.3 copy/pickle preconditions: reconstruction protocol cls.__new__(cls, value) + __dict__ works: raw_value has a
      default, no custom reduce/getstate/slots hooks on the value classes, CCSDSPacket, RawPacketData; the packet's
      constructor has no required argument; the cursor is a plain instance attribute.
R20.4 no overriding dunder changes comparison/hash/ordering/arithmetic/formatting (exceptions listed with reasons).
"""
from __future__ import annotations

import ast

from ..astutil import dotted, norm, walk_local
from ..core import Ctx, PropSpec, Unsupported
from ..extract import where
from ..harness import Harness, cursor
from ..interp import pub, BytesObj, ClassRef, FloatObj, IntObj, Raised, StrObj

CM = "common.py"
BASES = {"BinaryParameter": "bytes", "BoolParameter": "int", "FloatParameter": "float", "IntParameter": "int",
         "StrParameter": "str"}
NATIVE = {"bytes": BytesObj, "int": IntObj, "float": FloatObj, "str": StrObj}
VALUES = {"bytes": [b"", b"\x00", b"ab"], "int": [0, 1, -5, 2 ** 70], "float": [0.0, -0.0, 2.5, float("inf")],
          "str": ["", "a", "é中"]}
RAWS = {"bytes": [None, b"", b"\x01"], "int": [None, 0, 7], "float": [None, 0, 0.0, 3], "str": [None, b"", b"raw", ""]}
HOOKS = ("__reduce__", "__reduce_ex__", "__getnewargs__", "__getnewargs_ex__", "__getstate__", "__setstate__",
         "__copy__", "__deepcopy__")
BEHAVIOUR_DUNDERS = {"__eq__", "__ne__", "__lt__", "__le__", "__gt__", "__ge__", "__hash__", "__bool__", "__int__",
                     "__float__", "__index__", "__str__", "__format__", "__bytes__", "__len__", "__getitem__",
                     "__contains__", "__iter__", "__add__", "__radd__", "__sub__", "__rsub__", "__mul__", "__rmul__",
                     "__truediv__", "__floordiv__", "__mod__", "__neg__", "__abs__", "__and__", "__or__", "__xor__",
                     "__lshift__", "__rshift__", "__pow__", "__round__", "__divmod__", "__invert__", "__pos__",
                     "__rtruediv__", "__rfloordiv__", "__rmod__"}
ALLOWED_DUNDERS = {("BoolParameter", "__repr__"): "int-backed boolean shows as True/False (documented representation)"}
CACHE_DECOS = {"lru_cache", "cache", "functools.lru_cache", "functools.cache", "cached", "memoize"}


def mixin_name(prog) -> str:
    """The raw-value mixin: the package class that every value class lists first among its bases (found by role)."""
    cands = None
    for cname in BASES:
        if cname not in prog.classes:
            continue
        m = [b for b in prog.mro(cname)[1:] if b in prog.classes]
        cands = set(m) if cands is None else cands & set(m)
    if cands:
        for b in prog.mro("IntParameter")[1:]:
            if b in cands:
                return b
    return "_Parameter"


def base_table(ctx: Ctx):
    prog = ctx.prog
    MIX = mixin_name(prog)
    for cname, base in BASES.items():
        site = f"{CM}::{cname}::bases"
        ci = prog.classes.get(cname)
        if ci is None:
            ctx.unknown("R20.1", site, "value class not found")
            continue
        mro = prog.mro(cname)
        builtins = [b for b in mro if b in ("bytes", "int", "float", "str", "bytearray", "bool", "complex", "object", "dict", "list", "tuple")]
        ok = len(mro) >= 3 and mro[1] == MIX and builtins[:1] == [base] and len([b for b in builtins if b != "object"]) == 1
        ctx.decide(ok, "R20.1", site, f"{cname}(_Parameter, {base})",
                   f"{cname} has MRO {mro}; it must be the raw-value mixin first, then exactly the built-in `{base}`",
                   where=f"space_packet_parser/{CM}:{ci.node.lineno}")


def constructor(ctx: Ctx):
    prog = ctx.prog
    fi = prog.resolve_method("IntParameter", "__new__")
    if fi is None:
        ctx.unknown("R20.2", f"{CM}::_Parameter.__new__", "no __new__ through the MRO of the value classes")
        return
    bad_deco = [d for d in fi.decorators if d in CACHE_DECOS]
    ctx.decide(not bad_deco, "R20.2", f"{fi.key}::not-memoised", "constructor is not cached",
               f"the constructor is wrapped in {bad_deco}: equal-but-distinguishable values (0.0/-0.0, 1/1.0 raw) collapse "
               f"into one shared object and copy/pickle reconstruction overwrites the raw value of an earlier object",
               where=where(fi, fi.node))
    for cname, base in BASES.items():
        f2 = prog.resolve_method(cname, "__new__")
        site = f"{CM}::{cname}::constructor"
        if f2 is None:
            ctx.unknown("R20.2", site, "no __new__")
            continue
        nat = NATIVE[base]

        def super_new(selfv, cls, value, *a, cname=cname, nat=nat):
            return nat(value, cls=cname)
        h = Harness(prog, {"super:__new__": super_new})
        bad = None
        try:
            for v in VALUES[base]:
                for raw in RAWS[base]:
                    args = "cls, v" if raw is None else "cls, v, raw"
                    kind, got = h.outcome(f"new({args})", CM, new=f2, cls=ClassRef(cname), v=v, raw=raw)
                    if kind != "ok":
                        bad = f"{cname}({v!r}{'' if raw is None else ', ' + repr(raw)}) raises {got}"
                        break
                    want_raw = v if raw is None else raw
                    gr = got.attrs.get("raw_value", "<missing>") if hasattr(got, "attrs") else "<not a value object>"
                    same_val = isinstance(got, nat) and (got == v or (v != v and got != got)) and \
                        (repr(nat.__mro__[2](got)) == repr(v))
                    same_raw = (gr is want_raw) or (type(gr) is type(want_raw) and repr(gr) == repr(want_raw))
                    if not (same_val and same_raw):
                        bad = (f"{cname}({v!r}{'' if raw is None else ', ' + repr(raw)}): value {got!r}, raw_value {gr!r}; "
                               f"expected value {v!r} and raw_value {want_raw!r}")
                        break
                if bad:
                    break
        except Unsupported as e:
            ctx.unknown("R20.2", site, str(e))
            continue
        ctx.decide(bad is None, "R20.2", site, "value forwarded, raw chosen by `is None`", bad or "", where=where(f2, f2.node))
    # pickle/copy reconstruction calls cls.__new__(cls, value): the raw value parameter needs a default
    a = fi.node.args
    pos = a.posonlyargs + a.args
    ndef = len(a.defaults)
    required = [x.arg for x in pos[:len(pos) - ndef]]
    ctx.decide(len(required) <= 2 and not [k for k, d in zip(a.kwonlyargs, a.kw_defaults) if d is None], "R20.3",
               f"{fi.key}::reconstruction-signature", "cls.__new__(cls, value) is a valid call",
               f"__new__ requires {required[1:]}: copy/pickle reconstruct with cls.__new__(cls, value) only", where=where(fi, fi.node))


def hooks(ctx: Ctx):
    prog = ctx.prog
    MIX = mixin_name(prog)
    classes = list(BASES) + [MIX, "CCSDSPacket", "RawPacketData"]
    for cname in classes:
        ci = prog.classes.get(cname)
        site = f"{cname}::pickle-hooks"
        if ci is None:
            ctx.unknown("R20.3", site, "class not found")
            continue
        defined = [hk for hk in HOOKS if hk in ci.methods or hk in ci.attrs]       # `__copy__ = copy` in the class body counts
        slots = "__slots__" in ci.attrs
        if not defined and not slots:
            ctx.proved("R20.3", site, "default reconstruction protocol (no custom reduce/state hooks, no __slots__)")
            continue
        if slots and not any(hk in defined for hk in ("__getstate__", "__reduce__", "__reduce_ex__")):
            # copyreg._reduce_ex (pickle protocols 0 and 1): "a class that defines __slots__ without defining __getstate__
            # cannot be pickled" - TypeError for every instance
            sl = ci.attrs.get("__slots__")
            nonempty = not (isinstance(sl, (ast.Tuple, ast.List)) and not sl.elts)
            ctx.decide(not nonempty, "R20.3", site, "empty __slots__",
                       f"{cname} declares non-empty __slots__ but no __getstate__: pickling an instance with protocol 0 or 1 raises TypeError "
                       f"(\"a class that defines __slots__ without defining __getstate__ cannot be pickled\")",
                       where=f"space_packet_parser/{ci.relpath}:{ci.node.lineno}")
            continue
        # a custom hook is not wrong by itself; decide it by emulating the default copy protocol on a model object
        verdict = emulate_copy(ctx, cname, defined, slots)
        fn = ci.methods.get(defined[0]) if defined else None
        wh = where(fn, fn.node) if fn else f"space_packet_parser/{ci.relpath}:{ci.node.lineno}"
        if verdict is None:
            ctx.unknown("R20.3", site, f"{cname} defines {defined + (['__slots__'] if slots else [])}; cannot decide whether copies keep "
                                       f"their state", where=wh)
        else:
            ok, why = verdict
            ctx.decide(ok, "R20.3", site, why, why, where=wh)
    # packet constructor must be callable without arguments (dict subclass reconstruction: cls() then items, then __dict__)
    fi = prog.resolve_method("CCSDSPacket", "__init__")
    if fi is not None:
        a = fi.node.args
        pos = a.posonlyargs + a.args
        required = [x.arg for x in pos[1:len(pos) - len(a.defaults)]] + [k.arg for k, d in zip(a.kwonlyargs, a.kw_defaults) if d is None]
        ctx.decide(not required, "R20.3", f"{fi.key}::no-required-argument", "CCSDSPacket() is a valid call",
                   f"CCSDSPacket.__init__ requires {required}: copy/pickle of the dict subclass reconstruct with cls()", where=where(fi, fi.node))
    # pickle stores instances of a class by reference to module.<class __name__>: a namedtuple / dynamically created class whose
    # name differs from the module-level name it is bound to cannot be pickled, and an instance kept in the state of a packet
    # or value object (e.g. by a cached property) makes the whole packet unpicklable
    n_dyn = 0
    state_classes = set(classes)
    for rel, m in prog.modules.items():
        for bound, v in m.consts.items():
            if not (isinstance(v, ast.Call) and v.args and isinstance(v.args[0], ast.Constant) and isinstance(v.args[0].value, str)):
                continue
            fn = (dotted(v.func) or "").split(".")[-1]
            if fn not in ("namedtuple", "NamedTuple", "Enum", "IntEnum", "type", "make_dataclass", "TypedDict"):
                continue
            def keeps(fi):
                """Does this method put an instance into the object's state?  (a cached property returning one, or a store of an
                expression that mentions the class into an attribute of self)"""
                mentions = lambda node: any(isinstance(n, ast.Name) and n.id == bound for n in ast.walk(node))   # noqa: E731
                if "cached_property" in fi.decorators and mentions(fi.node):
                    return True
                for n in walk_local(fi.node):
                    if isinstance(n, (ast.Assign, ast.AnnAssign)) and n.value is not None and mentions(n.value):
                        tgts = n.targets if isinstance(n, ast.Assign) else [n.target]
                        if any(isinstance(t, (ast.Attribute, ast.Subscript)) and fi.params and (dotted(t) or "").split(".")[0] == fi.params[0]
                               for t in tgts):
                            return True
                return False
            users = [fi for fi in prog.functions.values() if fi.cls is not None and fi.cls.name in state_classes and keeps(fi)]
            if not users:
                continue
            n_dyn += 1
            tname = v.args[0].value
            ctx.decide(tname == bound, "R20.3", f"{rel}::{bound}::picklable-by-reference", f"{bound} = {fn}({tname!r}, ...)",
                       f"`{bound} = {fn}({tname!r}, ...)` is used by {users[0].key}: its instances are pickled as {rel[:-3].replace('/', '.')}.{tname}, "
                       f"a name that does not exist in the module, so a packet or value holding one cannot be pickled",
                       where=where(users[0], users[0].node))
    ctx.stats["dynamic_classes_in_state"] = n_dyn
    # the cursor: class-level default plus per-instance stores by the readers (so it lives in __dict__)
    ci = prog.classes.get("RawPacketData")
    if ci is not None:
        # a packet reconstructed without any instance state (bytes.__new__ only) still has a cursor, at bit 0
        try:
            hh = Harness(prog)
            k, got = hh.outcome("obj.pos", "packets.py", obj=BytesObj(b"\x00\x01\x02\x03\x04\x05\x06", cls="RawPacketData"))
            ctx.decide(k == "ok" and got == 0 and type(got) is int, "R20.3", "packets.py::RawPacketData::pos-default", "cursor default 0 without instance state",
                       f"a RawPacketData reconstructed without instance state has no usable cursor: reading `pos` gives {got!r}")
        except Unsupported as e:
            ctx.unknown("R20.3", "packets.py::RawPacketData::pos-default", str(e))


def emulate_value_pickle(ctx: Ctx, cname: str, defined):
    """object.__reduce_ex__ for a subclass of a built-in, both protocol families:
       protocols 0/1: copyreg._reconstructor(cls, base, base(obj)) = base.__new__(cls, value) - the class's own __new__ is
                      NOT called - then state (custom __getstate__() or __dict__) via __setstate__ / __dict__.update;
       protocols 2+ (also copy.copy / copy.deepcopy): cls.__new__(cls, *__getnewargs__()) then the same state step."""
    prog = ctx.prog
    if any(d in ("__reduce__", "__reduce_ex__", "__copy__", "__deepcopy__", "__getnewargs_ex__") for d in defined):
        return None
    targets = list(BASES) if cname == mixin_name(prog) else [cname]
    for vc in targets:
        base = BASES[vc]
        nat = NATIVE[base]
        val = VALUES[base][-2] if base != "float" else 2.5
        raw = RAWS[base][-1]

        def super_new(selfv, cls, value, *a, vc=vc, nat=nat):
            return nat(value, cls=vc)
        h = Harness(prog, {"super:__new__": super_new, "super:__getnewargs__": lambda selfv, nat=nat: (nat.__mro__[2](selfv),)})
        obj = nat(val, cls=vc, raw_value=raw)
        obj.attrs["__dict__"] = obj.attrs
        try:
            if prog.resolve_method(vc, "__getstate__") is not None:
                k, state = h.outcome("o.__getstate__()", CM, o=obj)
                if k != "ok":
                    return (False, f"{vc}.__getstate__ raises {state}")
            else:
                state = {k2: v for k2, v in obj.attrs.items() if k2 != "__dict__"}
            if prog.resolve_method(vc, "__getnewargs__") is not None:
                k, args = h.outcome("o.__getnewargs__()", CM, o=obj)
                if k != "ok":
                    return (False, f"{vc}.__getnewargs__ raises {args}")
            else:
                args = (nat.__mro__[2](obj),)
            newf = prog.resolve_method(vc, "__new__")
            for proto, how in (("0/1", "base"), ("2+", "cls")):
                if how == "base":
                    new = nat(nat.__mro__[2](obj), cls=vc)
                else:
                    k, new = h.outcome("new(cls, *args)", CM, new=newf, cls=ClassRef(vc), args=tuple(args))
                    if k != "ok":
                        return (False, f"{vc}: reconstruction cls.__new__(cls, *{args!r}) raises {new}")
                if isinstance(state, dict):
                    if prog.resolve_method(vc, "__setstate__") is not None:
                        h.outcome("n.__setstate__(s)", CM, n=new, s=state)
                    else:
                        new.attrs.update({k2: v for k2, v in state.items() if k2 != "__dict__"})
                elif state is not None:
                    return None
                got_raw = new.attrs.get("raw_value", "<missing>")
                if not (new == obj and repr(got_raw) == repr(raw)):
                    return (False, f"pickling {vc}({val!r}, raw {raw!r}) with protocol {proto} gives value {nat.__mro__[2](new)!r} with raw_value "
                                   f"{got_raw!r}: the custom {defined} hooks lose the raw value on that reconstruction path")
        except Unsupported:
            return None
    return (True, f"custom hooks {defined} keep value and raw_value on both reconstruction paths (emulated)")


def emulate_packet_copy(ctx: Ctx, defined):
    """Custom __copy__/__deepcopy__ on CCSDSPacket: interpret it on a partially parsed model packet; a deep copy must
    not share the raw_data object (and its cursor) with the original."""
    import copy as _copy
    prog = ctx.prog
    from ..interp import DictObj
    def bare_new(cls_, *a, **k):
        o = DictObj(cls="CCSDSPacket")
        o.attrs["__dict__"] = o.attrs
        return o
    h = Harness(prog, {"copy.deepcopy": _copy.deepcopy, "copy.copy": _copy.copy, "CCSDSPacket.__new__": bare_new, "id": id})
    try:
        p = DictObj(cls="CCSDSPacket", raw_data=BytesObj(b"\x00\x01\x02\x03", cls="RawPacketData", pos=16))
        p["A"] = IntObj(5, cls="IntParameter", raw_value=5)
        p.attrs["__dict__"] = p.attrs
        if "__deepcopy__" in defined:
            k, c = h.outcome("p.__deepcopy__({})", "packets.py", p=p)
            if k != "ok":
                return (False, f"CCSDSPacket.__deepcopy__ raises {c}")
            r0, r1 = pub(p, "raw_data"), pub(c, "raw_data")
            if r1 is None or r1 is r0:
                return (False, "copy.deepcopy of a parsed packet shares the RawPacketData object with the original: advancing the "
                               "cursor of one moves the other")
            if bytes(r1) != bytes(r0) or cursor(h, r1) != 16 or dict(c) != dict(p):
                return (False, f"copy.deepcopy of a parsed packet differs: cursor {r1.attrs.get('pos')} items {dict(c)}")
        if "__copy__" in defined:
            k, c = h.outcome("p.__copy__()", "packets.py", p=p)
            if k != "ok" or dict(c) != dict(p) or pub(c, "raw_data") is None:
                return (False, "copy.copy of a parsed packet loses items or raw data")
            r0, r1 = pub(p, "raw_data"), pub(c, "raw_data")
            if bytes(r1) != bytes(r0) or cursor(h, r1) != 16:
                return (False, f"copy.copy of a packet parsed up to bit 16 comes back with raw bytes {bytes(r1).hex()} and cursor {cursor(h, r1)}: "
                               f"the copy does not continue where the original stands")
        return (True, "custom copy hooks keep items, raw bytes and an independent cursor (emulated)")
    except Unsupported:
        return None


def emulate_copy(ctx: Ctx, cname: str, defined, slots):
    """copy/pickle protocol 2 on a model object: state = __getstate__() (or __dict__), new = cls.__new__(cls, *args),
    then __setstate__(state) or __dict__.update(state).  Returns (ok, why) or None when it cannot be emulated."""
    prog = ctx.prog
    if slots:
        return None
    if cname in BASES or cname == mixin_name(prog):
        return emulate_value_pickle(ctx, cname, defined)
    if cname == "CCSDSPacket" and all(d in ("__copy__", "__deepcopy__") for d in defined):
        return emulate_packet_copy(ctx, defined)
    if any(d in ("__reduce__", "__reduce_ex__", "__copy__", "__deepcopy__", "__getnewargs__", "__getnewargs_ex__") for d in defined):
        return None
    if cname != "RawPacketData":
        return None
    try:
        h = Harness(prog, {"hasattr": lambda o, n: _hasattr(prog, o, n), "vars": lambda o: o.attrs})
        obj = BytesObj(b"\x00\x01\x02\x03", cls="RawPacketData", pos=24, apid=1)
        obj.attrs["__dict__"] = obj.attrs
        if "__getstate__" in defined:
            kind, state = h.outcome("obj.__getstate__()", "packets.py", obj=obj)
            if kind != "ok":
                return (False, f"RawPacketData.__getstate__ raises {state} on a partially parsed packet")
        else:
            state = dict(obj.attrs)
        new = BytesObj(bytes(obj), cls="RawPacketData")
        if "__setstate__" in defined:
            kind, _ = h.outcome("new.__setstate__(state)", "packets.py", new=new, state=state)
            if kind != "ok":
                return (False, "RawPacketData.__setstate__ raises on its own state")
        elif isinstance(state, dict):
            new.attrs.update({k: v for k, v in state.items() if k != "__dict__"})
        elif state is not None:
            return None
        pos = cursor(h, new)
        if pos != 24:
            return (False, f"a copy/pickle of a RawPacketData whose cursor is at bit 24 comes back with cursor {pos}: "
                           f"the custom state hook drops the cursor")
        return (True, "custom state hooks keep the cursor (emulated copy protocol)")
    except Unsupported:
        return None


def _hasattr(prog, o, name):
    if isinstance(o, ClassRef):
        return prog.resolve_method(o.name, name) is not None or prog.resolve_attr(o.name, name)[1] is not None
    if hasattr(o, "attrs"):
        if name in o.attrs:
            return True
        if getattr(o, "cls", None):
            return _hasattr(prog, ClassRef(o.cls), name)
    return False


def dunders(ctx: Ctx):
    prog = ctx.prog
    for cname in list(BASES) + [mixin_name(prog)]:
        ci = prog.classes.get(cname)
        if ci is None:
            continue
        found = False
        for m, fi in ci.methods.items():
            if m in BEHAVIOUR_DUNDERS:
                found = True
                ctx.refuted("R20.4", f"{fi.key}::override",
                            f"{cname} overrides {m}: the value no longer compares/hashes/orders/formats/computes exactly "
                            f"like the plain built-in it derives from", where=where(fi, fi.node)) \
                    if not _is_passthrough(fi) else ctx.proved("R20.4", f"{fi.key}::override", "pass-through to super()")
            elif m.startswith("__") and m.endswith("__") and m not in ("__new__", "__init__", "__repr__", "__doc__") \
                    and (cname, m) not in ALLOWED_DUNDERS and m not in HOOKS:
                ctx.note(f"{cname} defines {m} (not part of the contract checked here)")
        if "__eq__" in ci.methods and "__hash__" not in ci.methods:
            pass   # already refuted above
        if not found:
            ctx.proved("R20.4", f"{CM}::{cname}::no-behaviour-dunders", "inherits comparison/hash/arithmetic/format from the built-in")


def _is_passthrough(fi) -> bool:
    body = [s for s in fi.node.body if not (isinstance(s, ast.Expr) and isinstance(s.value, ast.Constant))]
    if len(body) == 1 and isinstance(body[0], ast.Return) and isinstance(body[0].value, ast.Call):
        c = body[0].value
        if isinstance(c.func, ast.Attribute) and c.func.attr == fi.name and isinstance(c.func.value, ast.Call) \
                and dotted(c.func.value.func) == "super":
            params = fi.params[1:]
            return [dotted(a) for a in c.args] == params and not c.keywords
    return False


def unpicklable(prog, v, path="packet", seen=None, depth=0):
    """Why pickle cannot serialise the model value `v` (None when it can): functions defined inside other functions and
    lambdas ("Can't pickle local object"), XML nodes, other objects of unknown kind. Instances of module-level program
    classes are pickled by reference to their class plus their state, which is walked in turn."""
    from ..interp import BoundMethod, Closure, Obj, _NativeModel
    from ..program import FuncInfo
    seen = set() if seen is None else seen
    if id(v) in seen or depth > 40:
        return None
    if v is None or type(v) in (bool, int, float, str, bytes, complex, bytearray):
        return None
    seen.add(id(v))
    if isinstance(v, Closure):
        if isinstance(v.node, ast.Lambda) or v.fi is None or v.fi.parent is not None:
            name = "<lambda>" if isinstance(v.node, ast.Lambda) else getattr(v.node, "name", "?")
            return f"{path} is the function `{name}` defined inside {v.fi.parent.key if v.fi is not None and v.fi.parent is not None else v.relpath}: pickle raises \"Can't pickle local object\""
        return None
    if isinstance(v, FuncInfo):
        return None if v.parent is None else f"{path} is the nested function {v.key}"
    if isinstance(v, BoundMethod):
        return unpicklable(prog, v.self_val, path + ".__self__", seen, depth + 1)
    if isinstance(v, ClassRef):
        return None
    if isinstance(v, (list, tuple, set, frozenset)):
        for i, x in enumerate(v):
            r = unpicklable(prog, x, f"{path}[{i}]", seen, depth + 1)
            if r:
                return r
        if not isinstance(v, _NativeModel):
            return None
    if isinstance(v, dict):
        for k, x in v.items():
            r = unpicklable(prog, k, f"{path} key", seen, depth + 1) or unpicklable(prog, x, f"{path}[{k!r}]", seen, depth + 1)
            if r:
                return r
        if not isinstance(v, _NativeModel):
            return None
    if isinstance(v, (Obj, _NativeModel)):
        if isinstance(v, Obj) and v.attrs.get("__node__"):
            return f"{path} is an XML node (lxml elements cannot be pickled)"
        if isinstance(v, Obj) and (v.cls is None or v.cls not in prog.classes):
            return f"{path} is an object of a kind pickling is not modelled for ({v.cls or 'external object'})"
        for k, x in v.attrs.items():
            if k.startswith("__") and k.endswith("__"):
                continue
            r = unpicklable(prog, x, f"{path}.{k}", seen, depth + 1)
            if r:
                return r
        return None
    try:
        import pickle
        pickle.dumps(v)
        return None
    except Exception as e:
        return f"{path} is a {type(v).__name__}: {type(e).__name__}: {e}"


def packet_state(ctx: Ctx):
    """R20.5: whole parsed packets survive pickling - everything reachable from the state of a packet the generator yields
    (items, raw bytes, cursor and whatever else parsing leaves on it) is something pickle can serialise."""
    from . import xmlcommon as X
    from .c01 import kitchen_packets, third_cases
    from ..models import ccsds_bytes
    from ..xmlmodel import parse_text
    from ..interp import StepLimit
    prog = ctx.prog
    fi = prog.func(f"{X.DEF}::XtcePacketDefinition.packet_generator")
    docs = {
        "all-features document": (lambda h: X.load(h, X.write_tree(h, X.build_kitchen_sink(h)), "xtce"), lambda: b"".join(p[1] for p in kitchen_packets())),
        "hand-written document": (lambda h: X.load(h, parse_text(X.third_text()), "xtce"),
                                  lambda: b"".join(ccsds_bytes(u, apid=a) for _, a, u in third_cases())),
    }
    for name, (build, stream) in docs.items():
        site = f"{fi.key}::state of yielded packets::{name}"
        try:
            h = X.harness(prog)
            d = build(h)
            k, got = h.outcome("d.packet_generator(src, yield_unrecognized_packet_errors=True)", X.DEF, d=d, src=stream())
        except (Unsupported, StepLimit, Raised) as e:
            ctx.unknown("R20.5", site, str(e))
            continue
        if k != "ok" or not got:
            ctx.unknown("R20.5", site, f"the stream does not decode: {got}")
            continue
        bad = None
        n = 0
        for i, p in enumerate(got):
            if isinstance(p, dict):
                n += 1
                bad = unpicklable(prog, p, f"packet {i}")
            else:
                pd = getattr(p, "kwargs", {}).get("partial_data")
                bad = unpicklable(prog, pd, f"partial data of the error object {i}") if pd is not None else None
            if bad:
                break
        ctx.decide(bad is None and n > 0, "R20.5", site, f"{n} packets: items, raw bytes, cursor and every other attribute are picklable",
                   f"a parsed packet cannot be pickled: {bad}", where=where(fi, fi.node))


def big_field(ctx: Ctx):
    """A binary field longer than 64 KiB (a packet reassembled from segments): value and raw value are plain bytes objects, and
    the packet can be pickled."""
    from . import xmlcommon as X
    prog = ctx.prog
    fi = prog.func(f"{X.DEF}::XtcePacketDefinition.parse_ccsds_packet")
    site = f"{fi.key}::binary field of 66000 bytes"
    try:
        h = X.harness(prog)
        src = X.minimal_header_src().replace("])])", "]), ])") if False else None
        params = ", ".join(f'parameters.Parameter("{n}", parameter_types.IntegerParameterType("{n}_T", {X._int(w)}))' for n, w in X.HEADER)
        d = h.ev(f'XtcePacketDefinition([containers.SequenceContainer("CCSDSPacket", [{params}, parameters.Parameter("BIG", '
                 f'parameter_types.BinaryParameterType("BIG_T", {X.E}.BinaryDataEncoding(fixed_size_in_bits={8 * 66000})))])])', X.DEF)
        big = bytes([0x08, 0x21, 0xC0, 0x00, 0xFF, 0xFF]) + bytes((i * 7 + 1) % 256 for i in range(66000))
        k, got = h.outcome("d.parse_ccsds_packet(packets.CCSDSPacket(raw_data=packets.RawPacketData(big)))", X.DEF, d=d, big=big)
        bad = None
        if k != "ok" or not isinstance(got, dict) or "BIG" not in got:
            bad = f"parsing ends in {got!r}"
        else:
            v = got["BIG"]
            rv = getattr(v, "attrs", {}).get("raw_value")
            if not isinstance(v, bytes) or bytes(v) != big[6:]:
                bad = f"the value is a {type(v).__name__}, not the 66000 bytes of the field"
            elif type(rv).__mro__[-2] is not bytes or bytes(rv) != big[6:]:
                bad = f"the raw value is a {type(rv).__name__}, not a bytes object equal to the value"
            else:
                bad = unpicklable(prog, got, "packet")
        ctx.decide(bad is None, "R20.5", site, "bytes value, bytes raw value, picklable", f"a 66000-byte binary field: {bad}", where=where(fi, fi.node))
    except (Unsupported, Raised) as e:
        ctx.unknown("R20.5", site, str(e))


def check(ctx: Ctx) -> None:
    ctx.guard("R20.5", "xtce/definitions.py", packet_state, ctx)
    ctx.guard("R20.5", "xtce/definitions.py", big_field, ctx)
    # "additionally carries the raw encoded value": for enumerated and boolean items that is the value read from the packet (C08's table)
    from .c08 import enum_bool
    ctx.guard("R20.raw", "xtce/parameter_types.py", enum_bool, ctx, Harness(ctx.prog), "R20.raw")
    ctx.guard("R20.1", CM, base_table, ctx)
    ctx.guard("R20.2", CM, constructor, ctx)
    ctx.guard("R20.3", CM, hooks, ctx)
    ctx.guard("R20.4", CM, dunders, ctx)
    # "additionally carries the raw encoded value": every kind of parsed value of the two end-to-end documents (calibrated by
    # default / context calibrators, enumerations, booleans, strings, binaries, times) has the encoded value as raw_value
    from .c01 import end_to_end, end_to_end_second
    ctx.guard("R20.e", "xtce/definitions.py", end_to_end, ctx, "R20.e")
    ctx.guard("R20.e", "xtce/definitions.py", end_to_end_second, ctx, "R20.e")


def mutants(prog):
    import re
    out = []

    def sub(rel, name, pattern, repl, expect="R20", flags=0):
        src = prog.files[rel]
        new, n = re.subn(pattern, repl, src, count=1, flags=flags)
        if n:
            out.append((name, rel, new, expect))

    sub(CM, "raw_value or value", r"raw_value if raw_value is not None else value", "raw_value or value", "R20.2")
    sub(CM, "value not forwarded", r"obj = super\(\)\.__new__\(cls, value\)", "obj = super().__new__(cls)", "R20.2")
    sub(CM, "raw value required", r"raw_value: BuiltinDataTypes = None\)", "raw_value: BuiltinDataTypes)", "R20")
    sub(CM, "constructor memoised", r"(    def __new__\(cls, value: BuiltinDataTypes)", r"    @functools.lru_cache(maxsize=4096)\n\1", "R20.2")
    sub(CM, "IntParameter derives from float", r"class IntParameter\(_Parameter, int\):", "class IntParameter(_Parameter, float):", "R20.1")
    sub(CM, "mixin last", r"class StrParameter\(_Parameter, str\):", "class StrParameter(str, _Parameter):", "R20.1")
    sub(CM, "value class defines __eq__", r"(class FloatParameter\(_Parameter, float\):\n    \"\"\"A class to represent a float data item\.\"\"\"\n)",
        r"\1    def __eq__(self, other):\n        return abs(self - other) < 1e-9\n", "R20.4")
    sub("packets.py", "packet needs raw_data", r"def __init__\(self, \*args, raw_data: bytes = b\"\", \*\*kwargs\):", "def __init__(self, raw_data: bytes, *args, **kwargs):", "R20.3")
    sub(CM, "getnewargs + empty state on the mixin", r"(        obj\.raw_value = raw_value if raw_value is not None else value\n        return obj\n)",
        r"\1\n    def __getnewargs__(self):\n        return (super().__getnewargs__()[0], self.raw_value)\n\n    def __getstate__(self):\n        return None\n", "R20.3")
    sub("packets.py", "getstate drops class-level names", r"(    HEADER_LENGTH_BYTES = 6\n    pos = 0  # in bits\n)",
        r"\1\n    def __getstate__(self):\n        return {k: v for k, v in self.__dict__.items() if not hasattr(type(self), k)}\n", "R20.3")
    return out


SPEC = PropSpec(
    pid="C20",
    title="Parsed values are drop-in built-ins with a raw value and survive copying",
    check=check,
    floors={"R20.raw": 3, "R20.5": 3, "R20.1": 5, "R20.2": 6, "R20.3": 9, "R20.4": 6, "R20.e": 20},
    explanation=("Class-shape rules over the value classes, CCSDSPacket and RawPacketData: base table (mixin first, one "
                 "matching built-in), decision table of the constructor hook by abstract interpretation for every "
                 "class x falsy/ordinary value x raw omitted/falsy/ordinary (raw chosen by `is None`, value forwarded), "
                 "constructor not memoised, reconstruction signature cls.__new__(cls, value) valid, no custom "
                 "reduce/state hooks or __slots__ (a custom __getstate__/__setstate__ on RawPacketData is decided by "
                 "emulating the copy protocol on a model object), CCSDSPacket() callable without arguments, cursor "
                 "default at class level, and no dunder override that changes comparison, hashing, ordering, "
                 "arithmetic or formatting. Hashing/ordering/arithmetic/formatting themselves are CPython's for "
                 "built-in subclasses and are not re-decided; actual copy/pickle results are not executed."
                 ' R20.e: in both end-to-end documents of C01 every parsed value carries the encoded value as raw_value (a plain built-in, not a view of the packet buffer).'
                 ' __slots__ without __getstate__ on a state class, and dynamically created classes (namedtuple(...)) kept in object state under a name that differs from their type name, make packets unpicklable.'
                 ' R20.5: everything reachable from the state of each packet the generator yields for the all-features and the hand-written document (items, raw bytes, cursor, any other attribute) is something pickle can serialise (no function defined inside a function, no XML node).'
                 ' A custom __copy__ keeps raw bytes and cursor; a binary field longer than 64 KiB stays a bytes value with a bytes raw value.'),
    rule_doc="one obligation per class per rule",
    assumptions=["CPython: subclasses of built-ins without overriding dunders behave like the built-in",
                 "copyreg protocol 2: cls.__new__(cls, *getnewargs), then __dict__ update"],
    mutants=mutants,
    technique="class-shape rules over the MRO; constructor decision table by abstract interpretation; copy-protocol emulation",
)

"""C12 - segmented packets are reassembled per APID exactly once and only when complete (DESIGN 5, C12).

The combine branch of ``XtcePacketDefinition.packet_generator`` is a transition function
(current raw packet, per-APID table) -> (table', output).  The check interprets *the source of that loop* with the
abstract interpreter over model packets (framer and parser replaced by stubs) on a designed set of short
histories that reaches every abstract state {no group, open group of 1, open group of >= 2, closed group} x
{this APID, another APID} and takes every step {FIRST, CONTINUATION, LAST, UNSEGMENTED} x {in sequence, gap,
wrap-around}, followed by probe packets that reveal the table state, and compares what reaches the parser and
how many warnings are raised with the reference state machine stated by the property.
"""
from __future__ import annotations

import ast
import itertools
from typing import List, Tuple

from ..astutil import dotted, norm
from ..core import Ctx, PropSpec, Unsupported
from ..extract import fn_stmts, resolve_local, stmt_site, where
from ..interp import pub, BytesObj, Obj, Raised
from ..models import make_interp, model_definition, raw_packet

DEF = "xtce/definitions.py"
F, C, L, U = 1, 0, 2, 3
NAMES = {F: "FIRST", C: "CONT", L: "LAST", U: "UNSEG"}
MOD = 16384


# ------------------------------------------------------------------------------------------- reference semantics
def reference(history: List[Tuple[int, int, int, bytes]], shb: int):
    """history: (apid, flag, count, data).  Returns per step: (list of byte strings handed to the parser, warned?)."""
    table = {}
    out = []
    for apid, flag, count, data in history:
        pkt = _hdr(apid, flag, count, data)
        apid = _ap(apid)
        if flag == U:
            out.append(([pkt], False))
        elif flag == F:
            table[apid] = [(count, pkt)]
            out.append(([], False))
        elif apid not in table:
            out.append(([], True))
        elif flag == C:
            table[apid].append((count, pkt))
            out.append(([], False))
        else:
            grp = table.pop(apid) + [(count, pkt)]
            ok = all((b[0] - a[0]) % MOD == 1 for a, b in zip(grp, grp[1:]))
            if not ok:
                out.append(([], True))
            else:
                whole = grp[0][1] + b"".join(p[6 + shb:] for _, p in grp[1:])
                out.append(([whole], False))
    return out


def _ap(a) -> int:
    """An APID, or (APID, {other header bits}) for packets of one APID that differ in version / type / secondary-header flag."""
    return a[0] if isinstance(a, tuple) else a


def _hx(a) -> dict:
    return dict(a[1]) if isinstance(a, tuple) else {}


def _hdr(apid, flag, count, data):
    from ..models import ccsds_bytes
    return ccsds_bytes(data, apid=_ap(apid), flags=flag, count=count, **_hx(apid))


# ------------------------------------------------------------------------------------------- histories
def designed_histories():
    A, B = 7, 9
    hs = []
    uid = itertools.count(1)

    def d():
        k = next(uid)
        return bytes([k % 251, (k * 7) % 251, (k * 13) % 251, 0xEE])

    def H(spec):
        """spec: list of (apid, flag, count)."""
        return [(a, f, c, d()) for a, f, c in spec]

    prefixes = {
        "empty": [],
        "A-open1": [(A, F, 10)],
        "A-open2": [(A, F, 10), (A, C, 11)],
        "A-closed-ok": [(A, F, 10), (A, L, 11)],
        "A-closed-gap": [(A, F, 10), (A, L, 12)],
        "B-open": [(B, F, 100)],
        "A-open1,B-open": [(A, F, 10), (B, F, 100)],
        "A-open2,B-open": [(A, F, 10), (B, F, 100), (A, C, 11)],
        "A-unseg": [(A, U, 10)],
    }
    for pname, pre in prefixes.items():
        lastA = max([c for a, _, c in pre if a == A], default=9)
        for flag in (F, C, L, U):
            for kind, cnt in (("inseq", lastA + 1), ("gap", lastA + 2)):
                step = [(A, flag, cnt)]
                probe = [(A, C, cnt + 1), (A, L, cnt + 2), (B, C, 101), (B, L, 102)]
                hs.append((f"{pname} + {NAMES[flag]}/{kind}", H(pre + step + probe)))
    # wrap-around and irregular counts
    for name, counts in {
        "wrap 16382,16383,0,1": (16382, 16383, 0, 1), "wrap 16383,0": (16383, 0), "gap 16383,1": (16383, 1),
        "rev 0,16383": (0, 16383), "irregular 10,12,11,13": (10, 12, 11, 13), "irregular 10,12,12,13": (10, 12, 12, 13),
        "repeat 20,20,22": (20, 20, 22), "irregular 16383,1,0,2": (16383, 1, 0, 2), "dup 5,5": (5, 5),
        "far 1,2,3,4,5": (1, 2, 3, 4, 5), "late gap 1,2,3,5": (1, 2, 3, 5), "early gap 1,3,4,5": (1, 3, 4, 5),
        "step2 2,4,6": (2, 4, 6), "m-mod 0,16385": (0, 16385 % 16384),
    }.items():
        spec = [(A, F, counts[0])] + [(A, C, c) for c in counts[1:-1]] + [(A, L, counts[-1])]
        hs.append((name, H(spec + [(A, L, counts[-1] + 1)])))
    # interleavings of two APIDs
    hs.append(("interleave A.F A.C B.F A.L B.L", H([(A, F, 1), (A, C, 2), (B, F, 50), (A, L, 3), (B, L, 51)])))
    hs.append(("interleave B.F A.F B.C A.C B.L A.L", H([(B, F, 50), (A, F, 1), (B, C, 51), (A, C, 2), (B, L, 52), (A, L, 3)])))
    hs.append(("supersede A.F A.C A.F A.L", H([(A, F, 1), (A, C, 2), (A, F, 3), (A, L, 4), (A, L, 5)])))
    hs.append(("unseg inside group", H([(A, F, 1), (A, U, 2), (A, C, 2), (A, L, 3)])))
    hs.append(("unseg other apid", H([(A, F, 1), (B, U, 9), (A, L, 2)])))
    hs.append(("orphan C then L", H([(A, C, 1), (A, L, 2)])))
    hs.append(("two groups", H([(A, F, 1), (A, L, 2), (A, F, 3), (A, C, 4), (A, L, 5)])))
    # APID boundary values: 0 (falsy) and 2047 (all ones) take part in combining like any other APID
    for Z in (0, 2047):
        hs.append((f"apid {Z}: F C L", H([(Z, F, 1), (Z, C, 2), (Z, L, 3), (Z, L, 4)])))
        hs.append((f"apid {Z}: F L with gap", H([(Z, F, 1), (Z, L, 3), (Z, C, 4)])))
        hs.append((f"apid {Z}: orphan C, orphan L, unsegmented", H([(Z, C, 1), (Z, L, 2), (Z, U, 3)])))
        hs.append((f"apid {Z} interleaved with apid {A}", H([(Z, F, 1), (A, F, 10), (Z, C, 2), (A, L, 11), (Z, L, 3)])))
    # a group is identified by its APID alone: members may differ in version, type and secondary-header flag
    # (e.g. only the FIRST segment carries a secondary header)
    S1, T1, V1 = (A, (("shf", 1),)), (A, (("type", 1),)), (A, (("version", 1),))
    hs.append(("secondary header flag only on FIRST", H([(S1, F, 1), (A, C, 2), (A, L, 3), (A, L, 4)])))
    hs.append(("type bit differs inside a group", H([(A, F, 1), (T1, C, 2), (T1, L, 3)])))
    hs.append(("FIRST with another flag supersedes the open group", H([(A, F, 1), (A, C, 2), (S1, F, 3), (A, L, 4), (A, L, 5)])))
    hs.append(("version differs between groups of one APID", H([(V1, F, 1), (A, L, 2), (A, F, 3), (V1, L, 4)])))
    # the rules are the same whatever the other header bits of the members say (telecommand type, secondary header, version)
    for bits in (T1, S1, V1, (A, (("type", 1), ("shf", 1), ("version", 7))), (2047, (("type", 1),))):
        tag = ",".join(f"{k}={v}" for k, v in bits[1])
        hs.append((f"every member has {tag} (APID {bits[0]}): sequence gap", H([(bits, F, 5), (bits, C, 7), (bits, L, 8), (bits, L, 9)])))
        hs.append((f"every member has {tag} (APID {bits[0]}): in sequence", H([(bits, F, 5), (bits, C, 6), (bits, L, 7), (bits, U, 8)])))
        hs.append((f"every member has {tag} (APID {bits[0]}): orphans and repeated count", H([(bits, C, 5), (bits, L, 6), (bits, F, 7), (bits, L, 7)])))
    # later members whose data field is as long as / shorter than / one byte longer than the secondary header
    for n in (1, 2, 3):
        hs.append((f"later members with {n}-byte data fields",
                   [(A, F, 1, b"\x10\x11\x12\x13"), (A, C, 2, bytes(range(0x20, 0x20 + n))), (A, L, 3, bytes(range(0x30, 0x30 + n)))]))
    return hs


def exhaustive_histories(maxlen: int):
    """All single-APID histories over {F,C,L,U} x {+1,+2} up to maxlen, and two-APID in-sequence interleavings."""
    A, B = 7, 9
    out = []
    for n in range(1, maxlen + 1):
        for flags in itertools.product((F, C, L, U), repeat=n):
            for steps in itertools.product((1, 2), repeat=n):
                cnt = 16380
                spec = []
                for f, s in zip(flags, steps):
                    cnt = (cnt + s) % MOD
                    spec.append((A, f, cnt))
                out.append(spec)
        for flags in itertools.product((F, C, L), repeat=n):
            for apids in itertools.product((A, B), repeat=n):
                cnts = {A: 0, B: 500}
                spec = []
                for f, a in zip(flags, apids):
                    cnts[a] += 1
                    spec.append((a, f, cnts[a]))
                out.append(spec)
    hs = []
    for i, spec in enumerate(out):
        hs.append((f"exh#{i}", [(a, f, c, bytes([(i * 3 + j) % 251, j, 0xAB])) for j, (a, f, c) in enumerate(spec)]))
    return hs


# ------------------------------------------------------------------------------------------- model evaluation
def run_history(prog, fi, history, shb: int, combine: bool = True, extra: dict = None):
    parsed: List[List[bytes]] = []
    warns: List[int] = []
    cur = {"parsed": [], "warn": 0}

    def parse_stub(selfv, packet, root_container_name=None):
        raw = pub(packet, "raw_data")
        cur["parsed"].append(bytes(raw))
        raw.attrs["pos"] = 8 * len(raw)     # a definition that consumes the packet exactly
        return packet

    def gen_stub(binary_data, **kw):
        return binary_data

    it = make_interp(prog, {"XtcePacketDefinition.parse_ccsds_packet": parse_stub,
                            "space_packet_parser.packets.ccsds_generator": gen_stub}, max_steps=400000)
    pkts = [raw_packet(data, apid=_ap(a), flags=f, count=c, **_hx(a)) for a, f, c, data in history]

    # the framer stub hands out packets one at a time so that per-step outputs can be told apart
    steps = []

    class _Feeder(list):
        pass

    feeder = []
    marks = []

    def on_event(ev):
        if ev[0] == "warn":
            cur["warn"] += 1

    it.on_event = on_event
    # one call, observing boundaries through a model iterable that records when the next packet is pulled
    class Src:
        def __init__(self):
            self.i = 0

    selfv = model_definition(it, "ROOT")
    # boundaries: wrap each packet in an Obj marker? simpler: run prefixes of increasing length and diff.
    prev_parsed: List[bytes] = []
    prev_warn = 0
    for n in range(1, len(pkts) + 1):
        cur["parsed"], cur["warn"] = [], 0
        it.steps = 0
        pk = [raw_packet(data, apid=_ap(a), flags=f, count=c, **_hx(a)) for a, f, c, data in history[:n]]
        it.call(fi, [selfv, pk], dict({"combine_segmented_packets": combine, "secondary_header_bytes": shb}, **(extra or {})))
        newp = cur["parsed"][len(prev_parsed):]
        if cur["parsed"][:len(prev_parsed)] != prev_parsed:
            raise Unsupported("generator output is not prefix-monotone (hidden state?)")
        steps.append((newp, cur["warn"] - prev_warn > 0))
        prev_parsed, prev_warn = list(cur["parsed"]), cur["warn"]
    return steps


def run_two_streams(prog, fi, h1, h2):
    """Outputs per step of the second stream when the same definition object first ran the first stream."""
    selfv = Obj("XtcePacketDefinition", root_container_name="ROOT")
    try:
        init = prog.resolve_method("XtcePacketDefinition", "__init__")
    except Exception:
        init = None
    cur = {"parsed": [], "warn": 0}

    def parse_stub(s_, packet, root_container_name=None):
        raw = pub(packet, "raw_data")
        cur["parsed"].append(bytes(raw))
        raw.attrs["pos"] = 8 * len(raw)
        return packet
    it = make_interp(prog, {"XtcePacketDefinition.parse_ccsds_packet": parse_stub,
                            "space_packet_parser.packets.ccsds_generator": lambda b, **k: b}, max_steps=400000)
    it.on_event = lambda ev: cur.__setitem__("warn", cur["warn"] + 1) if ev[0] == "warn" else None
    if init is not None:
        try:
            it.call(init, [selfv, []], {})          # the constructor may create per-definition state
        except (Raised, Unsupported):
            selfv = Obj("XtcePacketDefinition", root_container_name="ROOT")
    selfv.attrs.setdefault("root_container_name", "ROOT")
    mk = lambda h: [raw_packet(d, apid=a, flags=f, count=c) for a, f, c, d in h]  # noqa: E731
    it.call(fi, [selfv, mk(h1)], {"combine_segmented_packets": True})
    out = []
    prev_p, prev_w = [], 0
    for n in range(1, len(h2) + 1):
        # replay stream 1 on a fresh clone is not possible (hidden state is the point): run prefixes on copies of the state
        import copy
        cur["parsed"], cur["warn"] = [], 0
        s2 = Obj("XtcePacketDefinition", **{k: copy.deepcopy(v) if isinstance(v, (dict, list)) else v for k, v in selfv.attrs.items()})
        it.steps = 0
        it.call(fi, [s2, mk(h2[:n])], {"combine_segmented_packets": True})
        out.append((cur["parsed"][len(prev_p):], cur["warn"] - prev_w > 0))
        prev_p, prev_w = list(cur["parsed"]), cur["warn"]
    return out


def check(ctx: Ctx) -> None:
    prog = ctx.prog
    fi = prog.func(f"{DEF}::XtcePacketDefinition.packet_generator")
    site0 = f"{fi.key}::combine"
    thorough = ctx.stats.get("tier") == "thorough"
    hs = designed_histories()
    ctx.stats["histories"] = len(hs)
    nsteps = 0
    bad = 0
    first_unknown = None
    for shb in (0, 2):
        for name, h in hs:
            try:
                got = run_history(prog, fi, h, shb)
            except Raised as r:
                bad += 1
                ctx.refuted("R12.1", f"{site0}::history::{name}::shb={shb}",
                            f"history {_show(h)} escapes with {r.exc.tname} instead of being handled",
                            where=where(fi, r.node) if r.node is not None else "", history=_show(h))
                continue
            except Unsupported as e:
                if first_unknown is None:
                    first_unknown = str(e)
                    ctx.unknown("R12.1", f"{site0}::history::{name}::shb={shb}", str(e))
                continue
            want = reference(h, shb)
            nsteps += len(want)
            if got == want:
                ctx.proved("R12.1", f"{site0}::history::{name}::shb={shb}", steps=len(want))
            else:
                bad += 1
                k = next(i for i, (g, w) in enumerate(zip(got, want)) if g != w)
                a, f, c, _ = h[k]
                ctx.refuted("R12.1", f"{site0}::history::{name}::shb={shb}",
                            f"step {k} ({NAMES[f]} apid={a} count={c}) of history {_show(h)}: parser received "
                            f"{[x.hex() for x in got[k][0]]} warned={got[k][1]}, the reference state machine gives "
                            f"{[x.hex() for x in want[k][0]]} warned={want[k][1]}",
                            where=where(fi, fi.node), history=_show(h), step=k)
    ctx.stats["steps_compared"] = nsteps
    # the other options of the generator do not enter the combination: a record prefix (skip_header_bytes) is removed by the
    # framer before combining; the read size, progress display and bad-packet option concern other stages
    sel = [x for x in hs if x[0] in ("interleave A.F A.C B.F A.L B.L", "two groups", "later members with 2-byte data fields",
                                     "wrap 16382,16383,0,1", "A-open2,B-open + LAST/inseq", "secondary header flag only on FIRST")]
    for label, extra in (("skip_header_bytes=2", {"skip_header_bytes": 2}), ("skip_header_bytes=4, buffer_read_size_bytes=7", {"skip_header_bytes": 4, "buffer_read_size_bytes": 7}),
                         ("show_progress, parse_bad_pkts=False", {"show_progress": True, "parse_bad_pkts": False})):
        for name, h in sel:
            for shb in (0, 2):
                site = f"{site0}::history::{name}::shb={shb}::{label}"
                try:
                    got = run_history(prog, fi, h, shb, extra=extra)
                except Raised as r:
                    ctx.refuted("R12.1", site, f"history {_show(h)} with {label} escapes with {r.exc.tname}", where=where(fi, fi.node))
                    continue
                except Unsupported as e:
                    ctx.unknown("R12.1", site, str(e))
                    continue
                want = reference(h, shb)
                if got == want:
                    ctx.proved("R12.1", site, steps=len(want))
                else:
                    k = next(i for i, (g, w) in enumerate(zip(got, want)) if g != w)
                    a, f, c, _ = h[k]
                    ctx.refuted("R12.1", site, f"with {label}: step {k} ({NAMES[f]} apid={a} count={c}) of history {_show(h)}: parser received "
                                f"{[x.hex() for x in got[k][0]]} warned={got[k][1]}, the reference state machine gives "
                                f"{[x.hex() for x in want[k][0]]} warned={want[k][1]}", where=where(fi, fi.node))

    # combining off: every packet parsed alone, whatever its flags (table never consulted)
    try:
        A = 7
        h = [(A, F, 1, b"\x01\x02"), (A, C, 2, b"\x03\x04"), (A, L, 3, b"\x05\x06"), (A, U, 4, b"\x07\x08")]
        got = run_history(prog, fi, h, 0, combine=False)
        want = [([_hdr(a, f, c, dd)], False) for a, f, c, dd in h]
        ctx.decide(got == want, "R12.off", f"{site0}::combine-off", "without combining every packet is parsed alone",
                   f"with combine_segmented_packets=False the parser received {[[x.hex() for x in g[0]] for g in got]}",
                   where=where(fi, fi.node))
    except (Unsupported, Raised) as e:
        ctx.unknown("R12.off", f"{site0}::combine-off", str(e))
    # header-only framing: every raw packet is handed out as it is, whatever its flags and whether or not combining is on
    for combine in (True, False):
        site = f"{site0}::headers-only::combine={combine}"
        try:
            A, B = 7, 0
            h = [(A, F, 1, b"\x01\x02"), (A, C, 2, b"\x03\x04"), (B, L, 9, b"\x0a"), (A, L, 3, b"\x05\x06"), (A, U, 4, b"\x07\x08"),
                 (B, C, 10, b"\x0b")]
            parsed = []

            def parse_stub(selfv, packet, root_container_name=None):
                parsed.append(1)           # header-only mode hands out raw packets: the XTCE parser has nothing to do
                return packet
            it = make_interp(prog, {"XtcePacketDefinition.parse_ccsds_packet": parse_stub,
                                    "space_packet_parser.packets.ccsds_generator": lambda b, **k: b}, max_steps=400000)
            pk = [raw_packet(dd, apid=a, flags=f, count=c) for a, f, c, dd in h]
            ys = it.call(fi, [model_definition(it, "ROOT"), pk], {"ccsds_headers_only": True, "combine_segmented_packets": combine})
            got = [bytes(y) if isinstance(y, bytes) else repr(y) for y in ys]
            want = [_hdr(a, f, c, dd) for a, f, c, dd in h]
            ctx.decide(got == want and not parsed, "R12.off", site, "header-only framing yields every packet",
                       f"with ccsds_headers_only=True and combine_segmented_packets={combine} the generator yields "
                       f"{len(got)} of {len(want)} raw packets ({[g.hex() if isinstance(g, bytes) else g for g in got]}): segmented packets must be "
                       f"handed out like all others", where=where(fi, fi.node))
        except (Unsupported, Raised) as e:
            ctx.unknown("R12.off", site, str(e))

    # state does not outlive a generator: a group left open by one stream must not be completed by the next one
    try:
        A = 7
        h1 = [(A, F, 5, b"\x01\x02\x03\x04")]
        h2 = [(A, C, 6, b"\x05\x06\x07\x08"), (A, L, 7, b"\x09\x0a\x0b\x0c"), (A, U, 8, b"\x0d\x0e")]
        got = run_two_streams(prog, fi, h1, h2)
        want = reference(h2, 0)
        ctx.decide(got == want, "R12.gen", f"{site0}::two generators on one definition",
                   "an unfinished group does not leak into the next generator",
                   f"stream 1 ends with FIRST@{A}#5; a second generator of the same definition over CONT#6 LAST#7 UNSEG#8 hands the parser "
                   f"{[[x.hex() for x in g[0]] for g in got]} (warned {[g[1] for g in got]}); the two orphans must be dropped with a warning",
                   where=where(fi, fi.node))
    except (Unsupported, Raised) as e:
        ctx.unknown("R12.gen", f"{site0}::two generators on one definition", str(e))
    # ... and structurally: the generator keeps its table in a fresh local (effect analysis)
    from ..callgraph import CallGraph
    from .c11 import effect_rule
    ctx.guard("R12.state", fi.key, effect_rule, ctx, CallGraph(prog), [fi.key], "R12.state", "segment combining")

    # R12.4 structural: any modulus applied in the continuity test is 2**14 (width of the sequence count field)
    mods = []
    for n in ast.walk(fi.node):
        if isinstance(n, ast.BinOp) and isinstance(n.op, ast.Mod):
            k = prog.fold_opt(resolve_local(fi, n.right), DEF)
            if isinstance(k, int) and "sequence_count" in norm(_enclosing_stmt(fi, n)) or \
                    (isinstance(k, int) and k in (16383, 16384, 16385, 8192, 32768)):
                mods.append((k, n))
    for k, n in mods:
        ctx.decide(k == MOD, "R12.4", f"{fi.key}::modulus", "continuity modulus is 2**14",
                   f"sequence counts are compared modulo {k}; the sequence count field is 14 bits wide (modulo 16384)",
                   where=where(fi, n))


def _enclosing_stmt(fi, node):
    for st in fn_stmts(fi):
        if isinstance(st, (ast.If, ast.For, ast.While, ast.Try, ast.With)):
            hdr = st.test if isinstance(st, (ast.If, ast.While)) else None
            if hdr is not None and any(x is node for x in ast.walk(hdr)):
                return hdr
            continue
        if any(x is node for x in ast.walk(st)):
            return st
    return node


def _show(h):
    return " ".join(f"{NAMES[f]}@{_ap(a)}{'+' + ','.join(f'{k}={v}' for k, v in _hx(a).items()) if _hx(a) else ''}#{c}" for a, f, c, _ in h)


def sweep(ctx: Ctx) -> None:
    """Thorough tier: every history up to length 4 (single APID with gaps; two APIDs in sequence), and one group longer than
    the period of the sequence counter."""
    ctx.guard("R12.long", DEF, long_group, ctx)
    prog = ctx.prog
    fi = prog.func(f"{DEF}::XtcePacketDefinition.packet_generator")
    hs = exhaustive_histories(4)
    n = ok = 0
    for name, h in hs:
        n += 1
        try:
            got = run_history(prog, fi, h, 0)
        except Raised as r:
            ctx.refuted("R12.exh", f"{fi.key}::history::{_show(h)}", f"escapes with {r.exc.tname}")
            break
        except Unsupported as e:
            ctx.unknown("R12.exh", f"{fi.key}::exhaustive", str(e))
            break
        if got == reference(h, 0):
            ok += 1
        else:
            ctx.refuted("R12.exh", f"{fi.key}::history::{_show(h)}",
                        f"history {_show(h)} deviates from the reference state machine", history=_show(h))
            break
    else:
        ctx.proved("R12.exh", f"{fi.key}::exhaustive<=4", f"{ok} histories agree", histories=n)
    ctx.stats["exhaustive_histories"] = n


def long_group(ctx: Ctx) -> None:
    """One group longer than the period of the 14-bit counter (FIRST, 16385 CONTINUATION, LAST: 16387 packets with consecutive
    counts modulo 16384): parsed as ONE packet consisting of the whole first packet and every later data field, nothing lost."""
    prog = ctx.prog
    fi = prog.func(f"{DEF}::XtcePacketDefinition.packet_generator")
    site = f"{fi.key}::combine::group of 16387 packets"
    got = []

    def parse_stub(selfv, packet, root_container_name=None):
        raw = pub(packet, "raw_data")
        got.append(bytes(raw))
        raw.attrs["pos"] = 8 * len(raw)
        return packet
    it = make_interp(prog, {"XtcePacketDefinition.parse_ccsds_packet": parse_stub,
                            "space_packet_parser.packets.ccsds_generator": lambda b, **k: b}, max_steps=20_000_000)
    warned = []
    it.on_event = lambda ev: warned.append(1) if ev[0] == "warn" else None
    n = 16387
    pk = [raw_packet(bytes([i % 251, (i // 251) % 256]), apid=7, flags=(F if i == 0 else (L if i == n - 1 else C)), count=(16000 + i) % MOD) for i in range(n)]
    try:
        it.call(fi, [model_definition(it, "ROOT"), pk], {"combine_segmented_packets": True, "secondary_header_bytes": 0})
    except Raised as r:
        ctx.refuted("R12.long", site, f"a long group escapes with {r.exc.tname}", where=where(fi, fi.node))
        return
    except Unsupported as e:
        ctx.unknown("R12.long", site, str(e))
        return
    whole = bytes(pk[0]) + b"".join(bytes(p)[6:] for p in pk[1:])
    ok = got == [whole] and not warned
    ctx.decide(ok, "R12.long", site, "one combined packet of 16387 members",
               f"a FIRST, 16385 CONTINUATION and a LAST packet with consecutive counts: the parser received {len(got)} packet(s)"
               f"{' of ' + str(len(got[0])) + ' bytes starting ' + got[0][:8].hex() if got else ''}, warned={bool(warned)}; expected one packet of "
               f"{len(whole)} bytes starting {whole[:8].hex()}", where=where(fi, fi.node))


def mutants(prog):
    import re
    src = prog.files[DEF]
    out = []

    def sub(name, pattern, repl, expect="R12", flags=0):
        new, n = re.subn(pattern, repl, src, count=1, flags=flags)
        if n:
            out.append((name, DEF, new, expect))

    sub("group not released (pop -> get)", r"_segmented_packets\.pop\(raw_packet_data\.apid\)",
        "_segmented_packets[raw_packet_data.apid]")
    sub("modulus 16383", r"% 16384 == 1", "% 16383 == 1")
    sub("modulus dropped", r"\) % 16384 == 1", ") == 1")
    sub("FIRST appends instead of replacing",
        r"_segmented_packets\[raw_packet_data\.apid\] = \[raw_packet_data\]",
        "_segmented_packets.setdefault(raw_packet_data.apid, []).append(raw_packet_data)")
    sub("table reset on FIRST", r"_segmented_packets\[raw_packet_data\.apid\] = \[raw_packet_data\]",
        "_segmented_packets = {raw_packet_data.apid: [raw_packet_data]}")
    sub("secondary header not skipped", r"HEADER_LENGTH_BYTES \+ secondary_header_bytes:\]", "HEADER_LENGTH_BYTES:]")
    sub("header of later members kept", r"p\[raw_packet_data\.HEADER_LENGTH_BYTES \+ secondary_header_bytes:\]",
        "p[secondary_header_bytes:]")
    sub("orphan check removed", r"elif not _segmented_packets\.get\(raw_packet_data\.apid, \[\]\):",
        "elif False:")
    sub("CONTINUATION closes the group", r"== packets\.SequenceFlags\.CONTINUATION:", "== packets.SequenceFlags.LAST:")
    sub("gap path does not skip", r"(are not in sequence \{sequence_counts\}, skipping these packets\.\"\)\n\s+)continue",
        r"\g<1>pass")
    sub("first member sliced too", r"raw_data = segmented_packets\[0\]\n", "raw_data = segmented_packets[0][:6]\n")
    sub("table keyed by sequence flags", r"_segmented_packets\.get\(raw_packet_data\.apid, \[\]\)",
        "_segmented_packets.get(raw_packet_data.sequence_flags, [])")
    sub("endpoints-only continuity", r"if not all\(\(sequence_counts\[i \+ 1\] - sequence_counts\[i\]\) % 16384 == 1\n\s+for i in range\(len\(sequence_counts\) - 1\)\):",
        "if (sequence_counts[-1] - sequence_counts[0]) % 16384 != len(sequence_counts) - 1:")
    return out


SPEC = PropSpec(
    pid="C12",
    title="Segmented packets are reassembled per APID exactly once and only when complete",
    check=check,
    sweep=sweep,
    floors={"R12.1": 150, "R12.off": 1, "R12.4": 1, "R12.gen": 1, "R12.state": 1},
    fallback={"R12.4": ("R12.1",)},
    explanation=("Decision table of the segment-combining state machine, obtained by abstract interpretation of the "
                 "source of XtcePacketDefinition.packet_generator (framer and parser stubbed, model packets built by "
                 "the checker's own CCSDS packer): designed histories reach every abstract table state "
                 "{absent, open(1), open(>=2), closed-ok, closed-gap} x {same APID, other APID} and take every step "
                 "{FIRST, CONTINUATION, LAST, UNSEGMENTED} x {in sequence, gap}, then probe packets reveal the table "
                 "state; wrap-around, irregular-count and interleaving families are added. What the parser receives "
                 "and whether a warning is raised is compared, step by step, with the reference state machine the "
                 "property states. Thorough tier: all histories up to length 4. Plus the structural constant rule "
                 "R12.4 (modulus = 2**14). Does not decide warning texts."
                 ' APID 0 and 2047 take part like any other; with ccsds_headers_only every raw packet is handed out whatever its flags and the combining option.'
                 ' Members of one group may differ in version, type and secondary-header flag (the group is identified by its APID alone).'
                 ' Histories include groups whose members all carry telecommand type / a secondary header / version 7 (also on APID 2047), with gaps, in sequence, and with orphans and repeated counts.'
                 ' A subset of histories is crossed with skip_header_bytes, read size, progress display and the bad-packet option; R12.long (thorough): one group of 16387 packets.'),
    rule_doc=("R12.1: one obligation per (designed history, secondary-header length in {0,2}); R12.off: combining "
              "disabled; R12.4: folded modulus; R12.exh (thorough): all histories of length <= 4 over "
              "{F,C,L,U}x{+1,+2} on one APID and {F,C,L}x{2 APIDs} in sequence."),
    assumptions=["the loop carries only the per-APID table between packets (decided by C11 R11.2)",
                 "ccsds_generator yields RawPacketData whose accessors follow the CCSDS layout (C13)",
                 "CPython semantics of dict/list/slicing as implemented natively by the abstract interpreter"],
    mutants=mutants,
    technique="abstract interpretation of the loop source over model packets; decision table vs reference state machine",
)

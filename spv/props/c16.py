"""C16 - loading is independent of lexical spelling and of earlier loads (DESIGN 5, C16).

R16.1 element-only child traversal: no reader iterates / indexes / len()s an element directly (raw child nodes include
      comments); children are reached through find/findall/iterfind only.
R16.2 both pieces of process-wide namespace state are set, from this call's own arguments/document, before the first
      element lookup of from_xtce, unconditionally.
R16.3 nothing else in the load closure stores to that state; no class-level/module-level mutable state is written by
      the readers (a failed load cannot leave residue).
R16.5 no memoisation over the namespace state.
R16.m model evaluation of the loader on the XML model: the kitchen-sink document in the renderings {prefix xtce, other
      prefix, default namespace, no namespace, no namespace with an unrelated xsi declaration} x {plain, comments between all
      elements} must load to the same definition; and after every history of <= 2 earlier loads drawn from those
      renderings, malformed input and documents that fail half-way, the load gives the same definition as loading first.
"""
from __future__ import annotations

import ast
import itertools

from ..astutil import dotted, norm, walk_local
from ..callgraph import CallGraph, effects_of
from ..cfg import CFG
from ..core import Ctx, PropSpec, Unsupported
from ..extract import where
from ..interp import ExcVal, Raised, StepLimit
from ..xmlmodel import all_elements, append, attach_nsmap, clone, is_elem, make_elem
from . import xmlcommon as X

DEF = X.DEF
LOAD = f"{DEF}::XtcePacketDefinition.from_xtce"
LOOKUPS = {"find", "findall", "iterfind"}
STATE = {"_nsmap", "_ns_prefix"}


def element_vars(fi):
    """Names that hold elements in a reader: the element parameter(s), results of find/walrus, loop variables over
    iterfind/findall."""
    names = set()
    for p in fi.params:
        if "element" in p or p in ("el", "elem"):
            names.add(p)
    changed = True
    while changed:
        changed = False
        for n in walk_local(fi.node):
            tgt = None
            val = None
            if isinstance(n, ast.Assign) and len(n.targets) == 1 and isinstance(n.targets[0], ast.Name):
                tgt, val = n.targets[0].id, n.value
            elif isinstance(n, ast.NamedExpr):
                tgt, val = n.target.id, n.value
            if tgt and tgt not in names and isinstance(val, ast.Call) and isinstance(val.func, ast.Attribute) and val.func.attr == "find":
                names.add(tgt)
                changed = True
            if isinstance(n, (ast.For, ast.comprehension)) and isinstance(n.target, ast.Name) and n.target.id not in names:
                it = n.iter
                if isinstance(it, ast.Call) and isinstance(it.func, ast.Attribute) and it.func.attr in ("iterfind", "findall"):
                    names.add(n.target.id)
                    changed = True
                elif isinstance(it, ast.Name) and it.id in names:
                    names.add(n.target.id)       # (iterating an element: reported below)
                    changed = True
    return names


def raw_iteration(ctx: Ctx, cg: CallGraph):
    prog = ctx.prog
    cl = cg.closure([LOAD])
    n_sites = 0
    for k in sorted(cl):
        fi = prog.functions[k]
        ev = element_vars(fi)
        if not ev:
            continue
        hits = []
        for n in walk_local(fi.node):
            if isinstance(n, (ast.For, ast.comprehension)) and isinstance(n.iter, ast.Name) and n.iter.id in ev:
                hits.append((n.iter, "iterated directly"))
            if isinstance(n, ast.Call) and dotted(n.func) in ("list", "len", "tuple", "iter", "enumerate", "reversed") and n.args \
                    and isinstance(n.args[0], ast.Name) and n.args[0].id in ev:
                hits.append((n, f"{dotted(n.func)}() of the element"))
            if isinstance(n, ast.Subscript) and isinstance(n.value, ast.Name) and n.value.id in ev and not isinstance(n.slice, ast.Constant):
                hits.append((n, "indexed"))
            if isinstance(n, ast.Subscript) and isinstance(n.value, ast.Name) and n.value.id in ev and isinstance(n.slice, ast.Constant) \
                    and isinstance(n.slice.value, int):
                hits.append((n, "indexed"))
            if isinstance(n, ast.Call) and isinstance(n.func, ast.Attribute) and n.func.attr in ("iter", "iterchildren", "getchildren", "itertext") \
                    and isinstance(n.func.value, ast.Name) and n.func.value.id in ev:
                hits.append((n, f".{n.func.attr}()"))
            if isinstance(n, ast.Call) and isinstance(n.func, ast.Attribute) and n.func.attr in LOOKUPS:
                n_sites += 1
        if hits:
            for node, how in hits:
                ctx.refuted("R16.1", f"{k}::{norm(node)[:80]}",
                            f"element `{norm(node)[:60]}` is {how}: raw child nodes include comments and processing "
                            f"instructions, which are then handed to element readers", where=where(fi, node))
        else:
            ctx.proved("R16.1", k, f"children reached through find/findall/iterfind only (element variables: {sorted(ev)})")
    ctx.stats["lookup_sites"] = n_sites


def state_discipline(ctx: Ctx, cg: CallGraph):
    prog = ctx.prog
    from ..normalize import inline_helpers
    fi = inline_helpers(prog, prog.func(LOAD))
    cfg = CFG(fi.node)
    setters = {"set_ns_prefix": None, "set_nsmap": None}
    first_lookup = None
    for n in sorted(cfg.nodes, key=lambda x: x.id):
        if n.ast is None or n.kind not in ("stmt", "test"):
            continue
        for c in ast.walk(n.ast):
            if isinstance(c, ast.Call) and isinstance(c.func, ast.Attribute):
                if c.func.attr in setters and setters[c.func.attr] is None:
                    setters[c.func.attr] = (n, c)
                if (c.func.attr in LOOKUPS or c.func.attr.startswith("_parse_")) and first_lookup is None:
                    first_lookup = n
    if first_lookup is None:
        ctx.unknown("R16.2", LOAD, "no element lookup found in from_xtce")
        return
    dom = cfg.dominators()
    for name, hit in setters.items():
        site = f"{LOAD}::{name}"
        if hit is None:
            ctx.unknown("R16.2", site, f"no call of {name} recognised in from_xtce (decided by the load histories R16.m)", where=where(fi, fi.node))
            continue
        node, call = hit
        ok = node.id in dom.get(first_lookup.id, set())
        ctx.decide(ok, "R16.2", site, "set unconditionally before the first lookup",
                   f"{name} does not dominate the first element lookup (line {first_lookup.lineno}): on some path lookups "
                   f"use the previous load's namespace state", where=where(fi, call))
        # argument provenance
        arg = call.args[0] if call.args else None
        from ..extract import resolve_local
        if name == "set_ns_prefix":
            ra = resolve_local(fi, arg) if arg is not None else None
            if isinstance(ra, ast.Name) and ra.id in fi.params:
                ctx.proved("R16.2", f"{site}::argument", "prefix comes from this call's argument")
            elif isinstance(ra, ast.Constant):
                ctx.refuted("R16.2", f"{site}::argument", f"set_ns_prefix is given the constant {ra.value!r}, not this call's prefix argument",
                            where=where(fi, call))
            else:
                ctx.proved("R16.2", f"{site}::argument", f"prefix argument `{norm(arg) if arg is not None else None}` (decided by R16.m histories)")
        else:
            from ..extract import expand_names
            txt = norm(expand_names(fi, arg)) if arg is not None else ""
            ok2 = "nsmap" in txt and ("tree" in txt or "getroot" in txt or "root" in txt)
            ctx.decide(ok2 or None, "R16.2", f"{site}::argument", "namespace map comes from this document's root",
                       f"set_nsmap is given `{txt}`", where=where(fi, call))
    # R16.3: no other writer of the state, no class/module level stores in the load closure
    cl = cg.closure([LOAD])
    for k in sorted(cl):
        f2 = prog.functions[k]
        bad = False
        for e in effects_of(prog, f2):
            is_state = any(s in e.target for s in STATE)
            in_setter = f2.name in ("set_nsmap", "set_ns_prefix")
            if e.root_class in ("cls", "global") and not (is_state and in_setter) and f2.name not in ("__init__", "__new__", "__post_init__"):
                bad = True
                ctx.refuted("R16.3", e.site, f"{e.kind} on `{e.target}` ({e.root_class}-level state) during a load: it survives the load "
                                             f"(and a failed load) and changes what later loads do", where=where(f2, e.node))
            elif is_state and not in_setter:
                bad = True
                ctx.refuted("R16.3", e.site, f"namespace state `{e.target}` written outside its setters", where=where(f2, e.node))
        for n in walk_local(f2.node):
            if isinstance(n, ast.Call) and isinstance(n.func, ast.Attribute) and n.func.attr in setters and k != LOAD:
                bad = True
                ctx.refuted("R16.3", f"{k}::{n.func.attr}", "namespace state changed again in the middle of a load", where=where(f2, n))
        if not bad:
            ctx.proved("R16.3", k, "no class-level or module-level store")
    # R16.5 memoisation
    for fi2 in prog.functions.values():
        if fi2.cls is not None and fi2.cls.name == "NamespaceAwareElement" or fi2.key in cl:
            cached = [d for d in fi2.decorators if d in ("lru_cache", "cache", "cached_property", "functools.lru_cache", "functools.cache")]
            if cached:
                reads_state = any(isinstance(n, ast.Attribute) and n.attr in STATE | {"element_prefix", "get_nsmap", "add_namespace_to_xpath"}
                                  for n in walk_local(fi2.node))
                if reads_state or fi2.cls is not None and fi2.cls.name == "NamespaceAwareElement":
                    ctx.refuted("R16.5", f"{fi2.key}::{cached[0]}", f"{fi2.qual} is memoised ({cached[0]}) over the process-wide namespace state: "
                                                                     f"every later load sees the first load's answers", where=where(fi2, fi2.node))
    ctx.proved("R16.5", "common.py::NamespaceAwareElement", "no memoisation over the namespace state")


# ------------------------------------------------------------------------------------------------ model evaluation
def renderings(g1):
    out = {}
    for name, mode, pfx, arg in (("prefix xtce", "prefix", "xtce", "xtce"), ("prefix foo", "prefix", "foo", "foo"),
                                 ("prefix omg.xtce-1.2", "prefix", "omg.xtce-1.2", "omg.xtce-1.2"),
                                 ("default namespace", "default", None, None), ("no namespace", "none", None, None)):
        r = X.respell(g1, mode, prefix=pfx or "xtce")
        out[name] = (r, arg)
        out[name + " + comments"] = (X.with_comments(r), arg)
        out[name + " + indentation"] = (X.with_whitespace(r, "\t" if mode == "default" else "    "), arg)
    r = X.respell(g1, "none")
    r.attrs["__nsdecl__"] = {"xsi": "http://www.w3.org/2001/XMLSchema-instance"}
    attach_nsmap(r)
    out["no namespace + xsi declaration"] = (r, None)
    return out


def failing_documents(g1):
    """Inputs whose load fails at different stages."""
    docs = {}
    docs["malformed XML"] = Raised(ExcVal("XMLSyntaxError", ("malformed",)))
    bad = X.respell(g1, "prefix", "xtce")
    for e in all_elements(bad):
        if e.attrs["tag"].endswith("ParameterRefEntry"):
            e.attrs["attrib"]["parameterRef"] = "NO_SUCH_PARAMETER"
            break
    docs["undefined parameterRef (fails in the container stage)"] = bad
    bad2 = X.respell(g1, "default")
    for e in all_elements(bad2):
        if e.attrs["tag"].endswith("}Parameter") or e.attrs["tag"] == "Parameter":
            e.attrs["attrib"]["parameterTypeRef"] = "NO_SUCH_TYPE"
            break
    docs["undefined parameterTypeRef (fails in the parameter stage)"] = bad2
    docs["wrong prefix argument"] = ("prefix-mismatch", X.respell(g1, "prefix", "xtce"))
    return docs


def try_load(h, doc, arg, **kw):
    try:
        if isinstance(doc, Raised):
            raise doc
        return ("ok", X.load(h, clone_tree(doc), arg, **kw))
    except Raised as r:
        return ("raise", r.exc.tname)
    except RecursionError:
        return ("raise", "RecursionError")


def clone_tree(root):
    c = clone(root)
    c.attrs["__nsdecl__"] = dict(root.attrs.get("__nsdecl__", {}))
    attach_nsmap(c)
    return c


def model_loads(ctx: Ctx, thorough: bool):
    prog = ctx.prog
    h = X.harness(prog)
    d = X.build_kitchen_sink(h)
    g1 = X.write_tree(h, d)
    try:
        base = X.load(h, clone_tree(g1), "xtce")
    except Raised as r:
        ctx.refuted("R16.m", f"{LOAD}::baseline", f"the checker's reference document fails to load: {r.exc.tname} {r.exc.args}")
        return
    rend = renderings(g1)
    base_root = None
    ctx.stats["renderings"] = len(rend)
    # (a) spelling independence, each rendering loaded in a fresh process state
    for name, (doc, arg) in rend.items():
        site = f"{LOAD}::rendering::{name}"
        h2 = X.harness(prog)
        try:
            kind, got = try_load(h2, doc, arg)
        except (Unsupported, StepLimit) as e:
            ctx.unknown("R16.m", site, str(e))
            continue
        if kind != "ok":
            ctx.refuted("R16.m", site, f"the same document spelled as `{name}` fails to load: {got}")
            continue
        diff = X.compare_ignoring_ns(h2, base, got)
        ctx.decide(diff is None, "R16.m", site, "same definition", f"the document spelled as `{name}` loads to a different definition: {diff}")
        # ... and with the loader's other argument given (a non-default root container): still the same definition
        site = f"{LOAD}::rendering::{name}::root_container_name given"
        h2 = X.harness(prog)
        try:
            if base_root is None:
                base_root = X.load(X.harness(prog), clone_tree(g1), "xtce", root_container_name="SCI")
            kind, got = try_load(h2, doc, arg, root_container_name="SCI")
        except (Unsupported, StepLimit) as e:
            ctx.unknown("R16.m", site, str(e))
            continue
        except Raised as r:
            ctx.unknown("R16.m", site, f"the reference rendering does not load with a root container name: {r.exc.tname}")
            continue
        if kind != "ok":
            ctx.refuted("R16.m", site, f"the same document spelled as `{name}` fails to load when root_container_name='SCI' is given: {got}")
            continue
        diff = X.compare_ignoring_ns(h2, base_root, got)
        ctx.decide(diff is None, "R16.m", site, "same definition", f"the document spelled as `{name}`, loaded with root_container_name='SCI', differs: {diff}")
    # (b) history independence (on a tiny document: the process-wide state does not depend on document size)
    hm = X.harness(prog)
    gm = X.write_tree(hm, hm.ev(X.tiny_src(), DEF))
    try:
        base_m = X.load(hm, clone_tree(gm), "xtce")
    except Raised as r:
        ctx.refuted("R16.m", f"{LOAD}::baseline-tiny", f"the checker's small reference document fails to load: {r.exc.tname} {r.exc.args}")
        return
    rend = renderings(gm)
    fails = failing_documents(gm)
    prior = {}
    for k in ("prefix foo", "default namespace", "no namespace", "prefix xtce + comments", "no namespace + xsi declaration"):
        prior[k] = rend[k]
    for k, v in fails.items():
        if isinstance(v, tuple):
            prior[k] = (v[1], "wrongpfx")
        else:
            prior[k] = (v, "xtce" if k.startswith("undefined parameterRef") else None)
    targets = ["prefix xtce", "default namespace", "no namespace", "prefix foo"]
    singles = [[a] for a in prior]
    pairs = [[a, b2] for a in prior for b2 in prior if a != b2]
    hist = singles + (pairs if thorough else pairs[::5])
    n = 0
    for t in targets:
        doc, arg = rend[t]
        for hs in hist:
            site = f"{LOAD}::history::{' ; '.join(hs)} -> {t}"
            h3 = X.harness(prog)
            try:
                for p in hs:
                    try_load(h3, prior[p][0], prior[p][1])
                kind, got = try_load(h3, doc, arg)
            except (Unsupported, StepLimit) as e:
                ctx.unknown("R16.m", site, str(e))
                continue
            n += 1
            if kind != "ok":
                ctx.refuted("R16.m", site, f"after the earlier loads [{'; '.join(hs)}] the document `{t}` fails to load: {got}")
                continue
            diff = X.compare_ignoring_ns(h3, base_m, got)
            ctx.decide(diff is None, "R16.m", site, "", f"after the earlier loads [{'; '.join(hs)}] the document `{t}` loads differently: {diff}")
    ctx.stats["histories"] = n
    # (c) the same *path* loaded again after the file was replaced by another rendering, by a malformed file, and again
    site = f"{LOAD}::history::one path, file replaced between loads"
    if prog.func_opt("__init__.py::load_xml") is None:
        ctx.note("no package-level load_xml(filename): path histories not applicable")
        return
    try:
        docs = {}
        h4 = X.harness(prog, documents=docs)
        bad = None
        seq = [("prefix xtce", rend["prefix xtce"][0]), ("prefix xtce + comments", rend["prefix xtce + comments"][0])]
        seq.append(("malformed XML", Raised(ExcVal("XMLSyntaxError", ("Opening and ending tag mismatch",)))))
        seq.append(("prefix xtce", rend["prefix xtce"][0]))
        seen = []
        for name, doc in seq:
            docs["the.xml"] = doc if isinstance(doc, Raised) else clone_tree(doc)
            if not isinstance(doc, Raised):
                attach_nsmap(docs["the.xml"])
            k, got = h4.outcome("load_xml(p)", "__init__.py", p="the.xml")
            if isinstance(doc, Raised):
                if k != "raise":
                    bad = f"the.xml now holds malformed XML but load_xml('the.xml') returns a definition (of an earlier load)"
            elif k != "ok":
                bad = f"the.xml holding the rendering `{name}` fails to load after earlier loads of the same path: {got}"
            else:
                diff = X.compare_ignoring_ns(h4, base_m, got)
                if diff:
                    bad = f"the.xml holding the rendering `{name}` loads differently after earlier loads of the same path: {diff}"
                elif any(got is x for x in seen):
                    bad = "two loads of the same path return one shared definition object"
                seen.append(got)
            if bad:
                break
        ctx.decide(bad is None, "R16.m", site, "every load reads the file", bad or "")
    except (Unsupported, StepLimit) as e:
        ctx.unknown("R16.m", site, str(e))


def check(ctx: Ctx) -> None:
    cg = CallGraph(ctx.prog)
    ctx.guard("R16.1", LOAD, raw_iteration, ctx, cg)
    ctx.guard("R16.2", LOAD, state_discipline, ctx, cg)
    ctx.guard("R16.m", LOAD, model_loads, ctx, ctx.stats.get("tier") == "thorough")


def controls():
    files = {
        "common.py": "class NamespaceAwareElement:\n    _nsmap = {}\n    _ns_prefix = None\n",
        "xtce/definitions.py": '''
class XtcePacketDefinition:
    @classmethod
    def from_xtce(cls, xtce_document, *, xtce_ns_prefix="xtce"):
        tree = parse(xtce_document)
        element = tree.getroot().find("A")
        return [cls.one(el) for el in element]
''',
    }
    return [("reader iterates an element directly", files, "R16.1")]


def mutants(prog):
    import re
    out = []

    def sub(rel, name, pattern, repl, expect="R16", flags=0):
        src = prog.files[rel]
        new, n = re.subn(pattern, repl, src, count=1, flags=flags)
        if n:
            out.append((name, rel, new, expect))

    enc, cal, cont, cm = "xtce/encodings.py", "xtce/calibrators.py", "xtce/containers.py", "common.py"
    sub(enc, "context calibrator list iterated raw", r"for el in context_calibrators_elements\.iterfind\('\*'\)\]", "for el in context_calibrators_elements]", "R16.1")
    sub(cal, "polynomial terms iterated raw", r"for term in element\.findall\('\*'\)", "for term in element", "R16.1")
    sub(cal, "spline points via list()", r"for p in element\.iterfind\('\*'\)", "for p in list(element)", "R16.1")
    sub(cont, "entry list iterated raw", r"for entry in element\.find\('EntryList'\)\.iterfind\('\*'\):", "for entry in element.find('EntryList'):", "R16")
    sub(DEF, "prefix only set when given", r"        xtce_element_class\.set_ns_prefix\(xtce_ns_prefix\)\n", "        if xtce_ns_prefix is not None:\n            xtce_element_class.set_ns_prefix(xtce_ns_prefix)\n", "R16")
    sub(DEF, "nsmap only set when non-empty", r"        xtce_element_class\.set_nsmap\(tree\.getroot\(\)\.nsmap\)\n", "        if tree.getroot().nsmap:\n            xtce_element_class.set_nsmap(tree.getroot().nsmap)\n", "R16")
    sub(DEF, "state set after the first lookup", r"(        xtce_element_class\.set_ns_prefix\(xtce_ns_prefix\)\n        xtce_element_class\.set_nsmap\(tree\.getroot\(\)\.nsmap\)\n)(\n        space_system = tree\.getroot\(\)\n        ns = tree\.getroot\(\)\.nsmap\n\n        header = space_system\.find\(\"Header\"\)\n)", r"\2\1", "R16.2")
    sub(cm, "xpath prefixing memoised", r"(    @classmethod\n    def add_namespace_to_xpath)", r"    @functools.lru_cache(maxsize=None)\n\1", "R16.5")
    sub(cm, "hard-coded prefix", r'return f"\{cls\._ns_prefix\}:"', 'return "xtce:"', "R16.m")
    sub(cm, "nsmap merged instead of replaced", r"        cls\._nsmap = nsmap\n", "        cls._nsmap = {**cls._nsmap, **nsmap}\n", "R16.m")
    sub(cont, "class-level parse stack", r"(        entry_list = \[\]  # List to house)", r"        cls._parse_stack = getattr(cls, '_parse_stack', []) + [element.attrib['name']]\n\1", "R16.3")
    return out


SPEC = PropSpec(
    pid="C16",
    title="Loading is independent of lexical spelling and of earlier loads",
    check=check,
    floors={"R16.1": 15, "R16.2": 4, "R16.3": 20, "R16.5": 1, "R16.m": 20},
    fallback={"R16.2": ("R16.m",)},
    explanation=("R16.1 element-typed dataflow over every reader in the call-graph closure of from_xtce: a variable holding "
                 "an element (parameter, find result, loop variable over iterfind/findall) is never iterated, indexed, "
                 "len()-ed or list()-ed - children are reached through find/findall/iterfind, which select elements "
                 "only. R16.2 both namespace setters dominate the first element lookup of from_xtce and take this "
                 "call's own prefix / this document's nsmap. R16.3 nothing else in the load closure stores to the "
                 "namespace state or to any class-level/module-level object (so a failed load leaves no residue). "
                 "R16.5 no memoisation over the state. R16.m the loader is interpreted on the XML model: the "
                 "kitchen-sink document in 9 renderings (two prefixes, default namespace, no namespace, no namespace "
                 "with an unrelated xsi declaration, each with and without comments between all elements) must load to "
                 "the same definition, and so must each target after histories of earlier loads drawn from other "
                 "renderings, malformed input and documents that fail half-way. lxml's own namespace resolution is "
                 "modelled, not decided."
                 ' Path histories: the same path loaded again through load_xml after the file was replaced by another rendering or by malformed XML reflects the file, and two loads never share one definition object.'
                 ' Renderings include indentation (whitespace text and tails, spaces or tabs) next to comments.'
                 ' Every rendering is also loaded with a non-default root_container_name.'),
    rule_doc="R16.1/R16.3 per reader function; R16.2 per setter; R16.m per rendering and per (history, target)",
    assumptions=["lxml: ElementPath `*` and named steps select elements only; iterating an element yields comments too",
                 "lxml resolves prefixes through the namespaces= argument (None key = default namespace)"],
    controls=controls,
    mutants=mutants,
    technique="element-typed dataflow, dominance (must-pass-through), who-may-write over the load closure; abstract interpretation over renderings x load histories",
)

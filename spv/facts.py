"""Must-facts over a CFG: sets of affine inequalities ``g >= 0`` (DESIGN 3.4).

* ``FactFlow(cfg, builder)`` computes, for every node, facts that hold on *every* path reaching it
  (forward dataflow, join = intersection, exact substitution at ``x = e`` / ``x += e``).
* ``entails(facts, req)`` decides requirement ``req >= 0`` from facts + background facts by a bounded search for a
  non-negative combination.
* ``refute(...)`` looks for one concrete path on which the facts entail the *negation* of the requirement.
"""
from __future__ import annotations

import ast
from typing import Dict, FrozenSet, Iterable, List, Optional, Set, Tuple

from .affine import Aff, AffBuilder, cmp_to_aff, normalise
from .astutil import dotted
from .cfg import CFG
from .core import Unsupported

Facts = FrozenSet[Aff]
NONNEG_CALLS = {"_extract_bits", "len"}      # opaque calls whose result is a non-negative integer (roles.bits_fn adds the current name)


def _atom_mentions(atom: str, name: str) -> bool:
    """Does atom text refer to variable/attribute ``name`` (as itself, as len(name), or nested)?"""
    import re
    return re.search(r"(?<![\w.])" + re.escape(name) + r"(?![\w])", atom) is not None


def background(atoms: Iterable[str]) -> List[Aff]:
    """Facts that hold for every value of an atom: len(.) >= 0, 0 <= mod8(.) <= 7, pow2(.) >= 1,
    _extract_bits(...) >= 0 (a Bits value is a non-negative integer)."""
    out = []
    for a in atoms:
        if a.startswith("len("):
            out.append(Aff.atom(a))
        elif a.startswith("mod8("):
            out.append(Aff.atom(a))
            out.append(Aff.k(7) - Aff.atom(a))
        elif a.startswith("pow2("):
            out.append(Aff.atom(a) - Aff.k(1))
        elif a.startswith("call:") and a[5:].split("(", 1)[0] in NONNEG_CALLS:
            out.append(Aff.atom(a))
    return out


def tighten(a: Aff) -> Aff:
    """g*t + c >= 0 over the integers  <=>  t + floor(c/g) >= 0   (g = gcd of the coefficients)."""
    from math import gcd
    a = normalise(a)
    g = 0
    for c in a.terms.values():
        g = gcd(g, abs(c))
    if g > 1:
        return Aff({k: c // g for k, c in a.terms.items()}, a.const // g)
    return a


def entails(facts: Iterable[Aff], req: Aff, *, depth: int = 3) -> bool:
    """req >= 0 follows from facts (each >= 0) if req - sum(chosen facts) is a non-negative constant."""
    req = tighten(req)
    if req.is_const():
        return req.const >= 0
    facts = list(dict.fromkeys(tighten(f) for f in facts))
    atoms = set(req.atoms())
    for f in facts:
        atoms |= f.atoms()
    pool = facts + [b for b in background(atoms) if b not in facts]
    # only facts sharing atoms with the residual can help
    def search(res: Aff, d: int, start: int) -> bool:
        if res.is_const():
            return res.const >= 0
        if d == 0:
            return False
        for i in range(start, len(pool)):
            f = pool[i]
            if not (f.atoms() & res.atoms()):
                continue
            # using f must not introduce the same atom with the wrong sign blindly; just try
            if search(normalise(res - f), d - 1, i):
                return True
        return False
    return search(req, depth, 0)


class FactFlow:
    def __init__(self, cfg: CFG, builder: AffBuilder, *, assume: Iterable[Aff] = ()):
        self.cfg = cfg
        self.b = builder
        self.assume = frozenset(assume)
        self.state: Dict[int, Optional[Facts]] = {n.id: None for n in cfg.nodes}
        self._solve()

    # ------------------------------------------------------------ transfer
    def _aff(self, e: ast.AST) -> Optional[Aff]:
        try:
            return self.b.build(e)
        except Unsupported:
            return None

    @staticmethod
    def _kill(facts: Set[Aff], name: str) -> Set[Aff]:
        return {f for f in facts if not any(_atom_mentions(a, name) for a in f.atoms())}

    def transfer_stmt(self, node, facts: Set[Aff]) -> Set[Aff]:
        st = node.ast
        if st is not None and node.kind in ("test", "stmt"):
            for n in ast.walk(st):
                if isinstance(n, ast.NamedExpr):          # walrus inside a test / expression re-binds its target
                    facts = self._kill(facts, n.target.id)
        if node.kind in ("entry", "exit", "raise", "test"):
            return facts
        if node.kind == "handler":
            return set()
        if node.kind == "for":
            for t in ast.walk(st.target):
                d = dotted(t)
                if d:
                    facts = self._kill(facts, d)
            return facts
        if node.kind == "case":
            for n in ast.walk(st):
                if isinstance(n, (ast.MatchAs, ast.MatchStar)) and n.name:
                    facts = self._kill(facts, n.name)
                elif isinstance(n, ast.NamedExpr):
                    facts = self._kill(facts, n.target.id)
            return facts
        if node.kind == "with":
            for it in st.items:
                if it.optional_vars is not None:
                    d = dotted(it.optional_vars)
                    if d:
                        facts = self._kill(facts, d)
            return facts
        if isinstance(st, ast.Assign) and len(st.targets) == 1:
            tgt = dotted(st.targets[0])
            if tgt is None:
                # tuple targets / subscripts: kill every name written
                for t in ast.walk(st.targets[0]):
                    d = dotted(t)
                    if d and isinstance(getattr(t, "ctx", None), ast.Store):
                        facts = self._kill(facts, d)
                return facts
            e = self._aff(st.value)
            if e is not None and not any(_atom_mentions(a, tgt) for a in e.atoms()):
                facts = self._kill(facts, tgt)
                x = Aff.atom(tgt)
                facts |= {normalise(x - e), normalise(e - x)}
                return facts
            if e is not None and e.terms.get(tgt) == 1 and \
                    not any(_atom_mentions(a, tgt) for a in e.atoms() if a != tgt):
                delta = e - Aff.atom(tgt)     # x = x + delta
                return {f.subst(tgt, Aff.atom(tgt) - delta) if tgt in f.atoms() else f
                        for f in self._kill_nested(facts, tgt)}
            return self._kill(facts, tgt)
        if isinstance(st, ast.Assign):
            for tg in st.targets:
                for t in ast.walk(tg):
                    d = dotted(t)
                    if d and isinstance(getattr(t, "ctx", None), ast.Store):
                        facts = self._kill(facts, d)
            return facts
        if isinstance(st, ast.AnnAssign):
            d = dotted(st.target)
            return self._kill(facts, d) if d else facts
        if isinstance(st, ast.AugAssign):
            tgt = dotted(st.target)
            if tgt is None:
                return facts
            e = self._aff(st.value)
            if isinstance(st.op, (ast.Add, ast.Sub)) and e is not None and \
                    not any(_atom_mentions(a, tgt) for a in e.atoms()):
                delta = e if isinstance(st.op, ast.Add) else -e
                out = set()
                for f in facts:
                    ok = True
                    g = f
                    if tgt in f.atoms():
                        g = f.subst(tgt, Aff.atom(tgt) - delta)
                    # the same name used as a sequence: len(x) only grows under +=
                    for a in f.atoms():
                        if a != tgt and _atom_mentions(a, tgt):
                            if a == f"len({tgt})" and isinstance(st.op, ast.Add) and f.terms[a] > 0:
                                continue
                            ok = False
                    if ok:
                        out.add(g)
                return out
            if isinstance(st.op, ast.Add):
                # sequence append with a non-affine right-hand side: len(x) can only grow
                out = set()
                for f in facts:
                    bad = False
                    for a in f.atoms():
                        if _atom_mentions(a, tgt) and not (a == f"len({tgt})" and f.terms[a] > 0):
                            bad = True
                    if not bad:
                        out.add(f)
                return out
            return self._kill(facts, tgt)
        if isinstance(st, ast.Delete):
            for t in st.targets:
                d = dotted(t)
                if d:
                    facts = self._kill(facts, d)
            return facts
        if isinstance(st, (ast.FunctionDef, ast.AsyncFunctionDef, ast.ClassDef)):
            return self._kill(facts, st.name)
        return facts

    def _kill_nested(self, facts: Set[Aff], name: str) -> Set[Aff]:
        """Drop facts that mention ``name`` inside a structured atom (len(x), div8(..x..)), keep plain uses."""
        return {f for f in facts if not any(a != name and _atom_mentions(a, name) for a in f.atoms())}

    def edge_facts(self, node, label, facts: Set[Aff]) -> Set[Aff]:
        if node.kind != "test" or label not in (True, False):
            return facts
        try:
            pos, neg = cmp_to_aff(node.ast, self.b.build)
        except Unsupported:
            return facts
        add = pos if label is True else neg
        out = set(facts)
        if add:
            out |= {normalise(a) for a in add}
        elif add is None:
            # a != b (from '==' false / '!=' true): strengthen when one direction is already known
            other = neg if label is True else pos
            if other and len(other) == 2:
                d = normalise(other[0])
                if entails(out, d):
                    out.add(normalise(d - Aff.k(1)))
                elif entails(out, -d):
                    out.add(normalise(-d - Aff.k(1)))
        return out

    # ------------------------------------------------------------ solver
    def _solve(self):
        cfg = self.cfg
        self.state[cfg.entry] = frozenset(self.assume)
        work = [cfg.entry]
        guard = 0
        while work:
            guard += 1
            if guard > 20000:
                raise Unsupported("fact flow did not converge")
            n = work.pop()
            s = self.state[n]
            if s is None:
                continue
            node = cfg.nodes[n]
            base = self.transfer_stmt(node, set(s))
            for t, lab in cfg.succ[n]:
                if lab == "exc":
                    out: Set[Aff] = set()
                else:
                    out = self.edge_facts(node, lab, base)
                old = self.state[t]
                new = frozenset(out) if old is None else old & frozenset(out)
                if old is None or new != old:
                    self.state[t] = new
                    work.append(t)

    def at(self, node_id: int) -> Facts:
        """Facts holding on entry to the node (before its statement executes)."""
        return self.state[node_id] or frozenset()

    def proves(self, node_id: int, req: Aff) -> bool:
        return self.state[node_id] is not None and entails(self.at(node_id), req)

    # ------------------------------------------------------------ refutation by path witness
    def refute(self, node_id: int, req: Aff, *, max_states: int = 6000) -> Optional[List[Tuple[int, object]]]:
        """A path entry -> node on which the accumulated facts entail ``req <= -1``; None if none found.
        Breadth-first over (node, fact set) states with a visited set (shortest witness first)."""
        from collections import deque
        cfg = self.cfg
        neg = normalise(-req - Aff.k(1))
        start = (cfg.entry, frozenset(self.assume))
        prev = {start: None}
        q = deque([start])
        n_states = 0
        while q:
            state = q.popleft()
            n, facts = state
            n_states += 1
            if n_states > max_states:
                return None
            if n == node_id:
                if entails(facts, neg) and not _pair_contradiction(list(facts)):
                    path = []
                    cur = state
                    while prev[cur] is not None:
                        p, lab = prev[cur]
                        path.append((p[0], lab))
                        cur = p
                    path.reverse()
                    return path
                continue
            node = cfg.nodes[n]
            base = self.transfer_stmt(node, set(facts))
            for t, lab in cfg.succ[n]:
                if lab == "exc":
                    continue
                out = frozenset(self.edge_facts(node, lab, base))
                if _pair_contradiction(list(out)):
                    continue            # infeasible branch
                nxt = (t, out)
                if nxt not in prev:
                    prev[nxt] = (state, lab)
                    q.append(nxt)
        return None


def _inconsistent(facts: Iterable[Aff]) -> bool:
    """-1 >= 0 derivable: the path is infeasible."""
    return entails(facts, Aff.k(-1), depth=2) if False else _pair_contradiction(list(facts))


def _pair_contradiction(facts: List[Aff]) -> bool:
    fs = [normalise(f) for f in facts]
    for i, f in enumerate(fs):
        if f.is_const() and f.const < 0:
            return True
        for g in fs[i + 1:]:
            s = normalise(f + g)
            if s.is_const() and s.const < 0:
                return True
    return False

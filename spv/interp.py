"""Abstract interpreter for a small Python subset, used to evaluate *extracted* control skeletons and arithmetic
over model values (ordering-class representatives, small integers, opaque symbols).

It never imports or executes repository code: it walks the AST of one function at a time, with its own value
model.  Anything outside its vocabulary raises ``Unsupported`` (-> UNKNOWN, never a violation).

Values: Python ints/floats/bools/str/bytes/None/lists/tuples/dicts/sets (native semantics), ``Sym`` (opaque token),
``Obj`` (model instance of a repository class or an ad-hoc record), ``ClassRef``, ``Closure``, ``BoundMethod``.
"""
from __future__ import annotations

import ast
import operator as _op
from typing import Any, Callable, Dict, List, Optional

from .astutil import dotted, unparse
from .core import Unsupported
from .program import ClassInfo, FuncInfo, Program


class Sym:
    """Opaque token (identity matters, contents do not)."""
    __slots__ = ("name",)

    def __init__(self, name: str):
        self.name = name

    def __repr__(self):
        return f"${self.name}"


class Obj:
    """Model instance: ``cls`` is a repository class name (methods resolved through the program's MRO) or None."""

    def __init__(self, cls: Optional[str] = None, **attrs):
        object.__setattr__(self, "cls", cls)
        object.__setattr__(self, "attrs", dict(attrs))

    def __repr__(self):
        return f"<{self.cls or 'obj'} {self.attrs}>"


class _NativeModel:
    """Mixin for model values that ARE native Python values (so that CPython's own semantics of comparison,
    arithmetic, slicing, hashing apply) and additionally carry a repository class name and instance attributes."""
    cls: Optional[str]
    attrs: dict


class BytesObj(_NativeModel, bytes):
    def __new__(cls_, data=b"", cls=None, **attrs):
        o = bytes.__new__(cls_, data)
        o.cls, o.attrs = cls, dict(attrs)
        return o


class IntObj(_NativeModel, int):
    def __new__(cls_, v=0, cls=None, **attrs):
        o = int.__new__(cls_, v)
        o.cls, o.attrs = cls, dict(attrs)
        return o


class FloatObj(_NativeModel, float):
    def __new__(cls_, v=0.0, cls=None, **attrs):
        o = float.__new__(cls_, v)
        o.cls, o.attrs = cls, dict(attrs)
        return o


class StrObj(_NativeModel, str):
    def __new__(cls_, v="", cls=None, **attrs):
        o = str.__new__(cls_, v)
        o.cls, o.attrs = cls, dict(attrs)
        return o


class TupleObj(_NativeModel, tuple):
    """namedtuple instance: a native tuple with field names (and optionally a repository subclass name)."""
    def __new__(cls_, vals=(), cls=None, fields=(), **attrs):
        o = tuple.__new__(cls_, vals)
        o.cls, o.attrs, o.fields = cls, dict(attrs), tuple(fields)
        return o


class NTClass:
    """Result of collections.namedtuple(name, fields): a callable constructing TupleObj."""
    def __init__(self, name, fields, cls=None):
        if isinstance(fields, str):
            fields = fields.replace(",", " ").split()
        self.name, self.fields, self.cls = name, tuple(fields), cls

    def __call__(self, *args, **kwargs):
        vals = list(args)
        if len(vals) > len(self.fields):
            raise TypeError("too many arguments")
        for f in self.fields[len(vals):]:
            if f not in kwargs:
                raise TypeError(f"missing {f}")
            vals.append(kwargs.pop(f))
        if kwargs:
            raise TypeError(f"unexpected {list(kwargs)}")
        return TupleObj(vals, cls=self.cls or self.name, fields=self.fields)

    @property
    def _fields(self):
        return self.fields

    def _make(self, iterable):
        return self(*list(iterable))


class GenList(list):
    """What a generator function / generator expression / map / filter / zip / enumerate / reversed evaluates to: the values are
    computed eagerly (the interpreter is not lazy) but can be *consumed only once*, like the real iterator: a second pass is
    empty, next() advances, truthiness is always true, len() and indexing are not available to the program."""
    def __init__(self, *a):
        super().__init__(*a)
        self.pos = 0

    def take(self):
        out = list(self[self.pos:])
        self.pos = len(self)
        return out

    def __repr__(self):
        return f"<generator {list.__repr__(self)} at {self.pos}>"


class _GenIter:
    """Live iteration over a GenList: a `for` loop that breaks leaves the rest for later."""
    def __init__(self, g: GenList):
        self.g = g

    def __iter__(self):
        return self

    def __next__(self):
        g = self.g
        if g.pos >= len(g):
            raise StopIteration
        v = list.__getitem__(g, g.pos)
        g.pos += 1
        return v


class DictObj(_NativeModel, dict):
    def __init__(self, *a, cls=None, **attrs):
        dict.__init__(self, *a)
        self.cls, self.attrs = cls, dict(attrs)


_DUNDER_CMP = {"__eq__", "__ne__", "__lt__", "__le__", "__gt__", "__ge__"}


class ClassRef:
    def __init__(self, name: str):
        self.name = name

    def __repr__(self):
        return f"<class {self.name}>"

    def __eq__(self, o):
        return isinstance(o, ClassRef) and o.name == self.name

    def __hash__(self):
        return hash(("ClassRef", self.name))


class Closure:
    def __init__(self, node, env: "Env", fi: Optional[FuncInfo], relpath: str, cls: Optional[str]):
        self.node, self.env, self.fi, self.relpath, self.cls = node, env, fi, relpath, cls


class BoundMethod:
    def __init__(self, fi: FuncInfo, self_val):
        self.fi, self.self_val = fi, self_val


class ExcVal:
    def __init__(self, tname: str, args: tuple = (), kwargs: Optional[dict] = None):
        self.tname, self.args, self.kwargs = tname, args, kwargs or {}
        self.attrs: Optional[dict] = None      # set when the repository's own __init__ was interpreted

    def __repr__(self):
        return f"{self.tname}{self.args}"


class Raised(Exception):
    def __init__(self, exc: ExcVal, node: Optional[ast.AST] = None):
        super().__init__(repr(exc))
        self.exc = exc
        self.node = node


_MISSING = object()


class _StopComp(Exception):
    """Stops the element loop of a generator expression that its consumer has finished with."""
_ACTIVE: list = []          # the interpreter used last (harness code reads public attributes of model objects through it)


def pub(obj, name: str, default=None):
    """A public attribute of a model object as the program itself would read it: the instance attribute, or - when the class
    keeps it behind a property (backing field of another name) - what the property's getter returns."""
    a = getattr(obj, "attrs", None)
    if a is None:
        return default
    it = _ACTIVE[-1] if _ACTIVE else None
    if it is not None and getattr(obj, "cls", None) in it.prog.classes:
        pr = it._data_property(obj, name)
        if pr is not None:
            try:
                if name in a:
                    it.call(pr[1], [obj, a.pop(name)])
                return it.call(pr[0], [obj])
            except (Raised, Unsupported):
                return default
    return a.get(name, default)


class _Return(Exception):
    def __init__(self, v):
        self.v = v


class _Break(Exception):
    pass


class _Continue(Exception):
    pass


class StepLimit(Unsupported):
    pass


BUILTIN_EXC_BASES = {
    "KeyError": "LookupError", "IndexError": "LookupError", "LookupError": "Exception",
    "ValueError": "Exception", "TypeError": "Exception", "AttributeError": "Exception",
    "NotImplementedError": "RuntimeError", "RuntimeError": "Exception", "ZeroDivisionError": "ArithmeticError",
    "ArithmeticError": "Exception", "OverflowError": "ArithmeticError", "OSError": "Exception",
    "StopIteration": "Exception", "AssertionError": "Exception", "UnicodeDecodeError": "ValueError",
    "UnboundLocalError": "NameError", "NameError": "Exception", "UnicodeError": "ValueError", "UnicodeEncodeError": "ValueError",
    "FloatingPointError": "ArithmeticError", "BufferError": "Exception", "EOFError": "Exception", "MemoryError": "Exception",
    "Exception": "BaseException", "BaseException": None, "Warning": "Exception", "UserWarning": "Warning",
    "ImportError": "Exception", "RecursionError": "RuntimeError", "timeout": "OSError",
    "UnsupportedOperation": "OSError", "BadGzipFile": "OSError", "FileNotFoundError": "OSError", "PermissionError": "OSError",
    "IsADirectoryError": "OSError", "ConnectionError": "OSError", "ConnectionResetError": "ConnectionError",
    "BrokenPipeError": "ConnectionError", "TimeoutError": "OSError", "BlockingIOError": "OSError", "InterruptedError": "OSError",
    "KeyboardInterrupt": "BaseException", "GeneratorExit": "BaseException", "SystemExit": "BaseException",
    "PicklingError": "Exception", "UnpicklingError": "Exception", "error": "Exception", "ModuleNotFoundError": "ImportError",
    "IndentationError": "SyntaxError", "SyntaxError": "Exception", "DeprecationWarning": "Warning", "RuntimeWarning": "Warning",
    "FutureWarning": "Warning", "ResourceWarning": "Warning", "UnicodeTranslateError": "UnicodeError",
}

_NATIVE_TYPES = (int, float, bool, str, bytes, bytearray, type(None), list, tuple, dict, set, frozenset, range, slice)

# methods of native values that may be executed natively (pure or mutating the model value itself)
_NATIVE_METHODS = {
    list: {"append", "extend", "pop", "index", "insert", "remove", "clear", "copy", "count", "sort", "reverse"},
    tuple: {"index", "count"},
    dict: {"get", "pop", "keys", "values", "items", "setdefault", "update", "clear", "copy", "popitem"},
    set: {"add", "discard", "remove", "copy", "union", "intersection", "clear", "pop"},
    frozenset: {"union", "intersection"},
    str: {"lower", "upper", "startswith", "endswith", "split", "join", "strip", "format", "replace", "encode",
          "isdigit", "find", "index", "partition", "rpartition", "rsplit", "lstrip", "rstrip", "title", "capitalize",
          "casefold", "isalpha", "isalnum", "zfill", "removeprefix", "removesuffix", "count", "splitlines", "rfind",
          "isidentifier", "isspace", "isupper", "islower", "ljust", "rjust", "center", "swapcase", "translate"},
    bytes: {"decode", "hex", "index", "find", "startswith", "endswith", "rfind", "count", "split", "partition", "rstrip",
            "lstrip", "strip", "replace", "join"},
    int: {"to_bytes", "bit_length", "is_integer"},
    float: {"is_integer"},
    bool: {"to_bytes", "bit_length"},
    bytearray: {"decode", "hex", "index", "find", "append", "extend", "pop", "startswith", "endswith", "reverse", "copy"},
}

_PURE_STDLIB = {"struct", "bisect", "operator", "math", "re", "itertools", "functools", "string", "datetime", "textwrap", "codecs",
                "decimal", "fractions", "binascii", "base64", "unicodedata"}


def _vars(o):
    """vars(obj): the live instance dictionary of a program-class instance (as `obj.__dict__`)."""
    if isinstance(o, (Obj, _NativeModel)) and getattr(o, "cls", None):
        return o.attrs
    raise TypeError("vars() argument must have __dict__ attribute")


def _suppress(*types):
    return Obj(None, __suppress__=list(types))


def _extra_external(interp, key: str):
    """Standard-library names with native semantics that need no per-check stub."""
    import collections as _c
    table = {"collections.Counter": _c.Counter, "collections.deque": _c.deque, "collections.OrderedDict": _c.OrderedDict,
             "collections.defaultdict": _c.defaultdict, "collections.ChainMap": _c.ChainMap, "contextlib.suppress": _suppress,
             "dataclasses.replace": interp._dc_replace, "copy.copy": interp._copy, "copy.deepcopy": interp._deepcopy,
             "typing.cast": lambda t, v: v, "collections.namedtuple": _BUILTINS["namedtuple"]}
    if key in table:
        return table[key]
    if key == "numpy":
        from .npmodel import module as _np_module
        return _np_module()
    # pure text helpers of the standard library (functions of their arguments only)
    pure = {"xml.sax.saxutils": ("escape", "unescape", "quoteattr"), "html": ("escape", "unescape"), "shlex": ("quote",),
            "urllib.parse": ("quote", "unquote")}
    mod, _, name = key.rpartition(".")
    if mod in pure and name in pure[mod]:
        import importlib
        return getattr(importlib.import_module(mod), name)
    return None

_BINOPS = {
    ast.Add: _op.add, ast.Sub: _op.sub, ast.Mult: _op.mul, ast.FloorDiv: _op.floordiv, ast.Mod: _op.mod,
    ast.Pow: _op.pow, ast.LShift: _op.lshift, ast.RShift: _op.rshift, ast.BitAnd: _op.and_, ast.BitOr: _op.or_,
    ast.BitXor: _op.xor, ast.Div: _op.truediv,
}
_CMPOPS = {
    ast.Eq: _op.eq, ast.NotEq: _op.ne, ast.Lt: _op.lt, ast.LtE: _op.le, ast.Gt: _op.gt, ast.GtE: _op.ge,
}


class Env:
    def __init__(self, parent: Optional["Env"] = None):
        self.vars: Dict[str, Any] = {}
        self.parent = parent

    def lookup(self, name: str):
        e = self
        while e is not None:
            if name in e.vars:
                return True, e.vars[name]
            e = e.parent
        return False, None

    def set(self, name: str, v):
        nl = self.vars.get("__nonlocal__")
        if nl and name in nl:
            e = self.parent
            while e is not None:
                if name in e.vars:
                    e.vars[name] = v
                    return
                e = e.parent
        self.vars[name] = v


class Interp:
    def __init__(self, prog: Program, *, externals: Optional[Dict[str, Any]] = None, max_steps: int = 200000,
                 on_event: Optional[Callable] = None, interpret_program_functions: bool = True):
        _ACTIVE[:] = [self]
        self.prog = prog
        self.ext = dict(externals or {})
        self.steps = 0
        self.max_steps = max_steps
        self.events: List[tuple] = []
        self.on_event = on_event
        self.interp_prog = interpret_program_functions
        self.trace_lines: List[int] = []
        self.class_state: Dict[tuple, Any] = {}     # (class name, attribute) -> value stored at run time

    # ------------------------------------------------------------------ public API
    def event(self, *ev):
        self.events.append(ev)
        if self.on_event:
            self.on_event(ev)

    _CACHE_DECOS = {"lru_cache", "cache", "functools.lru_cache", "functools.cache"}

    def _cache_key(self, v, node=None):
        """Key under which functools.lru_cache / cache files an argument: Python's hash/== of the value (so 1, 1.0 and True
        collide), identity for instances of classes that define neither __eq__ nor are value-comparing dataclasses;
        unhashable arguments raise TypeError like the real decorator."""
        if isinstance(v, (list, dict, set, bytearray)):
            raise Raised(ExcVal("TypeError", (f"unhashable type: '{type(v).__name__}'",)), node)
        if isinstance(v, tuple):
            return ("t",) + tuple(self._cache_key(x, node) for x in v)
        if isinstance(v, Obj):
            if v.cls and v.cls in self.prog.classes:
                ci = self.prog.classes[v.cls]
                if self.prog.resolve_method(v.cls, "__hash__") is None and \
                        (self.prog.resolve_method(v.cls, "__eq__") is not None or "dataclass" in ci.decorators):
                    raise Raised(ExcVal("TypeError", (f"unhashable type: '{v.cls}'",)), node)
            return ("o", id(v))
        if isinstance(v, (ClassRef,)):
            return ("c", v.name)
        if isinstance(v, (Closure, BoundMethod, FuncInfo, ExcVal)):
            return ("f", id(v))
        return v

    def call(self, fi: FuncInfo, args: list, kwargs: Optional[dict] = None, *, closure_env: Optional[Env] = None):
        """Interpret function ``fi``.  Generators return the list of yielded values (yields are also events)."""
        if not _ACTIVE or _ACTIVE[-1] is not self:
            _ACTIVE[:] = [self]
        if fi.decorators and self._CACHE_DECOS & set(fi.decorators):
            store = self.__dict__.setdefault("_lru_store", {})
            import functools as _ft
            key = (fi.key, _ft._make_key(tuple(self._cache_key(a) for a in args),
                                         {k: self._cache_key(v) for k, v in (kwargs or {}).items()}, False))
            if key in store:
                self.event("cache-hit", fi.key)
                return store[key]
            r = self._call_def(fi.node, fi.relpath, fi.cls.name if fi.cls else None, args, kwargs or {}, closure_env, fi)
            store[key] = r
            return r
        return self._call_def(fi.node, fi.relpath, fi.cls.name if fi.cls else None, args, kwargs or {},
                              closure_env, fi)

    # ------------------------------------------------------------------ calls
    def _call_def(self, node, relpath, cls, args, kwargs, closure_env, fi=None):
        env = Env(closure_env)
        env.vars["__relpath__"] = relpath
        env.vars["__cls__"] = cls
        env.vars["__yields__"] = []
        lcache = self.__dict__.setdefault("_local_cache", {})
        ln = lcache.get(id(node))
        if ln is None:
            ln = lcache[id(node)] = _local_names(node)
        env.vars["__localnames__"] = ln
        self._bind(node.args, args, kwargs, env, relpath, cls)
        cache = self.__dict__.setdefault("_gen_cache", {})
        is_gen = cache.get(id(node))
        if is_gen is None:
            is_gen = cache[id(node)] = any(isinstance(n, (ast.Yield, ast.YieldFrom)) for n in _walk_own(node))
        try:
            if isinstance(node, ast.Lambda):
                return self.eval(node.body, env)
            self.exec_block(node.body, env)
        except _Return as r:
            return GenList(env.vars["__yields__"]) if is_gen else r.v
        except Raised as r:
            if is_gen and r.exc.tname == "StopIteration":      # PEP 479: StopIteration escaping a generator body
                raise Raised(ExcVal("RuntimeError", ("generator raised StopIteration",)), r.node if hasattr(r, "node") else None)
            raise
        return GenList(env.vars["__yields__"]) if is_gen else None

    def _bind(self, a: ast.arguments, args, kwargs, env: Env, relpath, cls):
        pos = [x.arg for x in a.posonlyargs + a.args]
        kwonly = [x.arg for x in a.kwonlyargs]
        defaults = dict(zip(pos[len(pos) - len(a.defaults):], a.defaults))
        for k, d in zip(a.kwonlyargs, a.kw_defaults):
            if d is not None:
                defaults[k.arg] = d
        if len(args) > len(pos) and not a.vararg:
            raise Raised(ExcVal("TypeError", ("too many positional arguments",)))
        bound = {}
        for n, v in zip(pos, args):
            bound[n] = v
        if a.vararg:
            bound[a.vararg.arg] = tuple(args[len(pos):])
        extra = {}
        for k, v in kwargs.items():
            if k in pos or k in kwonly:
                if k in bound:
                    raise Raised(ExcVal("TypeError", (f"multiple values for {k}",)))
                bound[k] = v
            elif a.kwarg:
                extra[k] = v
            else:
                raise Raised(ExcVal("TypeError", (f"unexpected keyword {k}",)))
        if a.kwarg:
            bound[a.kwarg.arg] = extra
        denv = Env(env.parent)
        denv.vars["__relpath__"] = relpath
        denv.vars["__cls__"] = cls
        dcache = self.__dict__.setdefault("_default_cache", {})
        for n in pos + kwonly:
            if n not in bound:
                if n in defaults:
                    # a default is evaluated once, when the function object is created (shared by all calls)
                    key = (id(a), id(env.parent), n)
                    if key not in dcache:
                        dcache[key] = (self.eval(defaults[n], denv), env.parent)      # keep the env alive: ids stay unique
                    bound[n] = dcache[key][0]
                else:
                    raise Raised(ExcVal("TypeError", (f"missing argument {n}",)))
        env.vars.update(bound)

    def call_value(self, f, args: list, kwargs: dict, node: Optional[ast.AST] = None):
        if isinstance(f, Closure):
            return self._call_def(f.node, f.relpath, f.cls, args, kwargs, f.env, f.fi)
        if isinstance(f, BoundMethod):
            fi = f.fi
            if fi.is_static:
                return self.call(fi, args, kwargs)
            return self.call(fi, [f.self_val] + list(args), kwargs)
        if isinstance(f, FuncInfo):
            return self.call(f, args, kwargs)
        if isinstance(f, ClassRef):
            return self._construct(f, args, kwargs, node)
        if callable(f):
            def wrap(x):
                if isinstance(x, (Closure, BoundMethod, FuncInfo)):
                    return lambda *a, **k: self.call_value(x, list(a), k, node)
                return x
            args = [wrap(a) for a in args]
            kwargs = {k: wrap(v) for k, v in kwargs.items()}
            if f is bool and len(args) == 1 and isinstance(args[0], GenList):
                return True
            if (f is str or f is repr) and len(args) == 1 and not kwargs and isinstance(args[0], (Obj, _NativeModel)) \
                    and getattr(args[0], "cls", None) in self.prog.classes:
                # repr(x) / str(x) of an instance of a program class: the program's own __repr__ / __str__ (str falls back to __repr__)
                m = (self._dunder(args[0], "__str__") if f is str else None) or self._dunder(args[0], "__repr__")
                if m is not None:
                    return self.call_value(m, [], {}, node)
            if f is str and len(args) == 1 and not kwargs and isinstance(args[0], ExcVal) and args[0].attrs is None \
                    and args[0].tname in BUILTIN_EXC_BASES:
                a = args[0].args           # BaseException.__str__
                return "" if not a else ((repr(a[0]) if args[0].tname == "KeyError" else str(a[0])) if len(a) == 1 else str(tuple(a)))
            if f is not _b_next and f is not _b_iter and any(isinstance(a, GenList) for a in args):
                if f is len or (f is _BUILTINS.get("len")):
                    raise Raised(ExcVal("TypeError", ("object of type 'generator' has no len()",)), node)
                args = [a.take() if isinstance(a, GenList) else a for a in args]     # a native consumer exhausts it
            if f in _ITER_BUILTINS or f is _b_sum:
                args = [list(a.attrs["__iter__"]) if isinstance(a, Obj) and "__iter__" in a.attrs else
                        (list(a.attrs["__items__"]) if isinstance(a, Obj) and "__items__" in a.attrs else
                         (self.iterate(a, node) if isinstance(a, Obj) and self._dunder(a, "__iter__") is not None else a)) for a in args]
            try:
                return f(*args, **kwargs)
            except (Raised, Unsupported):
                raise
            except (_Return, _Break, _Continue):
                raise
            except Exception as e:   # native semantics of a model callable
                raise Raised(ExcVal(type(e).__name__, e.args), node)
        m = self._dunder(f, "__call__")
        if m is not None:
            return self.call_value(m, args, kwargs, node)
        raise Raised(ExcVal("TypeError", (f"{f!r} is not callable",)), node)

    def _copy(self, x):
        """copy.copy: one level; model instances keep their class, share their attribute values."""
        import copy as _copy
        m = self._dunder(x, "__copy__")
        if m is not None:
            return self.call_value(m, [], {})
        if isinstance(x, Obj):
            if x.attrs.get("__node__"):
                raise Unsupported("copy of an XML node")
            return Obj(x.cls, **x.attrs)
        if isinstance(x, _NativeModel):
            raise Unsupported("copy of a native-subclass model value (decided by C20's copy protocol emulation)")
        if isinstance(x, (Closure, BoundMethod, ClassRef, FuncInfo)):
            return x
        return _copy.copy(x)

    def _deepcopy(self, x, memo=None):
        memo = {} if memo is None else memo
        if id(x) in memo:
            return memo[id(x)]
        m = self._dunder(x, "__deepcopy__")
        if m is not None:
            return self.call_value(m, [memo], {})
        if isinstance(x, Obj):
            if x.attrs.get("__node__"):
                raise Unsupported("deepcopy of an XML node")
            new = Obj(x.cls)
            memo[id(x)] = new
            for k, v in x.attrs.items():
                new.attrs[k] = self._deepcopy(v, memo)
            return new
        if isinstance(x, _NativeModel):
            raise Unsupported("deepcopy of a native-subclass model value (decided by C20's copy protocol emulation)")
        if isinstance(x, list):
            new = type(x)() if type(x) is not GenList else []
            memo[id(x)] = new
            new.extend(self._deepcopy(v, memo) for v in x)
            return new
        if isinstance(x, dict):
            new = {}
            memo[id(x)] = new
            for k, v in x.items():
                new[self._deepcopy(k, memo)] = self._deepcopy(v, memo)
            return new
        if isinstance(x, tuple):
            return tuple(self._deepcopy(v, memo) for v in x)
        if isinstance(x, (set, frozenset)):
            return type(x)(self._deepcopy(v, memo) for v in x)
        return x

    def _dc_replace(self, obj, **changes):
        """dataclasses.replace: a new instance built by the class's constructor from the current fields plus changes."""
        if not (isinstance(obj, Obj) and obj.cls in self.prog.classes and "dataclass" in self.prog.classes[obj.cls].decorators):
            raise Unsupported("dataclasses.replace on a non-dataclass model value")
        fields = {}
        for cname in reversed(self.prog.mro(obj.cls)):
            ci = self.prog.classes.get(cname)
            if ci is not None:
                for fname in ci.ann_attrs:
                    if fname in obj.attrs:
                        fields[fname] = obj.attrs[fname]
        fields.update(changes)
        return self._construct(ClassRef(obj.cls), [], fields, None)

    def _construct(self, c: ClassRef, args, kwargs, node):
        name = c.name
        if name in BUILTIN_EXC_BASES or self._is_exception_class(name):
            ev = ExcVal(name, tuple(args), dict(kwargs))
            init = self.prog.resolve_method(name, "__init__") if name in self.prog.classes else None
            if init is not None:
                # the repository's exception constructor decides which attributes the object carries
                ev.attrs = {}
                ev.args = ()
                ev.kwargs = {}
                self.call(init, [ev] + list(args), dict(kwargs))
            return ev
        hook = self.ext.get("new:" + name)
        if hook is not None:
            try:
                return hook(*args, **kwargs)
            except (Raised, Unsupported, _Return, _Break, _Continue, StepLimit):
                raise
            except (ValueError, TypeError, OverflowError) as ex:      # the built-in base's own constructor rejects the argument
                raise Raised(ExcVal(type(ex).__name__, ex.args), node)
        ci = self.prog.classes.get(name)
        if ci is None:
            raise Unsupported(f"construction of {name} is not modelled")
        for b in ci.node.bases:
            if isinstance(b, ast.Call) and (dotted(b.func) or "").endswith("namedtuple") and len(b.args) == 2:
                fields = self.prog.fold_opt(b.args[1], ci.relpath)
                if fields is None:
                    raise Unsupported("namedtuple fields do not fold")
                try:
                    return NTClass(name, fields, cls=name)(*args, **kwargs)
                except TypeError as e:
                    raise Raised(ExcVal("TypeError", e.args), node)
        bases_txt = [dotted(b) or "" for b in ci.node.bases]
        if any(b.split(".")[-1] == "NamedTuple" for b in bases_txt):
            # class NT(typing.NamedTuple): fields are the annotated names in order, defaults their class-level values
            fields = list(ci.ann_attrs)
            kw = dict(kwargs)
            for fname in fields[len(args):]:
                ann = ci.ann_attrs[fname]
                if fname not in kw and ann.value is not None:
                    kw[fname] = self._eval_class_attr_raw(ci, ann.value)
            try:
                return NTClass(name, fields, cls=name)(*args, **kw)
            except TypeError as e:
                raise Raised(ExcVal("TypeError", e.args), node)
        if any(b.split(".")[-1] in ("Enum", "IntEnum", "IntFlag", "Flag", "StrEnum") for b in bases_txt) or \
                any(self.prog.is_subclass(name, b) for b in ("Enum", "IntEnum")):
            # Enum(value): the member with that value (members are modelled by their values)
            if len(args) != 1 or kwargs:
                raise Raised(ExcVal("TypeError", ("enum lookup takes one value",)), node)
            for aname, aex in ci.attrs.items():
                if not aname.startswith("_"):
                    mv = self._eval_class_attr(ci, aex)
                    if type(mv) is type(args[0]) and mv == args[0] or (isinstance(mv, int) and isinstance(args[0], int) and mv == args[0]):
                        return mv
            raise Raised(ExcVal("ValueError", (f"{args[0]!r} is not a valid {name}",)), node)
        obj = Obj(name)
        if "dataclass" in ci.decorators:
            fields = []
            for c in reversed(self.prog.mro(name)):
                cc = self.prog.classes.get(c)
                if cc and "dataclass" in cc.decorators:
                    for fname, ann in cc.ann_attrs.items():
                        if fname not in [f[0] for f in fields]:
                            fields.append((fname, ann.value, cc))
            bound = {}
            opts = {f[0]: self._dc_field_opts(f[1]) for f in fields}
            params = [f for f in fields if opts[f[0]].get("init", True) is not False]
            positional = [f for f in params if not opts[f[0]].get("kw_only", self._dc_class_opts(f[2]).get("kw_only", False))]
            if len(args) > len(positional):
                raise Raised(ExcVal("TypeError", ("too many arguments",)), node)
            for (fname, _, _), v in zip(positional, args):
                bound[fname] = v
            for k, v in kwargs.items():
                if k not in [f[0] for f in params] or k in bound:
                    raise Raised(ExcVal("TypeError", (f"bad keyword {k}",)), node)
                bound[k] = v
            for fname, default, cc in fields:
                if fname in bound:
                    continue
                if default is None:
                    raise Raised(ExcVal("TypeError", (f"missing {fname}",)), node)
                sub = Env()
                sub.vars["__relpath__"] = cc.relpath
                sub.vars["__cls__"] = cc.name
                dv = self.eval(default, sub)
                if isinstance(dv, Obj) and "__default_factory__" in dv.attrs:
                    dv = self.call_value(dv.attrs["__default_factory__"], [], {}, node)
                bound[fname] = dv
            obj.attrs.update(bound)
            post = self.prog.resolve_method(name, "__post_init__")
            if post is not None:
                self.call(post, [obj], {})
            return obj
        init = self.prog.resolve_method(name, "__init__")
        if init is not None:
            self.call(init, [obj] + list(args), kwargs)
        elif args or kwargs:
            raise Raised(ExcVal("TypeError", (f"{name}() takes no arguments",)), node)
        return obj

    def _is_exception_class(self, name: str) -> bool:
        if name in BUILTIN_EXC_BASES:
            return True
        if name in self.prog.classes:
            return any(b in BUILTIN_EXC_BASES for b in self.prog.mro(name))
        return False

    def exc_matches(self, exc: ExcVal, handler_type: Optional[ast.AST], env: Env) -> bool:
        if handler_type is None:
            return True
        types = handler_type.elts if isinstance(handler_type, ast.Tuple) else [handler_type]
        for t in types:
            tn = (dotted(t) or "").split(".")[-1]
            n = exc.tname
            seen = 0
            if n in self.prog.classes and n not in BUILTIN_EXC_BASES:
                chain = self.prog.mro(n)
            else:
                chain = []
                while n is not None and seen < 20:
                    chain.append(n)
                    n = BUILTIN_EXC_BASES.get(n)
                    seen += 1
            # program exception classes deriving from builtins: extend with the builtin chain
            ext_chain = list(chain)
            for c in chain:
                b = BUILTIN_EXC_BASES.get(c)
                while b is not None and b not in ext_chain:
                    ext_chain.append(b)
                    b = BUILTIN_EXC_BASES.get(b)
            if tn in ext_chain:
                return True
        return False

    # ------------------------------------------------------------------ statements
    def _tick(self, node):
        self.steps += 1
        if self.steps > self.max_steps:
            raise StepLimit(f"step limit {self.max_steps} exceeded at line {getattr(node, 'lineno', '?')}")

    def exec_block(self, body, env: Env):
        for st in body:
            self.exec_stmt(st, env)

    def exec_stmt(self, st: ast.stmt, env: Env):
        self._tick(st)
        if isinstance(st, ast.Expr):
            self.eval(st.value, env)
        elif isinstance(st, ast.Assign):
            v = self.eval(st.value, env)
            for t in st.targets:
                self.assign(t, v, env)
        elif isinstance(st, ast.AnnAssign):
            if st.value is not None:
                self.assign(st.target, self.eval(st.value, env), env)
        elif isinstance(st, ast.AugAssign):
            cur = self.eval(_as_load(st.target), env)
            rhs = self.eval(st.value, env)
            if isinstance(cur, list) and isinstance(st.op, ast.Add):
                cur.extend(rhs)        # list += mutates in place
                new = cur
            else:
                new = self.binop(st.op, cur, rhs, st)
            self.assign(st.target, new, env)
        elif isinstance(st, ast.If):
            if self.truth(self.eval(st.test, env), st.test):
                self.exec_block(st.body, env)
            else:
                self.exec_block(st.orelse, env)
        elif isinstance(st, ast.While):
            broke = False
            while self.truth(self.eval(st.test, env), st.test):
                self._tick(st)
                try:
                    self.exec_block(st.body, env)
                except _Break:
                    broke = True
                    break
                except _Continue:
                    continue
            if not broke:
                self.exec_block(st.orelse, env)
        elif isinstance(st, ast.For):
            it = self.iterate(self.eval(st.iter, env), st.iter)
            broke = False
            for v in it:
                self._tick(st)
                self.assign(st.target, v, env)
                try:
                    self.exec_block(st.body, env)
                except _Break:
                    broke = True
                    break
                except _Continue:
                    continue
            if not broke:
                self.exec_block(st.orelse, env)
        elif isinstance(st, ast.Break):
            raise _Break()
        elif isinstance(st, ast.Continue):
            raise _Continue()
        elif isinstance(st, ast.Return):
            raise _Return(self.eval(st.value, env) if st.value is not None else None)
        elif isinstance(st, ast.Pass):
            pass
        elif isinstance(st, ast.Raise):
            if st.exc is None:
                cur = env.lookup("__current_exc__")[1]
                if cur is None:
                    raise Unsupported("bare raise outside handler")
                raise Raised(cur, st)
            v = self.eval(st.exc, env)
            if isinstance(v, ClassRef):
                v = ExcVal(v.name)
            if not isinstance(v, ExcVal):
                raise Unsupported(f"raise of non-exception {v!r}")
            raise Raised(v, st)
        elif isinstance(st, ast.Try):
            try:
                try:
                    self.exec_block(st.body, env)
                except Raised as r:
                    for h in st.handlers:
                        if self.exc_matches(r.exc, h.type, env):
                            if h.name:
                                env.set(h.name, r.exc)
                            env.set("__current_exc__", r.exc)
                            try:
                                self.exec_block(h.body, env)
                            finally:
                                if h.name:
                                    env.vars.pop(h.name, None)      # `except E as e` unbinds e when the handler ends
                            break
                    else:
                        raise
                else:
                    self.exec_block(st.orelse, env)
            except (Raised, _Return, _Break, _Continue):
                if st.finalbody:
                    self.exec_block(st.finalbody, env)
                raise
            else:
                if st.finalbody:
                    self.exec_block(st.finalbody, env)
        elif isinstance(st, ast.Match):
            subj = self.eval(st.subject, env)
            for case in st.cases:
                binds: dict = {}
                if self.match_pattern(case.pattern, subj, env, binds):
                    for k, v in binds.items():
                        env.set(k, v)
                    if case.guard is None or self.truth(self.eval(case.guard, env), case.guard):
                        self.exec_block(case.body, env)
                        break
        elif isinstance(st, (ast.FunctionDef, ast.AsyncFunctionDef)):
            rel = env.lookup("__relpath__")[1]
            cls = env.lookup("__cls__")[1]
            fi = None
            for f in self.prog.functions.values():
                if f.node is st:
                    fi = f
            env.set(st.name, Closure(st, env, fi, rel, cls))
        elif isinstance(st, ast.Assert):
            if not self.truth(self.eval(st.test, env), st.test):
                raise Raised(ExcVal("AssertionError"), st)
        elif isinstance(st, ast.Delete):
            for t in st.targets:
                if isinstance(t, ast.Subscript):
                    base = self.eval(t.value, env)
                    key = self.eval(t.slice, env)
                    try:
                        del base[key]
                    except Exception as e:
                        raise Raised(ExcVal(type(e).__name__, e.args), st)
                elif isinstance(t, ast.Name):
                    env.vars.pop(t.id, None)
                else:
                    raise Unsupported(f"del {unparse(t)}")
        elif isinstance(st, ast.With):
            suppress = []
            for it in st.items:
                v = self.eval(it.context_expr, env)
                if isinstance(v, Obj) and "__suppress__" in v.attrs:
                    suppress.extend(v.attrs["__suppress__"])
                if it.optional_vars is not None:
                    self.assign(it.optional_vars, v, env)
            if suppress:
                try:
                    self.exec_block(st.body, env)
                except Raised as r:
                    if not any(self.isinstance(r.exc, t, st) for t in suppress):
                        raise
            else:
                self.exec_block(st.body, env)
        elif isinstance(st, ast.Nonlocal):
            env.vars.setdefault("__nonlocal__", set()).update(st.names)
        elif isinstance(st, ast.Global):
            env.vars.setdefault("__global__", set()).update(st.names)
        elif isinstance(st, (ast.Import, ast.ImportFrom)):
            raise Unsupported(f"statement {type(st).__name__}")
        else:
            raise Unsupported(f"statement {type(st).__name__}")

    def match_pattern(self, p, subj, env: Env, binds: dict) -> bool:
        """Structural pattern matching (PEP 634) for value, singleton, sequence, class, capture, wildcard and or-patterns."""
        if isinstance(p, ast.MatchValue):
            return self.py_eq(subj, self.eval(p.value, env), p)
        if isinstance(p, ast.MatchSingleton):
            return subj is p.value
        if isinstance(p, ast.MatchAs):
            if p.pattern is not None and not self.match_pattern(p.pattern, subj, env, binds):
                return False
            if p.name is not None:
                binds[p.name] = subj
            return True
        if isinstance(p, ast.MatchOr):
            for alt in p.patterns:
                b2: dict = {}
                if self.match_pattern(alt, subj, env, b2):
                    binds.update(b2)
                    return True
            return False
        if isinstance(p, ast.MatchSequence):
            if isinstance(subj, (list, tuple)):
                seq = list(subj)
            else:
                return False            # str / bytes / dict / model objects are not sequences for matching
            stars = [i for i, x in enumerate(p.patterns) if isinstance(x, ast.MatchStar)]
            if not stars:
                if len(seq) != len(p.patterns):
                    return False
                return all(self.match_pattern(x, v, env, binds) for x, v in zip(p.patterns, seq))
            i = stars[0]
            after = len(p.patterns) - i - 1
            if len(seq) < len(p.patterns) - 1:
                return False
            for x, v in zip(p.patterns[:i], seq[:i]):
                if not self.match_pattern(x, v, env, binds):
                    return False
            if p.patterns[i].name is not None:
                binds[p.patterns[i].name] = seq[i:len(seq) - after]
            for x, v in zip(p.patterns[i + 1:], seq[len(seq) - after:] if after else []):
                if not self.match_pattern(x, v, env, binds):
                    return False
            return True
        if isinstance(p, ast.MatchClass):
            cls = self.eval(p.cls, env)
            if not self.isinstance(subj, cls, p):
                return False
            if p.patterns:
                if len(p.patterns) == 1 and isinstance(cls, type) and cls in (int, float, str, bytes, bool, list, tuple, dict,
                                                                            set, frozenset, bytearray):
                    if not self.match_pattern(p.patterns[0], subj, env, binds):
                        return False
                else:
                    raise Unsupported("positional sub-patterns of a class pattern (__match_args__)")
            for attr, sub in zip(p.kwd_attrs, p.kwd_patterns):
                try:
                    v = self.getattr(subj, attr, p, env)
                except Raised:
                    return False
                if not self.match_pattern(sub, v, env, binds):
                    return False
            return True
        if isinstance(p, ast.MatchMapping):
            if isinstance(subj, Obj) and "__items__" in subj.attrs:
                d = subj.attrs["__items__"]
            elif isinstance(subj, dict):
                d = subj
            else:
                return False
            used = []
            for k, sub in zip(p.keys, p.patterns):
                kv = self.eval(k, env)
                if kv not in d:
                    return False
                used.append(kv)
                if not self.match_pattern(sub, d[kv], env, binds):
                    return False
            if p.rest is not None:
                binds[p.rest] = {k: v for k, v in d.items() if k not in used}
            return True
        raise Unsupported(f"match pattern {type(p).__name__}")

    def assign(self, t: ast.AST, v, env: Env):
        if isinstance(t, ast.Name):
            ok, gl = env.lookup("__global__")
            if ok and gl and t.id in gl:
                rel = env.lookup("__relpath__")[1]
                self.__dict__.setdefault("_mc_cache", {})[(rel, t.id)] = v      # module-level variable of this interpreter run
                self.event("global-store", rel, t.id)
                return
            env.set(t.id, v)
        elif isinstance(t, (ast.Tuple, ast.List)):
            vals = list(self.iterate(v, t))
            stars = [i for i, e in enumerate(t.elts) if isinstance(e, ast.Starred)]
            if len(stars) == 1:
                i, after = stars[0], len(t.elts) - stars[0] - 1
                if len(vals) < len(t.elts) - 1:
                    raise Raised(ExcVal("ValueError", ("not enough values to unpack",)), t)
                mid = vals[i:len(vals) - after]
                for e, x in zip(t.elts[:i], vals[:i]):
                    self.assign(e, x, env)
                self.assign(t.elts[i].value, mid, env)
                for e, x in zip(t.elts[i + 1:], vals[len(vals) - after:] if after else []):
                    self.assign(e, x, env)
                return
            if len(vals) != len(t.elts):
                raise Raised(ExcVal("ValueError", ("unpack",)), t)
            for e, x in zip(t.elts, vals):
                self.assign(e, x, env)
        elif isinstance(t, ast.Attribute):
            base = self.eval(t.value, env)
            if isinstance(base, ClassRef):
                self.class_state[(base.name, t.attr)] = v
                self.event("class-store", base.name, t.attr)
                return
            if isinstance(base, ExcVal):
                if base.attrs is None:
                    base.attrs = {}
                base.attrs[t.attr] = v
                base.kwargs[t.attr] = v
                return
            if isinstance(base, (Obj, _NativeModel)):
                if getattr(base, "cls", None) in self.prog.classes:
                    pr = self._find_property(base.cls, t.attr)
                    if pr is not None and not pr[2] and pr[1] is None and t.attr not in base.attrs:
                        raise Raised(ExcVal("AttributeError", (f"property '{t.attr}' of '{base.cls}' object has no setter",)), t)
                self.setattr(base, t.attr, v)
            else:
                raise Unsupported(f"attribute store on {type(base).__name__}")
        elif isinstance(t, ast.Subscript):
            base = self.eval(t.value, env)
            key = self.eval(t.slice, env)
            if isinstance(base, Obj) and "__items__" in base.attrs:
                base.attrs["__items__"][key] = v
                return
            if not isinstance(base, (list, dict, bytearray)):
                raise Unsupported(f"subscript store on {type(base).__name__}")
            try:
                base[key] = v
            except Exception as e:
                raise Raised(ExcVal(type(e).__name__, e.args), t)
        elif isinstance(t, ast.Starred):
            raise Unsupported("starred assignment")
        else:
            raise Unsupported(f"assignment target {type(t).__name__}")

    # ------------------------------------------------------------------ expressions
    def _dunder(self, v, name: str):
        """Program-defined special method of a model instance (None if the class does not define it)."""
        if isinstance(v, (Obj, _NativeModel)) and getattr(v, "cls", None) and v.cls in self.prog.classes:
            fi = self.prog.resolve_method(v.cls, name)
            if fi is not None:
                return BoundMethod(fi, v)
            for c in self.prog.mro(v.cls):            # `__dunder__ = other_method` in a class body
                ci = self.prog.classes.get(c)
                if ci is not None and name in ci.attrs and isinstance(ci.attrs[name], ast.Name) and ci.attrs[name].id in ci.methods:
                    return BoundMethod(ci.methods[ci.attrs[name].id], v)
        return None

    def truth(self, v, node=None) -> bool:
        if isinstance(v, Sym):
            hook = self.ext.get("truth")
            if hook is not None:
                r = hook(v)
                if r is not None:
                    return r
            raise Unsupported(f"truth value of opaque {v!r} at line {getattr(node, 'lineno', '?')}")
        if isinstance(v, Obj):
            if "__items__" in v.attrs:
                return bool(v.attrs["__items__"])
            if "__truth__" in v.attrs:
                return bool(v.attrs["__truth__"])
            m = self._dunder(v, "__bool__")
            if m is not None:
                return bool(self.call_value(m, [], {}, node))
            m = self._dunder(v, "__len__")
            if m is not None:
                return self.call_value(m, [], {}, node) != 0
            return True
        if isinstance(v, (ClassRef, Closure, BoundMethod, ExcVal, GenList)):
            return True            # a generator / iterator object is always true, exhausted or not
        if v is NotImplemented:
            return True
        return bool(v)

    def iterate(self, v, node=None):
        if isinstance(v, GenList):
            return _GenIter(v)
        if isinstance(v, (list, tuple, range, str, bytes, bytearray, set, frozenset)):
            return list(v)
        if isinstance(v, dict):
            return list(v.keys())
        if isinstance(v, (type({}.keys()), type({}.values()), type({}.items()))):
            return list(v)
        if isinstance(v, Obj) and "__items__" in v.attrs:
            return list(v.attrs["__items__"].keys())
        if isinstance(v, Obj) and "__iter__" in v.attrs:
            return list(v.attrs["__iter__"])
        m = self._dunder(v, "__iter__") if isinstance(v, Obj) else None
        if m is not None:
            return self.iterate(self.call_value(m, [], {}, node), node)
        import collections as _c
        if isinstance(v, (_c.deque, memoryview)):
            return list(v)
        if hasattr(v, "__iter__") and type(v).__name__ in ("generator", "map", "zip", "enumerate", "reversed",
                                                           "list_iterator", "filter", "chain", "islice", "tuple_iterator",
                                                           "range_iterator", "dict_keyiterator", "list_reverseiterator",
                                                           "zip_longest", "accumulate", "product", "pairwise", "starmap",
                                                           "takewhile", "dropwhile", "bytes_iterator", "str_ascii_iterator",
                                                           "set_iterator", "dict_valueiterator", "dict_itemiterator", "groupby",
                                                           "repeat", "cycle", "compress", "permutations", "combinations"):
            return list(v)
        raise Unsupported(f"iteration over {type(v).__name__} at line {getattr(node, 'lineno', '?')}")

    def binop(self, op, a, b, node):
        f = _BINOPS.get(type(op))
        if f is None:
            raise Unsupported(f"operator {type(op).__name__}")
        if isinstance(a, (Sym, Obj)) or isinstance(b, (Sym, Obj)):
            hook = self.ext.get("binop")
            if hook is not None:
                r = hook(type(op).__name__, a, b)
                if r is not NotImplemented:
                    return r
            raise Unsupported(f"arithmetic on opaque value: {unparse(node)[:60]}")
        try:
            if isinstance(op, ast.Pow) and isinstance(b, int) and abs(b) > 10_000_000:
                raise Unsupported("huge power")
            if isinstance(op, ast.LShift) and isinstance(b, int) and b > 1000000:
                raise Unsupported("huge shift")
            return f(a, b)
        except Unsupported:
            raise
        except Exception as e:
            raise Raised(ExcVal(type(e).__name__, e.args), node)

    def compare(self, op, a, b, node):
        if isinstance(op, ast.Is):
            return a is b or (isinstance(a, ClassRef) and a == b)
        if isinstance(op, ast.IsNot):
            return not (a is b or (isinstance(a, ClassRef) and a == b))
        if isinstance(op, (ast.In, ast.NotIn)):
            if isinstance(b, Obj) and "__items__" in b.attrs:
                r = a in b.attrs["__items__"]
            elif isinstance(b, (list, tuple, dict, set, frozenset, str, bytes, range)) or \
                    isinstance(b, type({}.keys())):
                try:
                    r = a in b
                except Exception as e:
                    raise Raised(ExcVal(type(e).__name__, e.args), node)
            else:
                m = self._dunder(b, "__contains__")
                if m is not None:
                    r = self.truth(self.call_value(m, [a], {}, node), node)
                elif self._dunder(b, "__iter__") is not None:
                    r = any(self.py_eq(a, x, node) for x in self.iterate(b, node))
                else:
                    raise Unsupported(f"membership in {type(b).__name__}")
            return r if isinstance(op, ast.In) else not r
        f = _CMPOPS[type(op)]
        if isinstance(op, (ast.Eq, ast.NotEq)) and (_has_obj(a) or _has_obj(b)):
            r = self.py_eq(a, b, node)
            return r if isinstance(op, ast.Eq) else (not r)
        if isinstance(a, (Sym, Obj, ClassRef)) or isinstance(b, (Sym, Obj, ClassRef)):
            if isinstance(op, ast.Eq):
                hook = self.ext.get("eq")
                if hook is not None:
                    r = hook(a, b)
                    if r is not None:
                        return r
                return a is b or (isinstance(a, ClassRef) and a == b)
            if isinstance(op, ast.NotEq):
                hook = self.ext.get("eq")
                if hook is not None:
                    r = hook(a, b)
                    if r is not None:
                        return not r
                return not (a is b or (isinstance(a, ClassRef) and a == b))
            raise Unsupported(f"ordering of opaque values: {unparse(node)[:60]}")
        try:
            return f(a, b)
        except Exception as e:
            raise Raised(ExcVal(type(e).__name__, e.args), node)

    @staticmethod
    def _const_kw(call: ast.Call, what: str) -> dict:
        out = {}
        for k in call.keywords:
            if k.arg in ("compare", "init", "eq", "order", "frozen", "kw_only", "hash", "unsafe_hash"):
                if not isinstance(k.value, ast.Constant):
                    raise Unsupported(f"{what}: option {k.arg} is not a literal")
                out[k.arg] = k.value.value
        return out

    def _dc_field_opts(self, default: Optional[ast.AST]) -> dict:
        """Literal options of a `field(...)` default of a dataclass field (compare=, init=, kw_only=)."""
        if isinstance(default, ast.Call) and (dotted(default.func) or "").split(".")[-1] == "field":
            return self._const_kw(default, "dataclasses.field")
        return {}

    def _dc_class_opts(self, ci) -> dict:
        for d in ci.node.decorator_list:
            if isinstance(d, ast.Call) and (dotted(d.func) or "").split(".")[-1] == "dataclass":
                return self._const_kw(d, "@dataclass")
        return {}

    def py_eq(self, a, b, node=None, depth=0) -> bool:
        """Python's == for values that contain model objects: containers compare element-wise (identity first),
        dataclass instances field-wise, instances of classes with a program-defined __eq__ by interpreting it."""
        if a is b:
            return True
        if depth > 60:
            raise Unsupported("equality recursion too deep")
        if isinstance(a, (list, tuple)) and isinstance(b, (list, tuple)):
            if isinstance(a, TupleObj) != isinstance(b, TupleObj) and (isinstance(a, list) != isinstance(b, list)):
                return False
            if isinstance(a, list) != isinstance(b, list):
                return False
            return len(a) == len(b) and all(self.py_eq(x, y, node, depth + 1) for x, y in zip(a, b))
        if isinstance(a, dict) and isinstance(b, dict):
            return a.keys() == b.keys() and all(self.py_eq(a[k], b[k], node, depth + 1) for k in a)
        if isinstance(a, Obj) and isinstance(b, Obj):
            hook = self.ext.get("eq")
            if hook is not None:
                r = hook(a, b)
                if r is not None:
                    return r
            if a.cls and a.cls in self.prog.classes:
                fi = self.prog.resolve_method(a.cls, "__eq__")
                if fi is not None:
                    return self.truth(self.call(fi, [a, b]), node)
                ci = self.prog.classes[a.cls]
                if "dataclass" in ci.decorators:
                    if a.cls != b.cls:
                        return False
                    if self._dc_class_opts(ci).get("eq") is False:
                        return False                       # @dataclass(eq=False): identity, already handled above
                    names = []
                    for c in reversed(self.prog.mro(a.cls)):
                        cc = self.prog.classes.get(c)
                        if cc and "dataclass" in cc.decorators:
                            for f, ann in cc.ann_attrs.items():
                                if self._dc_field_opts(ann.value).get("compare", True) is False:
                                    names = [x for x in names if x != f]        # field(compare=False): not part of __eq__
                                elif f not in names:
                                    names.append(f)
                    return all(self.py_eq(a.attrs.get(f), b.attrs.get(f), node, depth + 1) for f in names)
            return False
        if isinstance(a, (Obj, Sym, ClassRef)) or isinstance(b, (Obj, Sym, ClassRef)):
            if isinstance(a, ClassRef) and isinstance(b, ClassRef):
                return a == b
            if isinstance(a, Obj) and a.cls and a.cls in self.prog.classes:
                fi = self.prog.resolve_method(a.cls, "__eq__")
                if fi is not None:
                    return self.truth(self.call(fi, [a, b]), node)
            return False
        if isinstance(a, (Closure, BoundMethod)) or isinstance(b, (Closure, BoundMethod)):
            return a is b
        try:
            return bool(a == b)
        except Exception as e:
            raise Raised(ExcVal(type(e).__name__, e.args), node)

    def eval(self, e: ast.AST, env: Env):
        self._tick(e)
        m = getattr(self, "ev_" + type(e).__name__, None)
        if m is None:
            raise Unsupported(f"expression {type(e).__name__}: {unparse(e)[:60]}")
        return m(e, env)

    def ev_Constant(self, e, env):
        return e.value

    def ev_Name(self, e, env):
        ok, v = env.lookup(e.id)
        if ok:
            return v
        # a name that is assigned somewhere in the current function is a local: reading it before it is bound
        # is UnboundLocalError in Python
        fe = env
        while fe is not None and "__localnames__" not in fe.vars:
            fe = fe.parent
        if fe is not None and e.id in fe.vars["__localnames__"]:
            raise Raised(ExcVal("UnboundLocalError", (f"cannot access local variable '{e.id}' where it is not associated with a value",)), e)
        return self.global_name(e.id, env, e)

    def module_const(self, rel: str, name: str):
        key = (rel, name)
        cache = self.__dict__.setdefault("_mc_cache", {})
        if key in cache:
            return cache[key]
        ex = self.prog.modules[rel].consts[name]
        try:
            v = self.prog.fold(ex, rel)
        except (ValueError, KeyError, IndexError, TypeError):
            sub = Env()
            sub.vars["__relpath__"] = rel
            sub.vars["__cls__"] = None
            v = self.eval(ex, sub)
        cache[key] = v
        return v

    def _eval_class_attr(self, ci, ex):
        # class attributes are evaluated once per interpreter (like a class body) so that mutable class-level
        # objects keep their identity and their mutations - they are process-wide state
        for aname, aex in ci.attrs.items():
            if aex is ex:
                if (ci.name, aname) in self.class_state:
                    return self.class_state[(ci.name, aname)]
                v = self._eval_class_attr_raw(ci, ex)
                self.class_state[(ci.name, aname)] = v
                return v
        return self._eval_class_attr_raw(ci, ex)

    def _eval_class_attr_raw(self, ci, ex):
        sub = Env()
        sub.vars["__relpath__"] = ci.relpath
        sub.vars["__cls__"] = ci.name
        sub.vars["__classns__"] = ci.name
        return self.eval(ex, sub)

    def global_name(self, name: str, env: Env, node=None):
        if name in self.ext:
            return self.ext[name]
        ok, cn = env.lookup("__classns__")
        if ok and cn and name in self.prog.classes[cn].attrs:
            return self._eval_class_attr(self.prog.classes[cn], self.prog.classes[cn].attrs[name])
        if ok and cn and name in self.prog.classes[cn].methods:
            return self.prog.classes[cn].methods[name]          # class body: a name bound by an earlier `def`
        rel = env.lookup("__relpath__")[1]
        m = self.prog.modules.get(rel)
        if m is not None:
            if name in m.funcs and self.interp_prog:
                return m.funcs[name]
            if name in m.classes:
                return ClassRef(name)
            if name in m.consts:
                return self.module_const(rel, name)
            if name in m.imports:
                tgt = m.imports[name]
                if tgt in self.ext:
                    return self.ext[tgt]
                x = _extra_external(self, tgt)
                if x is not None:
                    return x
                if tgt == "collections.namedtuple":
                    return _BUILTINS["namedtuple"]
                if tgt.split(".")[0] in _PURE_STDLIB and "." in tgt:
                    mod = __import__(tgt.split(".")[0])
                    if hasattr(mod, tgt.split(".", 1)[1]):
                        return getattr(mod, tgt.split(".", 1)[1])
                last = tgt.split(".")[-1]
                if last in self.prog.classes:
                    return ClassRef(last)
                relm = self.prog._mod_to_rel(tgt)
                if relm:
                    return Obj(None, __module__=relm)
                modrel, _, nm = tgt.rpartition(".")
                relm = self.prog._mod_to_rel(modrel)
                if relm and nm in self.prog.modules[relm].funcs:
                    return self.prog.modules[relm].funcs[nm]
                if relm and nm in self.prog.modules[relm].consts:
                    return self.module_const(relm, nm)
                return Obj(None, __extmodule__=tgt)
        b = _BUILTINS.get(name)
        if b is not None:
            return b
        if name in BUILTIN_EXC_BASES:
            return ClassRef(name)
        raise Unsupported(f"unresolved name {name} at line {getattr(node, 'lineno', '?')}")

    def ev_Attribute(self, e, env):
        d = dotted(e)
        if d and d in self.ext:
            return self.ext[d]
        base = self.eval(e.value, env)
        return self.getattr(base, e.attr, e, env)

    def _find_property(self, cls: str, attr: str):
        """(getter, setter, cached) of the property the class's MRO defines for `attr`, or None when the first class that
        defines `attr` does not make it a property. `name = property(fget, fset)` assignments are understood too."""
        for c in self.prog.mro(cls):
            if f"{c}.{attr}" in self.ext or (c, attr) in self.class_state:
                return None
            ci = self.prog.classes.get(c)
            if ci is None:
                continue
            if attr in ci.methods:
                fi = ci.methods[attr]
                if not fi.is_property:
                    return None
                return fi, ci.setters.get(attr), any("cached_property" in d for d in fi.decorators)
            if attr in ci.attrs:
                ex = ci.attrs[attr]
                if isinstance(ex, ast.Call) and isinstance(ex.func, ast.Name) and ex.func.id == "property":
                    names = [a.id if isinstance(a, ast.Name) else None for a in ex.args]
                    kw = {k.arg: (k.value.id if isinstance(k.value, ast.Name) else None) for k in ex.keywords}
                    g = kw.get("fget", names[0] if names else None)
                    st = kw.get("fset", names[1] if len(names) > 1 else None)
                    if g in ci.methods:
                        return ci.methods[g], ci.methods.get(st), False
                return None
        return None

    def _data_property(self, base, attr: str):
        """The property (with a setter) that governs `base.attr`: a data descriptor takes precedence over the instance."""
        if not getattr(base, "cls", None) or base.cls not in self.prog.classes:
            return None
        pr = self._find_property(base.cls, attr)
        if pr is None or pr[2] or pr[1] is None:
            return None
        return pr

    def setattr(self, base, attr: str, v) -> None:
        """`base.attr = v` as the program would execute it (property setters included)."""
        pr = self._data_property(base, attr)
        if pr is not None:
            self.call(pr[1], [base, v])
            return
        hook = self.ext.get("setattr")
        if hook:
            hook(base, attr, v)
        base.attrs[attr] = v

    def _class_member(self, base, attr: str):
        """Method / property / class attribute of a model instance through the program's MRO; stubs registered
        as ``ext['Cls.attr']`` take precedence (they receive the instance as first argument)."""
        for c in self.prog.mro(base.cls):
            if (c, attr) in self.class_state:
                return self.class_state[(c, attr)]
            key = f"{c}.{attr}"
            if key in self.ext:
                stub = self.ext[key]
                return (lambda *a, **k: stub(base, *a, **k)) if callable(stub) else stub
            ci = self.prog.classes.get(c)
            if ci is None:
                continue
            if attr in ci.methods:
                fi = ci.methods[attr]
                if fi.is_property:
                    v = self.call(fi, [base])
                    if "cached_property" in fi.decorators:
                        base.attrs[attr] = v
                    return v
                if fi.is_static:
                    return fi
                if fi.is_classmethod:
                    return BoundMethod(fi, ClassRef(base.cls))
                return BoundMethod(fi, base)
            if attr in ci.attrs:
                v = self._eval_class_attr(ci, ci.attrs[attr])
                if isinstance(v, FuncInfo) and v.cls is not None and not v.is_static:
                    # `alias = method` in a class body: a plain function found on the class binds to the instance
                    return BoundMethod(v, ClassRef(base.cls) if v.is_classmethod else base)
                return v
        return _MISSING

    def getattr(self, base, attr: str, node, env: Optional[Env] = None):
        if attr == "__class__" and isinstance(base, (Obj, _NativeModel)) and base.cls:
            return ClassRef(base.cls)
        if isinstance(base, TupleObj) and attr in base.fields:
            return base[base.fields.index(attr)]
        if isinstance(base, TupleObj) and attr in ("_asdict", "_replace", "_fields"):
            if attr == "_fields":
                return base.fields
            if attr == "_asdict":
                return lambda: dict(zip(base.fields, base))
            return lambda **kw: TupleObj([kw.get(f, v) for f, v in zip(base.fields, base)], cls=base.cls, fields=base.fields)
        if isinstance(base, NTClass) and attr in ("__name__", "_fields", "_make"):
            return base.name if attr == "__name__" else getattr(base, attr)
        if attr == "__dict__" and isinstance(base, (_NativeModel, Obj)) and getattr(base, "cls", None) in self.prog.classes \
                and "__dict__" not in base.attrs:
            return base.attrs           # the instance dictionary of a program-class instance (live, as in CPython)
        if isinstance(base, (_NativeModel, Obj)) and getattr(base, "cls", None):
            pr = self._data_property(base, attr)
            if pr is not None:
                if attr in base.attrs:      # a value the harness put on the object stands for `obj.attr = value` executed beforehand
                    self.call(pr[1], [base, base.attrs.pop(attr)])
                return self.call(pr[0], [base])
        if isinstance(base, _NativeModel):
            if attr in base.attrs:
                return base.attrs[attr]
            if base.cls:
                r = self._class_member(base, attr)
                if r is not _MISSING:
                    return r
            # fall through to the native type's whitelisted methods
        if isinstance(base, (int, float, str, bytes)) and attr in _DUNDER_CMP:
            return getattr(base, attr)
        if isinstance(base, Obj):
            if attr in base.attrs:
                return base.attrs[attr]
            if "__module__" in base.attrs:
                rel = base.attrs["__module__"]
                m = self.prog.modules[rel]
                key = f"{m.modname}.{attr}"
                if key in self.ext:
                    return self.ext[key]
                if attr in m.classes:
                    return ClassRef(attr)
                if attr in m.funcs:
                    return m.funcs[attr]
                if attr in m.consts:
                    return self.module_const(rel, attr)
                # sub-module (e.g. space_packet_parser.xtce -> comparisons)
                sub = self.prog._mod_to_rel(f"{m.modname}.{attr}")
                if sub:
                    return Obj(None, __module__=sub)
                if attr in m.imports:
                    e2 = Env()
                    e2.vars["__relpath__"] = rel
                    e2.vars["__cls__"] = None
                    return self.global_name(attr, e2, node)
                raise Unsupported(f"module attribute {rel}:{attr}")
            if "__extmodule__" in base.attrs:
                key = base.attrs["__extmodule__"] + "." + attr
                if key in self.ext:
                    return self.ext[key]
                x = _extra_external(self, key)
                if x is not None:
                    return x
                modname = base.attrs["__extmodule__"]
                if modname in _PURE_STDLIB:
                    mod = __import__(modname)
                    if hasattr(mod, attr):
                        return getattr(mod, attr)
                raise Unsupported(f"external {key} is not modelled")
            if base.cls:
                r = self._class_member(base, attr)
                if r is not _MISSING:
                    return r
            if "__getattr__" in base.attrs:
                return base.attrs["__getattr__"](attr)
            raise Raised(ExcVal("AttributeError", (attr,)), node)
        if isinstance(base, ClassRef):
            if attr == "__name__":
                return base.name
            if attr == "__mro__" and base.name in self.prog.classes:
                import builtins as _b
                out = []
                for c in self.prog.mro(base.name):
                    if c in self.prog.classes:
                        out.append(ClassRef(c))
                    elif isinstance(getattr(_b, c, None), type):
                        out.append(getattr(_b, c))
                out.append(object)
                return tuple(out)
            for c in (self.prog.mro(base.name) if base.name in self.prog.classes else [base.name]):
                if (c, attr) in self.class_state:
                    return self.class_state[(c, attr)]
            key = f"{base.name}.{attr}"
            if key in self.ext:
                return self.ext[key]
            if base.name in self.prog.classes:
                fi = self.prog.resolve_method(base.name, attr)
                if fi is not None:
                    if fi.is_static:
                        return fi
                    if fi.is_classmethod:
                        return BoundMethod(fi, base)
                    return fi
                ci, ex = self.prog.resolve_attr(base.name, attr)
                if ex is not None:
                    return self._eval_class_attr(ci, ex)
            raise Unsupported(f"class attribute {key}")
        if isinstance(base, ExcVal):
            if base.attrs is not None:
                if attr in base.attrs:
                    return base.attrs[attr]
                if attr == "args":
                    return base.args
                raise Raised(ExcVal("AttributeError", (f"'{base.tname}' object has no attribute '{attr}'",)), node)
            if attr in base.kwargs:
                return base.kwargs[attr]
            if attr == "args":
                return base.args
            raise Unsupported(f"exception attribute {attr}")
        if base is None:
            raise Raised(ExcVal("AttributeError", (f"'NoneType' object has no attribute '{attr}'",)), node)
        if isinstance(base, _NATIVE_TYPES) and not isinstance(base, (range, slice, type(None))):
            import collections as _c
            for t, names in _NATIVE_METHODS.items():
                if (type(base) is t or (isinstance(base, (_NativeModel, _c.defaultdict, _c.OrderedDict)) and isinstance(base, t)
                                         and not (t is int and isinstance(base, bool)))) and attr in names:
                    return getattr(base, attr)
            if isinstance(base, bool) and attr in _NATIVE_METHODS[int]:
                return getattr(base, attr)
            if attr == "value" and isinstance(base, (int, str)) and not isinstance(base, (bool, _NativeModel)):
                return base            # enum members are modelled by their values
            hook = self.ext.get("native_attr")
            if hook is None and not attr.startswith("_"):
                # any public method of a built-in value: CPython's own semantics apply
                for t in (bytes, str, int, float, tuple, frozenset, list, dict, set, bytearray):
                    if isinstance(base, t) and hasattr(t, attr):
                        return getattr(base, attr)
            if hook is not None:
                r = hook(base, attr)
                if r is not NotImplemented:
                    return r
            if type(base) in (bytes, str, int, float, bool, tuple, frozenset, list, dict, set, bytearray, type(None)) \
                    and not attr.startswith("_") and not hasattr(base, attr):
                # a plain built-in value simply has no such attribute: AttributeError, as in CPython
                raise Raised(ExcVal("AttributeError", (f"'{type(base).__name__}' object has no attribute '{attr}'",)), node)
            raise Unsupported(f"method {type(base).__name__}.{attr} is not modelled")
        if isinstance(base, Sym):
            hook = self.ext.get("sym_attr")
            if hook is not None:
                r = hook(base, attr)
                if r is not NotImplemented:
                    return r
            raise Unsupported(f"attribute {attr} of opaque {base!r}")
        if isinstance(base, type) and attr in ("__name__", "__qualname__"):
            return base.__name__
        if isinstance(base, type) and getattr(base, "__module__", "") in ("itertools", "collections", "functools", "operator") \
                and not attr.startswith("_") and hasattr(base, attr):
            return getattr(base, attr)
        import collections as _c2
        if isinstance(base, (_c2.deque, _c2.Counter, _c2.OrderedDict, _c2.ChainMap, memoryview)) and not attr.startswith("_") \
                and hasattr(base, attr):
            return getattr(base, attr)
        if base in (int, float, str, bytes, list, dict, bool):
            key = f"{base.__name__}.{attr}"
            if key in ("int.from_bytes", "int.to_bytes", "bytes.fromhex", "bool.__repr__", "dict.fromkeys"):
                return getattr(base, attr)
            raise Unsupported(f"{key} is not modelled")
        import struct as _struct
        if isinstance(base, _struct.Struct) and attr in ("unpack", "pack", "size", "format", "unpack_from", "iter_unpack"):
            return getattr(base, attr)
        if isinstance(base, NTClass) and attr in ("_fields", "_make", "__name__"):
            return base.name if attr == "__name__" else getattr(base, attr)
        if type(base).__module__.split(".")[0] in ("codecs", "_codecs", "encodings", "_io", "datetime", "re", "itertools", "functools",
                                                     "collections", "_struct", "decimal", "fractions") and not attr.startswith("__") \
                and hasattr(base, attr):
            return getattr(base, attr)          # an object of a pure standard-library type: CPython's own semantics apply
        raise Unsupported(f"attribute {attr} on {type(base).__name__}")

    def ev_Subscript(self, e, env):
        base = self.eval(e.value, env)
        if isinstance(e.slice, ast.Slice):
            lo = self.eval(e.slice.lower, env) if e.slice.lower else None
            hi = self.eval(e.slice.upper, env) if e.slice.upper else None
            st = self.eval(e.slice.step, env) if e.slice.step else None
            key = slice(lo, hi, st)
        else:
            key = self.eval(e.slice, env)
        if isinstance(base, Obj) and "__items__" in base.attrs:
            try:
                return base.attrs["__items__"][key]
            except KeyError:
                raise Raised(ExcVal("KeyError", (key,)), e)
        if isinstance(base, Obj) and "__getitem__" in base.attrs:
            return base.attrs["__getitem__"](key)
        import collections as _c
        if isinstance(base, GenList):
            raise Raised(ExcVal("TypeError", ("'generator' object is not subscriptable",)), e)
        if isinstance(base, (list, tuple, dict, str, bytes, bytearray, range, memoryview, _c.deque)):
            try:
                return base[key]
            except Exception as ex:
                raise Raised(ExcVal(type(ex).__name__, ex.args), e)
        m = self._dunder(base, "__getitem__")
        if m is not None:
            return self.call_value(m, [key], {}, e)
        if isinstance(base, ClassRef) and isinstance(key, str) and base.name in self.prog.classes:
            ci, ex = self.prog.resolve_attr(base.name, key)       # Enum['NAME']
            if ex is not None:
                return self._eval_class_attr(ci, ex)
            raise Raised(ExcVal("KeyError", (key,)), e)
        raise Unsupported(f"subscript of {type(base).__name__}: {unparse(e)[:60]}")

    def ev_Slice(self, e, env):
        return slice(self.eval(e.lower, env) if e.lower else None, self.eval(e.upper, env) if e.upper else None,
                     self.eval(e.step, env) if e.step else None)

    def ev_BinOp(self, e, env):
        return self.binop(e.op, self.eval(e.left, env), self.eval(e.right, env), e)

    def ev_UnaryOp(self, e, env):
        v = self.eval(e.operand, env)
        if isinstance(e.op, ast.Not):
            return not self.truth(v, e)
        if isinstance(v, (Sym, Obj)):
            raise Unsupported("unary op on opaque")
        try:
            if isinstance(e.op, ast.USub):
                return -v
            if isinstance(e.op, ast.UAdd):
                return +v
            if isinstance(e.op, ast.Invert):
                return ~v
        except Exception as ex:
            raise Raised(ExcVal(type(ex).__name__, ex.args), e)
        raise Unsupported("unary op")

    def ev_BoolOp(self, e, env):
        if isinstance(e.op, ast.And):
            v = True
            for x in e.values:
                v = self.eval(x, env)
                if not self.truth(v, x):
                    return v
            return v
        v = False
        for x in e.values:
            v = self.eval(x, env)
            if self.truth(v, x):
                return v
        return v

    def ev_Compare(self, e, env):
        left = self.eval(e.left, env)
        for op, c in zip(e.ops, e.comparators):
            right = self.eval(c, env)
            r = self.compare(op, left, right, e)
            if not self.truth(r, e):
                return r
            left = right
        return r

    def ev_IfExp(self, e, env):
        return self.eval(e.body, env) if self.truth(self.eval(e.test, env), e.test) else self.eval(e.orelse, env)

    def ev_Tuple(self, e, env):
        return tuple(self._elts(e.elts, env))

    def ev_List(self, e, env):
        return self._elts(e.elts, env)

    def ev_Set(self, e, env):
        return set(self._elts(e.elts, env))

    def _elts(self, elts, env):
        out = []
        for x in elts:
            if isinstance(x, ast.Starred):
                out.extend(self.iterate(self.eval(x.value, env), x))
            else:
                out.append(self.eval(x, env))
        return out

    def ev_Dict(self, e, env):
        d = {}
        for k, v in zip(e.keys, e.values):
            if k is None:
                d.update(self.eval(v, env))
            else:
                d[self.eval(k, env)] = self.eval(v, env)
        return d

    def ev_JoinedStr(self, e, env):
        parts = []
        for v in e.values:
            if isinstance(v, ast.Constant):
                parts.append(str(v.value))
            else:
                x = self.eval(v.value, env)   # evaluation may raise (that is the point for error-path rules)
                spec = ""
                if v.format_spec is not None:
                    spec = self.ev_JoinedStr(v.format_spec, env)
                if isinstance(x, (int, float, str, bool, bytes, type(None))):
                    try:
                        if v.conversion == 114:
                            x = repr(x)
                        elif v.conversion == 115:
                            x = str(x)
                        elif v.conversion == 97:
                            x = ascii(x)
                        parts.append(format(x, spec))
                    except Exception as ex:
                        raise Raised(ExcVal(type(ex).__name__, ex.args), v)
                else:
                    txt = None
                    if isinstance(x, (Obj, _NativeModel)) and getattr(x, "cls", None) in self.prog.classes and not spec:
                        # the program's own __repr__ / __str__ (messages are compared by nobody, but a value built this way may be a key)
                        m = (None if v.conversion == 114 else self._dunder(x, "__str__")) or self._dunder(x, "__repr__")
                        if m is not None:
                            try:
                                txt = self.call_value(m, [], {}, v)
                            except (Unsupported, Raised):
                                txt = None
                    parts.append(txt if isinstance(txt, str) else f"<{type(x).__name__}>")
        return "".join(parts)

    def ev_FormattedValue(self, e, env):
        return self.eval(e.value, env)

    def ev_NamedExpr(self, e, env):
        v = self.eval(e.value, env)
        env.set(e.target.id, v)
        return v

    def ev_Lambda(self, e, env):
        return Closure(e, env, None, env.lookup("__relpath__")[1], env.lookup("__cls__")[1])

    def ev_Starred(self, e, env):
        raise Unsupported("starred expression")

    def ev_Yield(self, e, env):
        v = self.eval(e.value, env) if e.value is not None else None
        ok, ys = env.lookup("__yields__")
        ys.append(v)
        self.event("yield", v)
        return None

    def ev_YieldFrom(self, e, env):
        ok, ys = env.lookup("__yields__")
        for v in self.iterate(self.eval(e.value, env), e):
            ys.append(v)
            self.event("yield", v)
        return None

    def _comp(self, gens, env, emit):
        def rec(i, env2):
            if i == len(gens):
                emit(env2)
                return
            g = gens[i]
            for v in self.iterate(self.eval(g.iter, env2), g.iter):
                self._tick(g.iter)
                e3 = Env(env2)
                self.assign(g.target, v, e3)
                if all(self.truth(self.eval(c, e3), c) for c in g.ifs):
                    rec(i + 1, e3)
        rec(0, env)

    def ev_ListComp(self, e, env):
        out = []
        self._comp(e.generators, env, lambda en: out.append(self.eval(e.elt, en)))
        return out

    def ev_GeneratorExp(self, e, env):
        return GenList(self.ev_ListComp(e, env))

    def ev_SetComp(self, e, env):
        return set(self.ev_ListComp(e, env))

    def ev_DictComp(self, e, env):
        out = {}
        self._comp(e.generators, env, lambda en: out.__setitem__(self.eval(e.key, en), self.eval(e.value, en)))
        return out

    def _lazy_genexp(self, kind, e, env):
        ge = e.args[0]
        box = {"any": [False], "all": [True], "next": [_MISSING]}[kind]

        def emit(en):
            v = self.eval(ge.elt, en)
            if kind == "next":
                box[0] = v
                raise _StopComp()
            t = self.truth(v, ge.elt)
            if kind == "any" and t:
                box[0] = True
                raise _StopComp()
            if kind == "all" and not t:
                box[0] = False
                raise _StopComp()
        try:
            self._comp(ge.generators, env, emit)
        except _StopComp:
            pass
        if kind == "next" and box[0] is _MISSING:
            if len(e.args) == 2:
                return self.eval(e.args[1], env)
            raise Raised(ExcVal("StopIteration", ()), e)
        return box[0]

    def ev_Call(self, e, env):
        # super().method(...)
        if isinstance(e.func, ast.Attribute) and isinstance(e.func.value, ast.Call) and \
                dotted(e.func.value.func) == "super":
            cls = env.lookup("__cls__")[1]
            ok, selfv = env.lookup("self")
            if not ok:
                ok, selfv = env.lookup("cls")
            if cls is None or not ok:
                raise Unsupported("super() outside a method")
            mro = self.prog.mro(selfv.cls if isinstance(selfv, Obj) and selfv.cls else cls)
            if cls in mro:
                mro = mro[mro.index(cls) + 1:]
            for c in mro:
                ci = self.prog.classes.get(c)
                if ci and e.func.attr in ci.methods:
                    f = BoundMethod(ci.methods[e.func.attr], selfv)
                    break
            else:
                hook = self.ext.get("super:" + e.func.attr)
                if hook is None:
                    raise Unsupported(f"super().{e.func.attr} not resolved")
                f = lambda *a, **k: hook(selfv, *a, **k)  # noqa: E731
        else:
            d = dotted(e.func)
            if d in ("any", "all", "next") and e.args and isinstance(e.args[0], ast.GeneratorExp) and not e.keywords \
                    and len(e.args) == (1 if d != "next" else len(e.args)) and len(e.args) <= 2 \
                    and not env.lookup(d)[0] and d not in self.ext:
                # a generator expression is consumed lazily: any / all stop at the first deciding element, next takes one
                return self._lazy_genexp(d, e, env)
            if d == "isinstance" and len(e.args) == 2:
                return self.isinstance(self.eval(e.args[0], env), self.eval(e.args[1], env), e)
            if d == "type" and len(e.args) == 1:
                v = self.eval(e.args[0], env)
                hook = self.ext.get("type")
                if hook is not None:
                    r = hook(v)
                    if r is not None:
                        return r
                if isinstance(v, (Obj, _NativeModel)) and v.cls:
                    return ClassRef(v.cls)
                if isinstance(v, _NATIVE_TYPES):
                    return type(v)
                if isinstance(v, ExcVal):
                    return ClassRef(v.tname)
                raise Unsupported("type() of opaque value")
            if d == "len" and len(e.args) == 1 and not e.keywords:
                v = self.eval(e.args[0], env)
                m = self._dunder(v, "__len__") if isinstance(v, Obj) else None
                if m is not None:
                    return self.call_value(m, [], {}, e)
                return self.call_value(self.eval(e.func, env), [v], {}, e)
            if d == "getattr" and len(e.args) >= 2:
                base = self.eval(e.args[0], env)
                name = self.eval(e.args[1], env)
                if not isinstance(name, str):
                    raise Unsupported("getattr with non-string name")
                try:
                    return self.getattr(base, name, e, env)
                except Raised as r:
                    if len(e.args) == 3 and r.exc.tname == "AttributeError":
                        return self.eval(e.args[2], env)
                    raise
                except Unsupported:
                    if len(e.args) == 3 and isinstance(base, _NATIVE_TYPES) and not isinstance(base, _NativeModel) \
                            and not hasattr(base, name):
                        return self.eval(e.args[2], env)
                    raise
            if d == "hasattr" and len(e.args) == 2 and "hasattr" not in self.ext:
                base = self.eval(e.args[0], env)
                name = self.eval(e.args[1], env)
                if not isinstance(name, str):
                    raise Unsupported("hasattr with non-string name")
                if isinstance(base, ClassRef) and base.name in self.prog.classes:
                    return self.prog.resolve_method(base.name, name) is not None or \
                        self.prog.resolve_attr(base.name, name)[1] is not None or (base.name, name) in self.class_state
                try:
                    self.getattr(base, name, e, env)
                    return True
                except Raised as r:
                    if r.exc.tname == "AttributeError":
                        return False
                    raise
                except Unsupported:
                    if isinstance(base, _NATIVE_TYPES) and not isinstance(base, _NativeModel):
                        return hasattr(base, name)
                    raise
            f = self.eval(e.func, env)
        args = self._elts(e.args, env)
        kwargs = {}
        for k in e.keywords:
            if k.arg is None:
                kwargs.update(self.eval(k.value, env))
            else:
                kwargs[k.arg] = self.eval(k.value, env)
        return self.call_value(f, args, kwargs, e)

    def isinstance(self, v, t, node):
        ts = t if isinstance(t, tuple) else (t,)
        for x in ts:
            if isinstance(x, ClassRef):
                if isinstance(v, (Obj, _NativeModel)) and v.cls and \
                        (v.cls == x.name or self.prog.is_subclass(v.cls, x.name)):
                    return True
                if isinstance(v, ExcVal) and self.exc_matches(v, ast.Name(id=x.name, ctx=ast.Load()), Env()):
                    return True
            elif isinstance(x, NTClass):
                if isinstance(v, TupleObj) and v.cls == x.name:
                    return True
            elif isinstance(x, type):
                if getattr(v, "_spv_not_bytes", False) and x in (bytes, bytearray):
                    continue          # a model of a bytes-like object that is not a bytes instance (mmap)
                if isinstance(v, _NATIVE_TYPES) and isinstance(v, x):
                    return True
            elif isinstance(x, Obj) and "__extmodule__" in x.attrs:
                hook = self.ext.get("isinstance")
                if hook is not None and hook(v, x.attrs["__extmodule__"]):
                    return True
            else:
                hook = self.ext.get("isinstance")
                if hook is not None:
                    r = hook(v, x)
                    if r:
                        return True
                    continue
                raise Unsupported(f"isinstance against {x!r}")
        return False


def _local_names(fn) -> frozenset:
    """Names bound by assignment anywhere in a function body (its locals), excluding nested scopes and parameters."""
    names = set()
    if isinstance(fn, ast.Lambda):
        return frozenset()
    for n in _walk_own(fn):
        if isinstance(n, ast.Name) and isinstance(n.ctx, (ast.Store, ast.Del)):
            names.add(n.id)
        elif isinstance(n, ast.ExceptHandler) and n.name:
            names.add(n.name)
        elif isinstance(n, (ast.MatchAs, ast.MatchStar)) and n.name:
            names.add(n.name)
    # names declared global/nonlocal are not locals
    for n in _walk_own(fn):
        if isinstance(n, (ast.Global, ast.Nonlocal)):
            names -= set(n.names)
    a = fn.args
    params = {x.arg for x in a.posonlyargs + a.args + a.kwonlyargs}
    if a.vararg:
        params.add(a.vararg.arg)
    if a.kwarg:
        params.add(a.kwarg.arg)
    # comprehension targets live in their own scope
    comp = set()
    for n in _walk_own(fn):
        if isinstance(n, ast.comprehension):
            for t in ast.walk(n.target):
                if isinstance(t, ast.Name):
                    comp.add(t.id)
    direct = set()
    for n in _walk_own(fn):
        if isinstance(n, (ast.ListComp, ast.SetComp, ast.DictComp, ast.GeneratorExp)):
            continue
    return frozenset(names - params - (comp - _names_outside_comps(fn)))


def _names_outside_comps(fn) -> set:
    out = set()
    stack = list(ast.iter_child_nodes(fn))
    while stack:
        n = stack.pop()
        if isinstance(n, (ast.FunctionDef, ast.AsyncFunctionDef, ast.Lambda, ast.ClassDef, ast.ListComp, ast.SetComp,
                          ast.DictComp, ast.GeneratorExp)):
            continue
        if isinstance(n, ast.Name) and isinstance(n.ctx, (ast.Store, ast.Del)):
            out.add(n.id)
        stack.extend(ast.iter_child_nodes(n))
    return out


def _has_obj(v, depth=0) -> bool:
    if isinstance(v, (Obj, Sym, ClassRef)):
        return True
    if depth > 3:
        return False
    if isinstance(v, (list, tuple)):
        return any(_has_obj(x, depth + 1) for x in v[:50])
    if isinstance(v, dict):
        return any(_has_obj(x, depth + 1) for x in list(v.values())[:50])
    return False


def _as_load(t: ast.AST) -> ast.AST:
    import copy
    n = copy.copy(t)
    if hasattr(n, "ctx"):
        n.ctx = ast.Load()
    return n


def _walk_own(fn):
    stack = list(ast.iter_child_nodes(fn))
    while stack:
        n = stack.pop()
        if isinstance(n, (ast.FunctionDef, ast.AsyncFunctionDef, ast.Lambda, ast.ClassDef)):
            continue
        yield n
        stack.extend(ast.iter_child_nodes(n))


def _b_sum(it, start=0):
    return sum(it, start)


_NO_DEFAULT = object()


def _b_iter(x):
    if isinstance(x, GenList):
        return x
    if isinstance(x, (list, tuple, str, bytes, bytearray, range, set, frozenset)):
        return GenList(x)
    if isinstance(x, dict):
        return GenList(x.keys())
    return x


def _b_next(it, default=_NO_DEFAULT):
    if isinstance(it, GenList):
        if it.pos < len(it):
            v = list.__getitem__(it, it.pos)
            it.pos += 1
            return v
        if default is _NO_DEFAULT:
            raise StopIteration()
        return default
    if isinstance(it, (list, tuple)):
        raise TypeError(f"'{type(it).__name__}' object is not an iterator")
    if default is _NO_DEFAULT:
        return next(it)
    return next(it, default)


def _b_next_old(it, default=_NO_DEFAULT):
    """next() on the interpreter's eager sequences (generator expressions are materialised as lists): the first
    element, or StopIteration / the default when empty.  Only the first call on a given sequence is meaningful."""
    if isinstance(it, (list, tuple)):
        if len(it):
            return it[0]
        if default is _NO_DEFAULT:
            raise StopIteration()
        return default
    if default is _NO_DEFAULT:
        return next(it)
    return next(it, default)


_ITER_BUILTINS = (list, tuple, set, frozenset, sorted, min, max, all, any, sum, dict)

_BUILTINS = {
    "namedtuple": lambda name, fields, **k: NTClass(name, fields),
    "len": len, "min": min, "max": max, "all": all, "any": any, "range": range, "int": int, "float": float,
    "bool": bool, "str": str, "list": list, "tuple": tuple, "dict": dict, "set": set, "frozenset": frozenset,
    "sum": _b_sum, "sorted": sorted, "reversed": lambda x: GenList(reversed(x)), "enumerate": lambda x, start=0: GenList(enumerate(x, start)),
    "zip": lambda *a, strict=False: GenList(zip(*a, strict=strict)), "abs": abs, "repr": repr, "bytes": bytes, "print": lambda *a, **k: None, "vars": lambda o: _vars(o),
    "divmod": divmod, "round": round, "callable": callable, "NotImplemented": NotImplemented,
    "next": _b_next, "iter": _b_iter, "map": lambda f, *a: GenList(map(f, *a)), "filter": lambda f, a: GenList(filter(f, a)),
    "ord": ord, "chr": chr, "hex": hex, "bin": bin, "pow": pow, "id": id, "hash": hash, "format": format, "ascii": ascii,
    "memoryview": memoryview, "bytearray": bytearray, "slice": slice, "object": object,
    "True": True, "False": False, "None": None,
}

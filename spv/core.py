"""Obligations, verdicts, known findings, evidence and the check runner."""
from __future__ import annotations

import json
import os
import sys
import time
import traceback
from dataclasses import dataclass, field
from typing import Callable, Dict, List, Optional

from .program import AnchorMissing, Program

PROVED, REFUTED, UNKNOWN = "PROVED", "REFUTED", "UNKNOWN"
VERIF = os.path.dirname(os.path.dirname(os.path.abspath(__file__)))
EVIDENCE_DIR = os.path.join(VERIF, "evidence")
KNOWN_FILE = os.path.join(VERIF, "KNOWN_FINDINGS.txt")


@dataclass
class Ob:
    rule: str
    site: str                 # 'relpath::qual::construct' (no line numbers: this is the finding key)
    verdict: str
    why: str = ""
    detail: dict = field(default_factory=dict)
    where: str = ""           # human location 'relpath:line'

    @property
    def key(self) -> str:
        return f"{self.rule} {self.site}"

    def as_json(self) -> dict:
        d = {"rule": self.rule, "site": self.site, "verdict": self.verdict}
        if self.where:
            d["where"] = self.where
        if self.why:
            d["why"] = self.why
        if self.detail:
            d["detail"] = self.detail
        return d


class Ctx:
    """Collects obligations of one property check on one Program."""

    def __init__(self, prog: Program, prop: str):
        self.prog = prog
        self.prop = prop
        self.obs: List[Ob] = []
        self.notes: List[str] = []
        self.stats: Dict[str, object] = {}

    def _add(self, verdict, rule, site, why="", where="", **detail) -> Ob:
        ob = Ob(rule, site, verdict, why, _jsonable(detail), where)
        self.obs.append(ob)
        return ob

    def proved(self, rule, site, why="", where="", **detail):
        return self._add(PROVED, rule, site, why, where, **detail)

    def refuted(self, rule, site, why="", where="", **detail):
        return self._add(REFUTED, rule, site, why, where, **detail)

    def unknown(self, rule, site, why="", where="", **detail):
        return self._add(UNKNOWN, rule, site, why, where, **detail)

    def decide(self, ok, rule, site, why_ok="", why_bad="", where="", **detail):
        """ok is True -> PROVED, False -> REFUTED, None -> UNKNOWN."""
        if ok is True:
            return self.proved(rule, site, why_ok, where, **detail)
        if ok is False:
            return self.refuted(rule, site, why_bad, where, **detail)
        return self.unknown(rule, site, why_bad or why_ok, where, **detail)

    def note(self, text: str):
        self.notes.append(text)

    def guard(self, rule: str, site: str, fn: Callable, *a, **kw):
        """Run an extractor; AnchorMissing / unexpected shapes become UNKNOWN at this rule instead of
        aborting the whole check."""
        try:
            return fn(*a, **kw)
        except AnchorMissing as e:
            self.unknown(rule, site, f"anchor missing: {e}")
        except Unsupported as e:
            self.unknown(rule, site, f"outside the extractor's vocabulary: {e}")
        return None

    def count(self, rule_prefix: str, verdict: Optional[str] = None) -> int:
        return sum(1 for o in self.obs if o.rule.startswith(rule_prefix) and (verdict is None or o.verdict == verdict))


class Unsupported(Exception):
    """Construct outside an extractor's vocabulary -> UNKNOWN (never a violation)."""


def _jsonable(x):
    if isinstance(x, dict):
        return {str(k): _jsonable(v) for k, v in x.items()}
    if isinstance(x, (list, tuple, set, frozenset)):
        return [_jsonable(v) for v in (sorted(x, key=str) if isinstance(x, (set, frozenset)) else x)]
    if isinstance(x, (str, int, float, bool)) or x is None:
        return x
    return str(x)


# ----------------------------------------------------------------------------- known findings
@dataclass
class Known:
    status: str      # 'open' | 'fixed'
    prop: str
    rule: str
    site: str
    text: str
    commit: str = ""


def load_known(path: str = KNOWN_FILE) -> List[Known]:
    out = []
    if not os.path.exists(path):
        return out
    for line in open(path, encoding="utf-8"):
        line = line.strip()
        if not line or line.startswith("#"):
            continue
        status, _, rest = line.partition(":")
        status = status.strip()
        if status not in ("open", "fixed"):
            continue
        head, _, text = rest.partition(" :: ")   # sites use '::' without surrounding blanks
        fields = dict(tok.split("=", 1) for tok in head.split() if "=" in tok and not tok.startswith("key="))
        key = ""
        if " key=" in " " + head:
            key = head.split("key=", 1)[1].strip()
        out.append(Known(status, fields.get("property", ""), fields.get("rule", ""), key, text.strip(),
                         fields.get("commit", "")))
    return out


# ----------------------------------------------------------------------------- property registry
@dataclass
class PropSpec:
    pid: str
    title: str
    check: Callable[[Ctx], None]
    floors: Dict[str, int]
    explanation: str
    rule_doc: str
    assumptions: List[str]
    controls: Optional[Callable[[], list]] = None      # -> [(name, files, expect_rule_prefix)]
    mutants: Optional[Callable[[Program], list]] = None  # -> [(name, relpath, new_source, expect_rule_prefix)]
    sweep: Optional[Callable[[Ctx], None]] = None        # thorough-only extra obligations
    level_text: str = ""
    level_note: str = ""
    technique: str = ""
    design_ref: str = ""
    not_decided: str = ""
    # structural rule -> decision-table rules of the same check that decide the same clause by abstract interpretation:
    # when a structural rule cannot recognise the shape of the code (UNKNOWN, or fewer instances than the floor) and
    # every listed table rule is fully PROVED, the clause counts as decided by the tables alone (recorded as such).
    fallback: Dict[str, tuple] = field(default_factory=dict)


def run_check(spec: PropSpec, prog: Program, tier: str = "quick") -> Ctx:
    ctx = Ctx(prog, spec.pid)
    ctx.stats["tier"] = tier
    spec.check(ctx)
    return ctx


def run_property(spec: PropSpec, tier: str, seed: int, *, write: bool = True, quiet: bool = False) -> int:
    t0 = time.time()
    out: List[str] = []
    errors: List[str] = []
    prog = None
    ctx = None
    try:
        prog = Program.from_repo()
        if prog.syntax_errors:
            errors.append(f"syntax errors: {prog.syntax_errors}")
        ctx = run_check(spec, prog, tier)
        if tier == "thorough" and spec.sweep:
            spec.sweep(ctx)
    except AnchorMissing as e:
        errors.append(f"anchor missing: {e}")
    except Exception as e:  # internal error of the checker: never a violation
        errors.append(f"internal error: {type(e).__name__}: {e}\n{traceback.format_exc()}")

    obs = ctx.obs if ctx else []
    by_table = apply_fallback(spec, ctx) if ctx else 0
    known = [k for k in load_known() if k.prop == spec.pid]
    open_keys = {(k.rule, k.site): k for k in known if k.status == "open"}

    refuted = [o for o in obs if o.verdict == REFUTED]
    unknown = [o for o in obs if o.verdict == UNKNOWN]
    new_viol = [o for o in refuted if (o.rule, o.site) not in open_keys]
    listed = [o for o in refuted if (o.rule, o.site) in open_keys]

    # instance floors
    for rule, floor in spec.floors.items():
        n = sum(1 for o in obs if o.rule == rule or o.rule.startswith(rule + "/"))
        if n < floor and ctx is not None and _tables_ok(spec, ctx, rule):
            ctx.note(f"rule {rule}: {n} instances recognised (floor {floor}); the clause is decided by the decision "
                     f"table(s) {', '.join(_fallback_for(spec, rule))} alone on this tree")
            by_table += 1
        elif n < floor:
            errors.append(f"rule {rule}: {n} instances matched, floor is {floor} (vanished anchor?)")

    # positive controls
    controls_run = controls_ok = 0
    control_samples = []
    if spec.controls and not errors:
        try:
            for name, files, expect in spec.controls():
                controls_run += 1
                cprog = Program(files)
                cctx = Ctx(cprog, spec.pid)
                try:
                    spec.check(cctx)
                except AnchorMissing:
                    pass
                hit = [o for o in cctx.obs if o.verdict == REFUTED and o.rule.startswith(expect)]
                if hit:
                    controls_ok += 1
                    if len(control_samples) < 2:
                        control_samples.append({"control": name, "flagged": hit[0].as_json()})
                else:
                    errors.append(f"positive control '{name}' no longer flagged by rule {expect}")
        except Exception as e:
            errors.append(f"positive control crashed: {type(e).__name__}: {e}")

    # sensitivity audit (thorough tier, only when the tree is clean for this property)
    audit = None
    if tier == "thorough" and spec.mutants and prog is not None and not errors and not new_viol and not unknown:
        audit = sensitivity_audit(spec, prog, ctx)
        for m in audit["missed"]:
            errors.append(f"sensitivity audit: variant '{m}' was not flagged")

    # ---- report
    viol_paths = []
    if new_viol and write:
        os.makedirs(os.path.join(EVIDENCE_DIR, "violations"), exist_ok=True)
    for i, o in enumerate(new_viol):
        p = os.path.join(EVIDENCE_DIR, "violations", f"{spec.pid}_{i}.json")
        if write:
            with open(p, "w", encoding="utf-8") as fh:
                json.dump({"property": spec.pid, "obligation": o.as_json(),
                           "replay": f"./check --replay {p}"}, fh, indent=1)
        viol_paths.append(p)
        out.append(f"VIOLATION property={spec.pid} replay={p}")
        out.append(f"  rule={o.rule} site={o.site} {o.where} :: {o.why}")
    for o in listed:
        k = open_keys[(o.rule, o.site)]
        out.append(f"KNOWN-FINDING: property={spec.pid} rule={o.rule} key={o.site} :: {k.text}")
    for o in unknown:
        out.append(f"ANALYSIS-ERROR property={spec.pid} rule={o.rule} site={o.site} {o.where} UNKNOWN :: {o.why}")
    for e in errors:
        out.append(f"ANALYSIS-ERROR property={spec.pid} {e}")

    if new_viol:
        code = 1
    elif unknown or errors:
        code = 2
    else:
        code = 0

    proved = [o for o in obs if o.verdict == PROVED]
    inv = prog.inventory() if prog else {}
    summary = (f"{spec.pid} [{tier}] obligations={len(obs)} proved={len(proved)} refuted={len(refuted)} "
               f"(known={len(listed)}) unknown={len(unknown)} controls={controls_ok}/{controls_run}"
               + (f" by-table={by_table}" if by_table else "")
               + (f" audit={audit['flagged']}/{audit['generated']}" if audit else "")
               + f" modules={inv.get('modules')} functions={inv.get('functions')} -> "
               + {0: "OK", 1: "VIOLATION", 2: "ANALYSIS-ERROR"}[code])
    out.append(summary)

    if write:
        os.makedirs(EVIDENCE_DIR, exist_ok=True)
        samples = [o.as_json() for o in (refuted + unknown + proved)[:12]]
        distinct = len({(o.rule, o.site) for o in obs})
        cov = {
            "explanation": spec.explanation,
            "rule": spec.rule_doc,
            "evaluations": len(obs) + (audit["generated"] if audit else 0) + controls_run,
            "distinct_nontrivial": distinct,
            "obligations": len(obs),
            "discharged": len(proved),
            "refuted": len(refuted),
            "refuted_known": len(listed),
            "unknown": len(unknown),
            "samples": samples + control_samples,
            "obligations_by_rule": _by_rule(obs),
            "analysed": inv,
            "positive_controls": {"run": controls_run, "flagged": controls_ok},
            "floors": spec.floors,
            "decided_by_table_only": by_table,
            "checker_cmd": f"./check {spec.pid} --tier {tier}",
            "trusted_base": spec.assumptions,
            "notes": (ctx.notes if ctx else []) + errors,
            "stats": _jsonable(ctx.stats) if ctx else {},
            "exhaustive": False,
        }
        if audit:
            cov["sensitivity_audit"] = {k: audit[k] for k in ("generated", "flagged", "samples", "missed")}
        ev = {
            "property_id": spec.pid,
            "tier": tier,
            "seed": seed,
            "level": "other",
            "coverage": cov,
            "assumptions": spec.assumptions,
            "wall_s": round(time.time() - t0, 3),
            "violations": len(new_viol),
        }
        with open(os.path.join(EVIDENCE_DIR, f"{spec.pid}.json"), "w", encoding="utf-8") as fh:
            json.dump(ev, fh, indent=1)
    if not quiet:
        print("\n".join(out))
        sys.stdout.flush()
    return code


def _fallback_for(spec: PropSpec, rule: str) -> tuple:
    for r, tables in spec.fallback.items():
        if rule == r or rule.startswith(r + "/") or rule.startswith(r + "."):
            return tuple(tables)
    return ()


def _tables_ok(spec: PropSpec, ctx: Ctx, rule: str) -> bool:
    tables = _fallback_for(spec, rule)
    if not tables:
        return False
    for t in tables:
        obs = [o for o in ctx.obs if o.rule == t or o.rule.startswith(t + "/")]
        if len(obs) < max(1, spec.floors.get(t, 1)) or any(o.verdict != PROVED for o in obs):
            return False
    return True


def apply_fallback(spec: PropSpec, ctx: Ctx) -> int:
    """UNKNOWN obligations of structural rules whose clause is also decided by fully proved decision tables."""
    n = 0
    for o in ctx.obs:
        if o.verdict == UNKNOWN and _tables_ok(spec, ctx, o.rule):
            tables = ", ".join(_fallback_for(spec, o.rule))
            o.verdict = PROVED
            o.why = f"[shape outside the structural rule's vocabulary: {o.why}] clause decided by decision table(s) {tables}"
            o.detail = dict(o.detail or {}, decided_by="table")
            n += 1
    if n:
        ctx.note(f"{n} structural obligation(s) were outside the rule vocabulary and are decided by decision tables only")
    return n


def _by_rule(obs: List[Ob]) -> dict:
    d: Dict[str, Dict[str, int]] = {}
    for o in obs:
        r = d.setdefault(o.rule, {PROVED: 0, REFUTED: 0, UNKNOWN: 0})
        r[o.verdict] += 1
    return d


def sensitivity_audit(spec: PropSpec, prog: Program, base_ctx: Ctx) -> dict:
    """Every variant (one obligation instance broken by an AST/text edit of the *current* source, in memory)
    must be REFUTED by the expected rule."""
    import difflib
    gen = flagged = 0
    missed, samples = [], []
    for name, rel, new_src, expect in spec.mutants(prog):
        if new_src == prog.files.get(rel):
            continue
        gen += 1
        try:
            import ast as _ast
            _ast.parse(new_src)
        except SyntaxError:
            missed.append(f"{name} (variant is not valid Python - generator bug)")
            continue
        try:
            vprog = prog.variant(rel, new_src)
            vctx = Ctx(vprog, spec.pid)
            spec.check(vctx)
            hit = [o for o in vctx.obs if o.verdict == REFUTED and o.rule.startswith(expect)]
        except Exception as e:  # a variant that breaks the extractor is a miss, not a crash
            hit = []
            name = f"{name} (checker raised {type(e).__name__}: {e})"
        if hit:
            flagged += 1
            if len(samples) < 3:
                diff = "".join(difflib.unified_diff(prog.files[rel].splitlines(True), new_src.splitlines(True),
                                                    rel, rel + " (variant)", n=0))
                samples.append({"variant": name, "diff": diff[:1500], "flagged_by": hit[0].rule,
                                "site": hit[0].site})
        else:
            missed.append(name)
    return {"generated": gen, "flagged": flagged, "missed": missed, "samples": samples}

"""Bit-window abstract domain (DESIGN 3.5): symbolic evaluation of the cursor primitives.

Abstract values
  Aff                       integer, affine over atoms (with div8/mod8/pow2 atoms)
  BytesV(base, lo, n)       bytes  base[lo : lo+n]           (lo, n : Aff, in bytes)
  BitsV(base, lo, hi)       the non-negative integer formed big-endian from bits [lo, hi) of base
  MaskV(n)                  2**n - 1
  ToBytesV(bits, m)         BitsV serialised big-endian into m bytes (right-aligned)

A function is evaluated along each of its paths; every path yields (facts, returned value, cursor delta,
side conditions).  Slices are evaluated in two modes (unclamped: the upper bound is inside the buffer;
clamped: it is cut at the end of the buffer) so that no assumption about the buffer length is needed beyond the
stated precondition.
"""
from __future__ import annotations

import ast
from dataclasses import dataclass, field
from typing import Dict, List, Optional, Tuple

from .affine import Aff, AffBuilder, div8, mod8, normalise, pow2
from .astutil import dotted, unparse
from .core import Unsupported
from .facts import entails


@dataclass(frozen=True)
class BytesV:
    base: str
    lo: Aff
    n: Aff


@dataclass(frozen=True)
class BitsV:
    base: str
    lo: Aff
    hi: Aff


@dataclass(frozen=True)
class MaskV:
    n: Aff


@dataclass(frozen=True)
class ToBytesV:
    bits: BitsV
    m: Aff


@dataclass
class PathResult:
    facts: List[Aff]
    subst: Dict[str, Aff]
    ret: object
    pos_delta: Optional[Aff]          # total advance of self.pos on this path (None: no write)
    pos_writes: int
    ret_before_advance: bool          # the returned value was computed before the cursor moved
    side: List[Tuple[Aff, str]]       # (g, description) each must hold (g >= 0)
    raised: Optional[str]
    trail: List[str]
    mode: str


class _Raise(Exception):
    def __init__(self, tname):
        self.tname = tname


class SymEval:
    """Symbolic evaluator of one function along one choice of branch outcomes."""

    def __init__(self, fn: ast.FunctionDef, *, buffers: Dict[str, str], ints: List[str], fold, summaries: Dict[str, object],
                 slice_mode: str, self_name: Optional[str] = None):
        self.fn = fn
        self.fold = fold
        self.summaries = summaries
        self.slice_mode = slice_mode        # 'unclamped' | 'clamped'
        self.self_name = self_name
        self.env: Dict[str, object] = {}
        for nm, base in buffers.items():
            self.env[nm] = BytesV(base, Aff.k(0), Aff.atom(f"len({base})"))
        for nm in ints:
            self.env[nm] = Aff.atom(nm)
        self.facts: List[Aff] = []
        self.subst: Dict[str, Aff] = {}
        self.side: List[Tuple[Aff, str]] = []
        self.pos_delta: Optional[Aff] = None
        self.pos_writes = 0
        self.value_reads_after_write = False
        self.trail: List[str] = []
        self.pos_atom = f"{self_name}.pos" if self_name else None

    # ------------------------------------------------------------ helpers
    def S(self, a: Aff) -> Aff:
        """Apply the path's substitutions (x := 8*x8 under the fact x % 8 == 0)."""
        for atom, repl in self.subst.items():
            a = a.subst(atom, repl)
        return normalise(a)

    def aff(self, e: ast.AST) -> Aff:
        v = self.ev(e)
        if isinstance(v, Aff):
            return self.S(v)
        raise Unsupported(f"integer expected: {unparse(e)}")

    def cur_pos(self) -> Aff:
        a = Aff.atom(self.pos_atom)
        if self.pos_delta is not None:
            a = a + self.pos_delta
        return self.S(a)

    # ------------------------------------------------------------ expressions
    def ev(self, e: ast.AST):
        if isinstance(e, ast.Constant):
            if isinstance(e.value, bool) or not isinstance(e.value, (int, str)):
                raise Unsupported(f"constant {e.value!r}")
            return Aff.k(e.value) if isinstance(e.value, int) else e.value
        if isinstance(e, ast.Name):
            if e.id in self.env:
                v = self.env[e.id]
                return self.S(v) if isinstance(v, Aff) else v
            c = self.fold(e)
            if isinstance(c, int):
                return Aff.k(c)
            raise Unsupported(f"unbound name {e.id}")
        if isinstance(e, ast.Attribute):
            d = dotted(e)
            if d == self.pos_atom:
                return self.cur_pos()
            c = self.fold(e)
            if isinstance(c, int):
                return Aff.k(c)
            raise Unsupported(f"attribute {d}")
        if isinstance(e, ast.BinOp):
            return self.binop(e)
        if isinstance(e, ast.UnaryOp) and isinstance(e.op, ast.USub):
            return -self.aff(e.operand)
        if isinstance(e, ast.Subscript):
            return self.subscript(e)
        if isinstance(e, ast.Call):
            return self.call(e)
        raise Unsupported(f"expression {type(e).__name__}: {unparse(e)[:50]}")

    def binop(self, e: ast.BinOp):
        op = e.op
        if isinstance(op, (ast.RShift, ast.BitAnd, ast.LShift)):
            a = self.ev(e.left)
            if isinstance(op, ast.BitAnd):
                b = self.ev(e.right)
                if isinstance(b, BitsV) and isinstance(a, MaskV):
                    a, b = b, a
                if isinstance(a, BitsV) and isinstance(b, MaskV):
                    n = self.S(b.n)
                    self.side.append((n, "mask width >= 0"))
                    self.side.append((self.S(a.hi - a.lo - n), "mask width <= width of the shifted value"))
                    return BitsV(a.base, self.S(a.hi - n), a.hi)
                raise Unsupported(f"& of {type(a).__name__} and {type(b).__name__}")
            if isinstance(a, BitsV) and isinstance(op, ast.RShift):
                k = self.aff(e.right)
                self.side.append((k, "shift amount >= 0"))
                self.side.append((self.S(a.hi - a.lo - k), "shift amount <= width of the value"))
                return BitsV(a.base, a.lo, self.S(a.hi - k))
            if isinstance(a, Aff) and isinstance(op, ast.LShift):
                b = self.aff(e.right)
                if a.is_const() and a.const == 1:
                    return self.S(pow2(b))
                if b.is_const() and 0 <= b.const < 4096:
                    return self.S(a.scale(2 ** b.const))
            raise Unsupported(f"shift/mask form: {unparse(e)[:60]}")
        a, b = self.ev(e.left), self.ev(e.right)
        if isinstance(a, Aff) and isinstance(b, Aff):
            if isinstance(op, ast.Add):
                return self.S(a + b)
            if isinstance(op, ast.Sub):
                r = self.S(a - b)
                # 2**n - 1  ->  mask
                if b.is_const() and b.const == 1 and len(a.terms) == 1 and a.const == 0:
                    (atom, c), = a.terms.items()
                    if c == 1 and atom.startswith("pow2("):
                        from .affine import _STRUCT
                        return MaskV(_STRUCT[atom][1])
                return r
            if isinstance(op, ast.Mult):
                if a.is_const():
                    return self.S(b.scale(a.const))
                if b.is_const():
                    return self.S(a.scale(b.const))
            if isinstance(op, ast.FloorDiv) and b.is_const() and b.const == 8:
                return self.S(div8(a))
            if isinstance(op, ast.Mod) and b.is_const() and b.const == 8:
                return self.S(mod8(a))
            if isinstance(op, ast.Pow) and a.is_const() and a.const == 2:
                return self.S(pow2(b))
        if isinstance(a, MaskV) or isinstance(b, MaskV):
            raise Unsupported("arithmetic on a mask")
        raise Unsupported(f"arithmetic form: {unparse(e)[:60]}")

    def subscript(self, e: ast.Subscript):
        base = self.ev(e.value)
        if not isinstance(base, BytesV) or not isinstance(e.slice, ast.Slice) or e.slice.step is not None:
            raise Unsupported(f"subscript {unparse(e)[:60]}")
        lo = self.aff(e.slice.lower) if e.slice.lower is not None else Aff.k(0)
        self.side.append((lo, "slice start >= 0"))
        if e.slice.upper is None:
            return BytesV(base.base, self.S(base.lo + lo), self.S(base.n - lo))
        hi = self.aff(e.slice.upper)
        if self.slice_mode == "unclamped":
            self.facts.append(self.S(base.n - hi))          # hi <= len
            self.side.append((self.S(hi - lo), "slice is not inverted"))
            return BytesV(base.base, self.S(base.lo + lo), self.S(hi - lo))
        self.facts.append(self.S(hi - base.n))              # hi >= len : cut at the end
        self.side.append((self.S(base.n - lo), "slice start <= length"))
        return BytesV(base.base, self.S(base.lo + lo), self.S(base.n - lo))

    def call(self, e: ast.Call):
        d = dotted(e.func) or ""
        if d == "len" and len(e.args) == 1:
            v = self.ev(e.args[0])
            if isinstance(v, BytesV):
                return self.S(v.n)
            raise Unsupported("len of non-bytes")
        if d == "int.from_bytes" or d.endswith(".from_bytes"):
            order = None
            if len(e.args) >= 2 and isinstance(e.args[1], ast.Constant):
                order = e.args[1].value
            for k in e.keywords:
                if k.arg == "byteorder" and isinstance(k.value, ast.Constant):
                    order = k.value.value
            if any(k.arg == "signed" for k in e.keywords):
                raise Unsupported("signed from_bytes")
            v = self.ev(e.args[0])
            if isinstance(v, BytesV) and order == "big":
                return BitsV(v.base, self.S(v.lo.scale(8)), self.S((v.lo + v.n).scale(8)))
            raise Unsupported(f"from_bytes with byteorder {order!r}")
        if d == "int.to_bytes" or (isinstance(e.func, ast.Attribute) and e.func.attr == "to_bytes"):
            if d == "int.to_bytes":
                val, rest = e.args[0], e.args[1:]
            else:
                val, rest = e.func.value, e.args
            v = self.ev(val)
            m = self.aff(rest[0]) if rest else None
            order = rest[1].value if len(rest) > 1 and isinstance(rest[1], ast.Constant) else None
            for k in e.keywords:
                if k.arg == "length":
                    m = self.aff(k.value)
                if k.arg == "byteorder" and isinstance(k.value, ast.Constant):
                    order = k.value.value
            if isinstance(v, BitsV) and m is not None and order == "big":
                self.side.append((self.S(m.scale(8) - (v.hi - v.lo)), "to_bytes length holds the value"))
                return ToBytesV(v, m)
            raise Unsupported("to_bytes form")
        name = d.split(".")[-1]
        if name in self.summaries:
            return self.summaries[name](self, e)
        raise Unsupported(f"call {d}")

    # ------------------------------------------------------------ statements
    def run(self, choices: List[bool]) -> PathResult:
        self._choices = list(choices)
        self._taken: List[bool] = []
        ret = None
        raised = None
        try:
            ret = self.block(self.fn.body)
        except _Raise as r:
            raised = r.tname
        ret = self.final(ret)
        facts = [self.S(f) for f in self.facts]
        side = [(self.S(g), d) for g, d in self.side]
        delta = self.S(self.pos_delta) if self.pos_delta is not None else None
        return PathResult(facts, self.subst, ret, delta, self.pos_writes,
                          not self.value_reads_after_write, side, raised, self.trail, self.slice_mode)

    def final(self, v):
        if isinstance(v, Aff):
            return self.S(v)
        if isinstance(v, BytesV):
            return BytesV(v.base, self.S(v.lo), self.S(v.n))
        if isinstance(v, BitsV):
            return BitsV(v.base, self.S(v.lo), self.S(v.hi))
        if isinstance(v, ToBytesV):
            return ToBytesV(self.final(v.bits), self.S(v.m))
        if isinstance(v, MaskV):
            return MaskV(self.S(v.n))
        return v

    class _Ret(Exception):
        def __init__(self, v):
            self.v = v

    def block(self, body):
        try:
            for st in body:
                self.stmt(st)
        except SymEval._Ret as r:
            return r.v
        return None

    def stmt(self, st: ast.stmt):
        if isinstance(st, ast.Expr):
            if isinstance(st.value, ast.Constant):
                return
            self.ev(st.value)
            return
        if isinstance(st, ast.Assign) and len(st.targets) == 1 and isinstance(st.targets[0], ast.Name):
            self.env[st.targets[0].id] = self.ev(st.value)
            return
        if isinstance(st, ast.AugAssign) and dotted(st.target) == self.pos_atom and isinstance(st.op, ast.Add):
            d = self.aff(st.value)
            self.pos_delta = d if self.pos_delta is None else self.S(self.pos_delta + d)
            self.pos_writes += 1
            return
        if isinstance(st, ast.AugAssign) and isinstance(st.target, ast.Name) and isinstance(st.op, (ast.Add, ast.Sub)):
            cur = self.env.get(st.target.id)
            d = self.aff(st.value)
            if isinstance(cur, Aff):
                self.env[st.target.id] = self.S(cur + d if isinstance(st.op, ast.Add) else cur - d)
                return
        if isinstance(st, ast.Assign) and len(st.targets) == 1 and dotted(st.targets[0]) == self.pos_atom:
            new = self.aff(st.value)
            old = Aff.atom(self.pos_atom)
            self.pos_delta = self.S(new - old)
            self.pos_writes += 1
            return
        if isinstance(st, ast.If):
            if not self._choices:
                raise Unsupported("more branches than choices")
            take = self._choices.pop(0)
            self._taken.append(take)
            self.assume(st.test, take)
            self.trail.append(f"line {st.lineno}: {unparse(st.test)[:50]} is {take}")
            for s in (st.body if take else st.orelse):
                self.stmt(s)
            return
        if isinstance(st, ast.Return):
            v = self.ev(st.value) if st.value is not None else None
            raise SymEval._Ret(v)
        if isinstance(st, ast.Raise):
            t = st.exc.func if isinstance(st.exc, ast.Call) else st.exc
            raise _Raise((dotted(t) or "?").split(".")[-1])
        if isinstance(st, ast.Pass):
            return
        raise Unsupported(f"statement {type(st).__name__} at line {st.lineno}")

    def assume(self, test: ast.AST, truth: bool):
        """Record what the branch outcome tells us."""
        if isinstance(test, ast.BoolOp) and isinstance(test.op, ast.And) and truth:
            for v in test.values:
                self.assume(v, True)
            return
        if isinstance(test, ast.BoolOp) and isinstance(test.op, ast.Or) and not truth:
            for v in test.values:
                self.assume(v, False)
            return
        if isinstance(test, ast.UnaryOp) and isinstance(test.op, ast.Not):
            self.assume(test.operand, not truth)
            return
        if isinstance(test, ast.Compare) and len(test.ops) == 1:
            try:
                a, b = self.aff(test.left), self.aff(test.comparators[0])
            except Unsupported:
                return
            op = test.ops[0]
            d = self.S(a - b)
            eq = (isinstance(op, ast.Eq) and truth) or (isinstance(op, ast.NotEq) and not truth)
            if eq:
                # mod8(x) == 0  ->  x := 8 * x8
                if b.is_const() and b.const == 0 and len(d.terms) == 1 and d.const == 0:
                    (atom, c), = d.terms.items()
                    if atom.startswith("mod8(") and c == 1:
                        from .affine import _STRUCT
                        inner = _STRUCT[atom][1]
                        if len(inner.terms) == 1 and inner.const == 0:
                            (x, cx), = inner.terms.items()
                            if cx == 1 and not x.startswith(("div8(", "mod8(", "pow2(")):
                                self.subst[x] = Aff({x + "#8": 8})
                                return
                self.facts += [d, -d]
                return
            one = Aff.k(1)
            if isinstance(op, ast.Lt):
                self.facts.append(self.S(-d - one) if truth else d)
            elif isinstance(op, ast.LtE):
                self.facts.append(self.S(-d) if truth else self.S(d - one))
            elif isinstance(op, ast.Gt):
                self.facts.append(self.S(d - one) if truth else self.S(-d))
            elif isinstance(op, ast.GtE):
                self.facts.append(d if truth else self.S(-d - one))
            return
        # other tests give no facts


def count_ifs(fn: ast.FunctionDef) -> int:
    return sum(1 for n in ast.walk(fn) if isinstance(n, ast.If))


def all_paths(fn, **kw) -> List[PathResult]:
    """Evaluate every combination of branch outcomes (functions here have <= 4 ifs) in both slice modes."""
    import itertools
    nifs = count_ifs(fn)
    if nifs > 6:
        raise Unsupported("too many branches")
    out = []
    seen = set()
    for mode in ("unclamped", "clamped"):
        for choices in itertools.product((True, False), repeat=nifs):
            ev = SymEval(fn, slice_mode=mode, **kw)
            try:
                r = ev.run(list(choices))
            except Unsupported:
                raise
            key = (mode, tuple(ev._taken))
            if key in seen:
                continue
            seen.add(key)
            out.append(r)
    return out


def bg_div8(atoms) -> List[Aff]:
    """Background facts for div8 atoms:  e - 7 <= 8*div8(e) <= e   (L3)."""
    from .affine import _STRUCT
    out = []
    for a in atoms:
        if a.startswith("div8(") and a in _STRUCT:
            inner = _STRUCT[a][1]
            out.append(normalise(inner - Aff.atom(a).scale(8)))
            out.append(normalise(Aff.atom(a).scale(8) - inner + Aff.k(7)))
        if a.endswith("#8"):
            pass
    return out


def holds(facts: List[Aff], g: Aff) -> bool:
    """g >= 0 follows from the facts, the background facts of the atoms involved (len >= 0, 0 <= mod8 <= 7,
    e-7 <= 8*div8(e) <= e) and integer tightening.  Derivation: two rounds of pairwise sums that cancel at least one
    atom (Fourier-Motzkin style, tightened over the integers), then a bounded non-negative-combination search."""
    from .facts import background, tighten
    g = tighten(g)
    if g.is_const():
        return g.const >= 0
    atoms = set(g.atoms())
    for f in facts:
        atoms |= f.atoms()
    from .affine import _STRUCT
    # atoms nested inside structured atoms
    frontier = list(atoms)
    while frontier:
        a = frontier.pop()
        if a in _STRUCT:
            for b in _STRUCT[a][1].atoms():
                if b not in atoms:
                    atoms.add(b)
                    frontier.append(b)
    pool = []
    for f in list(facts) + background(atoms) + bg_div8(atoms):
        t = tighten(f)
        if t not in pool and not (t.is_const() and t.const >= 0):
            pool.append(t)
    for _ in range(2):
        new = []
        for i, f in enumerate(pool):
            for h in pool[i:]:
                if not (f.atoms() & h.atoms()):
                    continue
                sm = tighten(f + h)
                if len(sm.atoms()) < len(f.atoms() | h.atoms()) and sm not in pool and sm not in new \
                        and not (sm.is_const() and sm.const >= 0):
                    new.append(sm)
        pool += new[:300]
        if len(pool) > 400:
            break
    return entails(pool, g, depth=3)

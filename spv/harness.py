"""Convenience layer over the abstract interpreter for the decode-semantics rules."""
from __future__ import annotations

import ast
from typing import Optional

from .core import Unsupported
from .interp import Env, Interp, Raised
from .models import VALUE_CLASSES, make_interp, new_packet


class Harness:
    def __init__(self, prog, extra: Optional[dict] = None, **kw):
        self.prog = prog
        self.it: Interp = make_interp(prog, extra, **kw)
        self._cache = {}

    def ev(self, _src: str, rel: str, **names):
        """Evaluate a *checker-written* driver expression (constructors / method calls on model objects) in the
        namespace of module ``rel``; the repository functions it reaches are interpreted from their AST."""
        tree = self._cache.get(_src)
        if tree is None:
            tree = self._cache[_src] = ast.parse(_src, mode="eval").body
        e = Env()
        e.vars["__relpath__"] = rel
        e.vars["__cls__"] = None
        e.vars.update(names)
        self.it.steps = 0
        return self.it.eval(tree, e)

    def outcome(self, _src: str, rel: str, **names):
        """('ok', value) | ('raise', exception type name) ; Unsupported propagates."""
        try:
            return ("ok", self.ev(_src, rel, **names))
        except Raised as r:
            return ("raise", r.exc.tname)

    @staticmethod
    def packet(raw: bytes = b"", items: Optional[dict] = None):
        p = new_packet(raw_data=raw)
        if items:
            p.update(items)
        return p

    @staticmethod
    def val(kind: str, v, raw=None):
        return VALUE_CLASSES[kind + "Parameter"](v, raw)


def plain(v):
    """Native view of a model value (drops the model subclass) for comparisons in reports."""
    for t in (bool, int, float, str, bytes):
        if isinstance(v, t) and not isinstance(v, bool) or (t is bool and type(v) is bool):
            return t(v)
    return v


def cursor(h, raw, default=None):
    """The bit cursor of a raw-packet object as the program itself would read it (`raw.pos`): an instance attribute, a class
    default, or a property with a backing field."""
    it = getattr(h, "it", h)
    from .interp import Raised, _ACTIVE
    from .core import Unsupported
    if it is None:
        it = _ACTIVE[-1] if _ACTIVE else None
    if it is None or raw is None:
        return default
    try:
        v = it.getattr(raw, "pos", None)
    except (Raised, Unsupported):
        return raw.attrs.get("pos", default)
    return default if v is None else v

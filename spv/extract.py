"""Extraction idioms shared by the property rules: definitions of locals, call sites, guards, returns."""
from __future__ import annotations

import ast
from typing import Dict, Iterator, List, Optional, Tuple

from .astutil import dotted, norm, unparse, walk_local, walk_stmts
from .core import Unsupported
from .program import FuncInfo, Program


def fn_stmts(fi: FuncInfo) -> List[ast.stmt]:
    return list(walk_stmts(fi.node.body))


def assignments(fi: FuncInfo, name: str) -> List[ast.stmt]:
    """Statements (Assign/AugAssign/AnnAssign/For/With/walrus holder) that write local ``name``."""
    out = []
    for st in fn_stmts(fi):
        if isinstance(st, ast.Assign):
            for t in st.targets:
                for n in ast.walk(t):
                    if isinstance(n, ast.Name) and n.id == name:
                        out.append(st)
        elif isinstance(st, (ast.AugAssign, ast.AnnAssign)):
            if isinstance(st.target, ast.Name) and st.target.id == name:
                out.append(st)
        elif isinstance(st, (ast.For, ast.AsyncFor)):
            if any(isinstance(n, ast.Name) and n.id == name for n in ast.walk(st.target)):
                out.append(st)
        elif isinstance(st, (ast.With, ast.AsyncWith)):
            for it in st.items:
                if it.optional_vars is not None and any(
                        isinstance(n, ast.Name) and n.id == name for n in ast.walk(it.optional_vars)):
                    out.append(st)
        elif isinstance(st, (ast.FunctionDef, ast.AsyncFunctionDef, ast.ClassDef)) and st.name == name:
            out.append(st)
    # walrus
    for n in walk_local(fi.node):
        if isinstance(n, ast.NamedExpr) and n.target.id == name:
            out.append(n)
    return out


def single_def(fi: FuncInfo, name: str) -> Optional[ast.AST]:
    """The value expression if ``name`` has exactly one plain assignment in the function, else None."""
    defs = assignments(fi, name)
    if len(defs) != 1:
        return None
    d = defs[0]
    if isinstance(d, ast.Assign) and len(d.targets) == 1 and isinstance(d.targets[0], ast.Name):
        return d.value
    if isinstance(d, ast.AnnAssign):
        return d.value
    if isinstance(d, ast.NamedExpr):
        return d.value
    return None


def resolve_local(fi: FuncInfo, e: ast.AST, depth: int = 6) -> ast.AST:
    """Follow single-definition local names to their defining expression."""
    while depth > 0 and isinstance(e, ast.Name):
        v = single_def(fi, e.id)
        if v is None:
            break
        e = v
        depth -= 1
    return e


def expand_names(fi: FuncInfo, e: ast.AST, depth: int = 4) -> ast.AST:
    """Copy of ``e`` with every single-definition local name replaced (recursively) by its defining expression."""
    import copy

    class T(ast.NodeTransformer):
        def __init__(self, d):
            self.d = d

        def visit_Name(self, n):
            if isinstance(n.ctx, ast.Load) and self.d > 0 and n.id not in fi.params:
                v = single_def(fi, n.id)
                if v is not None:
                    return T(self.d - 1).visit(copy.deepcopy(v))
            return n
    return T(depth).visit(copy.deepcopy(e))


def expand_straightline(fi: FuncInfo, e: ast.AST, at: ast.AST, limit: int = 40) -> ast.AST:
    """Value of expression ``e`` just before statement-containing-``at``, with names replaced by the simple assignments
    `name = value` that precede it in the same statement list (walking backwards; stops substituting a name at the
    first compound statement that may write it).  `h = a; h = h | b; h = h | c`  ->  `a | b | c`."""
    import copy
    block = idx = None
    for st in [fi.node] + fn_stmts(fi):
        for fld in ("body", "orelse", "finalbody"):
            body = getattr(st, fld, None)
            if isinstance(body, list):
                for i, s in enumerate(body):
                    if isinstance(s, ast.stmt) and any(n is at for n in ast.walk(s)):
                        block, idx = body, i
    if block is None:
        return e
    e = copy.deepcopy(e)
    frozen = set()
    for s in reversed(block[:idx]):
        names = {n.id for n in ast.walk(e) if isinstance(n, ast.Name)} - frozen
        if not names or limit <= 0:
            break
        limit -= 1
        tgt = None
        if isinstance(s, ast.Assign) and len(s.targets) == 1 and isinstance(s.targets[0], ast.Name):
            tgt, val = s.targets[0].id, s.value
        elif isinstance(s, ast.AnnAssign) and isinstance(s.target, ast.Name) and s.value is not None:
            tgt, val = s.target.id, s.value
        elif isinstance(s, ast.AugAssign) and isinstance(s.target, ast.Name):
            tgt = s.target.id
            val = ast.BinOp(left=ast.Name(id=tgt, ctx=ast.Load()), op=s.op, right=s.value)
        if tgt is not None:
            if tgt in names:
                class T(ast.NodeTransformer):
                    def visit_Name(self, n, tgt=tgt, val=val):
                        return copy.deepcopy(val) if n.id == tgt and isinstance(n.ctx, ast.Load) else n
                e = T().visit(e)
            continue
        written = set()
        for n in ast.walk(s):
            if isinstance(n, ast.Name) and isinstance(n.ctx, (ast.Store, ast.Del)):
                written.add(n.id)
        frozen |= written & names
    return ast.fix_missing_locations(e)


def calls(fi_or_node, func_name: Optional[str] = None, *, attr: Optional[str] = None) -> Iterator[ast.Call]:
    node = fi_or_node.node if isinstance(fi_or_node, FuncInfo) else fi_or_node
    for n in walk_local(node):
        if isinstance(n, ast.Call):
            d = dotted(n.func)
            if func_name is not None and d is not None and (d == func_name or d.endswith("." + func_name)):
                yield n
            elif attr is not None and isinstance(n.func, ast.Attribute) and n.func.attr == attr:
                yield n
            elif func_name is None and attr is None:
                yield n


def returns(fi: FuncInfo) -> List[ast.Return]:
    return [s for s in fn_stmts(fi) if isinstance(s, ast.Return)]


def yields(fi: FuncInfo) -> List[ast.AST]:
    return [n for n in walk_local(fi.node) if isinstance(n, (ast.Yield, ast.YieldFrom))]


def raises_type(st: ast.Raise) -> Optional[str]:
    if st.exc is None:
        return None
    e = st.exc
    if isinstance(e, ast.Call):
        e = e.func
    d = dotted(e)
    return d.split(".")[-1] if d else None


def body_raises(body: List[ast.stmt]) -> Optional[ast.Raise]:
    """The Raise a guard body unconditionally ends with (only simple statements before it)."""
    for st in body:
        if isinstance(st, ast.Raise):
            return st
        if not isinstance(st, (ast.Expr, ast.Assign, ast.Pass)):
            return None
    return None


def stmt_site(fi: FuncInfo, node: ast.AST) -> str:
    return f"{fi.key}::{norm(node)[:120]}"


def where(fi: FuncInfo, node: ast.AST) -> str:
    return f"space_packet_parser/{fi.relpath}:{getattr(node, 'lineno', '?')}"


def flatten_binop(e: ast.AST, op_type) -> List[ast.AST]:
    if isinstance(e, ast.BinOp) and isinstance(e.op, op_type):
        return flatten_binop(e.left, op_type) + flatten_binop(e.right, op_type)
    return [e]


def range_guard(test: ast.AST, prog: Program, relpath: str) -> Optional[Tuple[str, Optional[int], Optional[int]]]:
    """Recognise a *rejecting* range test and return (subject text, lo, hi) of the ACCEPTED closed range.

    Forms:  x < lo or x > hi ;  not (lo <= x <= hi) ;  not lo <= x <= hi ; x not in range(lo, hi+1)
    ``subject`` is the normalised text of x (a name or len(name))."""
    def fold(e):
        return prog.fold_opt(e, relpath)

    def one(cmp: ast.AST):
        """single comparison rejecting: returns (subject, kind, bound) kind in 'lo'/'hi' (accepted bound)."""
        if not (isinstance(cmp, ast.Compare) and len(cmp.ops) == 1):
            return None
        a, op, b = cmp.left, cmp.ops[0], cmp.comparators[0]
        ca, cb = fold(a), fold(b)
        if cb is not None and ca is None and isinstance(cb, int):
            s = norm(a)
            if isinstance(op, ast.Lt):
                return s, "lo", cb          # reject x < c  -> accept x >= c
            if isinstance(op, ast.LtE):
                return s, "lo", cb + 1
            if isinstance(op, ast.Gt):
                return s, "hi", cb          # reject x > c -> accept x <= c
            if isinstance(op, ast.GtE):
                return s, "hi", cb - 1
        if ca is not None and cb is None and isinstance(ca, int):
            s = norm(b)
            if isinstance(op, ast.Gt):      # c > x  reject -> accept x >= c
                return s, "lo", ca
            if isinstance(op, ast.GtE):
                return s, "lo", ca + 1
            if isinstance(op, ast.Lt):      # c < x reject -> accept x <= c
                return s, "hi", ca
            if isinstance(op, ast.LtE):
                return s, "hi", ca - 1
        return None

    if isinstance(test, ast.BoolOp) and isinstance(test.op, ast.Or):
        parts = [one(v) for v in test.values]
        if all(parts) and len({p[0] for p in parts}) == 1:
            lo = hi = None
            for s, kind, c in parts:
                if kind == "lo":
                    lo = c if lo is None else max(lo, c)
                else:
                    hi = c if hi is None else min(hi, c)
            return parts[0][0], lo, hi
        return None
    if isinstance(test, ast.UnaryOp) and isinstance(test.op, ast.Not):
        inner = test.operand
        if isinstance(inner, ast.Compare) and len(inner.ops) == 2:
            lo_e, x, hi_e = inner.left, inner.comparators[0], inner.comparators[1]
            lo, hi = fold(lo_e), fold(hi_e)
            if isinstance(lo, int) and isinstance(hi, int):
                o1, o2 = inner.ops
                if isinstance(o1, (ast.LtE, ast.Lt)) and isinstance(o2, (ast.LtE, ast.Lt)):
                    return norm(x), lo + (1 if isinstance(o1, ast.Lt) else 0), hi - (1 if isinstance(o2, ast.Lt) else 0)
        return None
    if isinstance(test, ast.Compare) and len(test.ops) == 1 and isinstance(test.ops[0], ast.NotIn):
        r = test.comparators[0]
        if isinstance(r, ast.Call) and dotted(r.func) == "range" and 1 <= len(r.args) <= 2:
            vals = [fold(a) for a in r.args]
            if all(isinstance(v, int) for v in vals):
                lo, hi = (0, vals[0]) if len(vals) == 1 else vals
                return norm(test.left), lo, hi - 1
        return None
    p = one(test)
    if p:
        s, kind, c = p
        return (s, c, None) if kind == "lo" else (s, None, c)
    return None

"""Private helpers of the package found by *role* (what they are used for), so that renaming or moving one does not
detach a rule from its subject.  Each finder prefers today's name when it exists and otherwise looks for the role."""
from __future__ import annotations

import ast
from typing import Optional

from .astutil import dotted, walk_local
from .program import FuncInfo, Program

PK = "packets.py"
_cache: dict = {}


def bits_fn(prog: Program) -> Optional[FuncInfo]:
    """The bit-window extractor: the module-level function that ``RawPacketData.read_as_int`` calls with the packet
    itself as first argument and three arguments in all (data, start_bit, nbits)."""
    key = (id(prog), "bits")
    if key in _cache and _cache[key][0] is prog:
        return _cache[key][1]
    fi = prog.func_opt(f"{PK}::_extract_bits")
    if fi is None:
        for meth in ("read_as_int", "read_as_bytes"):
            m = prog.resolve_method("RawPacketData", meth)
            if m is None or not m.params:
                continue
            for n in walk_local(m.node):
                if isinstance(n, ast.Call) and isinstance(n.func, ast.Name) and len(n.args) == 3 and \
                        isinstance(n.args[0], ast.Name) and n.args[0].id == m.params[0]:
                    cand = prog.func_opt(f"{m.relpath}::{n.func.id}")
                    if cand is not None and cand.cls is None:
                        fi = cand
                        break
            if fi is not None:
                break
    _cache[key] = (prog, fi)
    if fi is not None:
        from . import facts
        facts.NONNEG_CALLS.add(fi.name)
    return fi


def bits_name(prog: Program) -> str:
    fi = bits_fn(prog)
    return fi.name if fi is not None else "_extract_bits"

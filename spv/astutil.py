"""Small AST helpers shared by all analyses."""
from __future__ import annotations

import ast
from typing import Iterable, Iterator, Optional


def unparse(node: ast.AST) -> str:
    try:
        return ast.unparse(node)
    except Exception:  # pragma: no cover
        return ast.dump(node)


def norm(node: ast.AST) -> str:
    """Normalised text of a statement/expression: used for finding keys (never line numbers)."""
    s = unparse(node)
    return " ".join(s.split())


def dotted(node: ast.AST) -> Optional[str]:
    """``a.b.c`` for Name/Attribute chains, else None."""
    parts = []
    while isinstance(node, ast.Attribute):
        parts.append(node.attr)
        node = node.value
    if isinstance(node, ast.Name):
        parts.append(node.id)
        return ".".join(reversed(parts))
    return None


def root_name(node: ast.AST) -> Optional[str]:
    """Root Name of an attribute/subscript/call chain."""
    while True:
        if isinstance(node, ast.Attribute):
            node = node.value
        elif isinstance(node, ast.Subscript):
            node = node.value
        elif isinstance(node, ast.Call):
            node = node.func
        elif isinstance(node, ast.Starred):
            node = node.value
        else:
            break
    return node.id if isinstance(node, ast.Name) else None


FUNC_TYPES = (ast.FunctionDef, ast.AsyncFunctionDef, ast.Lambda)
SCOPE_TYPES = FUNC_TYPES + (ast.ClassDef,)


def walk_local(node: ast.AST, *, include_self: bool = True) -> Iterator[ast.AST]:
    """Walk a function body without descending into nested function/class scopes.

    Comprehensions are descended into (they execute in place)."""
    stack = [node]
    first = True
    while stack:
        n = stack.pop()
        if not first and isinstance(n, SCOPE_TYPES):
            continue
        if first:
            first = False
            if include_self:
                yield n
        else:
            yield n
        stack.extend(reversed(list(ast.iter_child_nodes(n))))


def walk_stmts(body: Iterable[ast.stmt]) -> Iterator[ast.stmt]:
    """All statements (recursively) of a body, not entering nested defs/classes."""
    for st in body:
        yield st
        if isinstance(st, SCOPE_TYPES):
            continue
        for field in ("body", "orelse", "finalbody"):
            sub = getattr(st, field, None)
            if sub:
                yield from walk_stmts(sub)
        if isinstance(st, ast.Try):
            for h in st.handlers:
                yield from walk_stmts(h.body)
        if hasattr(ast, "Match") and isinstance(st, ast.Match):
            for c in st.cases:
                yield from walk_stmts(c.body)


def calls_in(node: ast.AST) -> Iterator[ast.Call]:
    for n in walk_local(node):
        if isinstance(n, ast.Call):
            yield n


def names_loaded(node: ast.AST) -> set:
    return {n.id for n in ast.walk(node) if isinstance(n, ast.Name) and isinstance(n.ctx, ast.Load)}


def names_in(node: ast.AST) -> set:
    return {n.id for n in ast.walk(node) if isinstance(n, ast.Name)}


def assigned_names(target: ast.AST) -> list:
    out = []
    for n in ast.walk(target):
        if isinstance(n, ast.Name) and isinstance(n.ctx, (ast.Store, ast.Del)):
            out.append(n.id)
    return out


def stmt_targets(st: ast.stmt) -> list:
    """Target expressions written by a simple statement."""
    if isinstance(st, ast.Assign):
        return list(st.targets)
    if isinstance(st, (ast.AugAssign, ast.AnnAssign)):
        return [st.target]
    if isinstance(st, ast.Delete):
        return list(st.targets)
    if isinstance(st, (ast.For, ast.AsyncFor)):
        return [st.target]
    if isinstance(st, (ast.With, ast.AsyncWith)):
        return [i.optional_vars for i in st.items if i.optional_vars is not None]
    return []


def kwarg(call: ast.Call, name: str) -> Optional[ast.AST]:
    for k in call.keywords:
        if k.arg == name:
            return k.value
    return None


def is_const(node: ast.AST, value=...) -> bool:
    if not isinstance(node, ast.Constant):
        return False
    return True if value is ... else (node.value == value and type(node.value) is type(value))


def const_str(node: ast.AST) -> Optional[str]:
    if isinstance(node, ast.Constant) and isinstance(node.value, str):
        return node.value
    return None


def fstring_parts(node: ast.AST):
    """For a JoinedStr: list of ('s', text) / ('e', expr) parts; for a str Constant: [('s', text)]."""
    if isinstance(node, ast.Constant) and isinstance(node.value, str):
        return [("s", node.value)]
    if isinstance(node, ast.JoinedStr):
        out = []
        for v in node.values:
            if isinstance(v, ast.Constant):
                out.append(("s", str(v.value)))
            elif isinstance(v, ast.FormattedValue):
                out.append(("e", v.value))
        return out
    return None


def parent_map(root: ast.AST) -> dict:
    pm = {}
    for p in ast.walk(root):
        for c in ast.iter_child_nodes(p):
            pm[c] = p
    return pm


def enclosing(pm: dict, node: ast.AST, types) -> Optional[ast.AST]:
    n = pm.get(node)
    while n is not None and not isinstance(n, types):
        n = pm.get(n)
    return n


def contains(outer: ast.AST, inner: ast.AST) -> bool:
    return any(n is inner for n in ast.walk(outer))


def loc(relpath: str, node: ast.AST) -> str:
    return f"{relpath}:{getattr(node, 'lineno', '?')}"

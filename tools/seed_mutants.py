#!/usr/bin/env python3
"""Confirm sub-agent mutants and file them under /verif/seeded/<prop>_<k>/ (patch.diff, demo.py, meta.json).

For each candidate /tmp/mut/out/Cxx/m<k>: (1) the patch applies to a scratch copy of /repo HEAD, (2) the full baseline
suite passes with it, (3) the demo passes on the clean tree and fails with the patch, (4) every registered check is
run against the patched copy and the verdicts are recorded."""
import concurrent.futures as cf
import glob
import json
import os
import shutil
import subprocess
import sys
import tempfile

OUT = "/verif/seeded"
SRC = sys.argv[1] if len(sys.argv) > 1 else "/tmp/mut/out"
PROPS = ["C%02d" % i for i in range(1, 21)]


def sh(cmd, cwd=None, env=None, timeout=1500):
    p = subprocess.run(cmd, shell=True, cwd=cwd, env=env, capture_output=True, text=True, timeout=timeout)
    return p.returncode, (p.stdout + p.stderr)


def one(cand):
    prop = os.path.basename(os.path.dirname(cand))
    k = os.path.basename(cand)
    patch = os.path.join(cand, "patch.diff")
    demo = os.path.join(cand, "demo.py")
    res = {"candidate": cand, "property": prop}
    if not (os.path.exists(patch) and os.path.exists(demo) and os.path.exists(os.path.join(cand, "meta.json"))):
        res["status"] = "incomplete"
        return res
    clean = tempfile.mkdtemp(prefix="seedclean.")
    mut = tempfile.mkdtemp(prefix="seedmut.")
    try:
        for d in (clean, mut):
            sh(f"git -C /repo archive HEAD | tar -x -C {d}")
        rc, out = sh(f"git apply {patch}", cwd=mut)
        if rc != 0:
            res["status"] = "patch does not apply to /repo HEAD"
            res["detail"] = out[-300:]
            return res
        env = dict(os.environ)
        prevr = PREV.get(cand)
        if prevr and prevr.get("confirmed"):
            # SEED_REUSE: the suite/demo confirmation of an unchanged candidate is kept; the checks are always re-run
            for k in ("suite_with_mutant", "suite_ok", "demo_clean_exit", "demo_clean_tail", "demo_mutant_exit", "demo_mutant_tail", "confirmed"):
                res[k] = prevr.get(k)
        rc, out = (0, "") if res.get("confirmed") else sh("/venv/bin/python -m pytest -q -p no:cacheprovider --timeout=900 2>&1 | grep -E '^[0-9]+ (passed|failed)|passed|failed' | tail -1",
                     cwd=mut, env=env)
        if not res.get("confirmed"):
            res["suite_with_mutant"] = out.strip().splitlines()[-1] if out.strip() else ""
            res["suite_ok"] = "passed" in res["suite_with_mutant"] and "failed" not in res["suite_with_mutant"] and "error" not in res["suite_with_mutant"]
        for label, d in (() if res.get("confirmed") else (("clean", clean), ("mutant", mut))):
            e = dict(env, PYTHONPATH=d, SPP_ROOT=d)
            try:
                rc, out = sh(f"/venv/bin/python {demo}", cwd=d, env=e, timeout=600)
            except subprocess.TimeoutExpired:
                rc, out = 124, "demo timed out after 600 s"
            res[f"demo_{label}_exit"] = rc
            res[f"demo_{label}_tail"] = out.strip()[-200:]
        res["confirmed"] = bool(res["suite_ok"] and res["demo_clean_exit"] == 0 and res["demo_mutant_exit"] != 0)
        det = {}
        for p in PROPS:
            e = dict(env, SPV_REPO=mut)
            try:
                rc, out = sh(f"./check {p} --no-write", cwd=os.environ.get("SPV_CHECK_ROOT", "/verif"), env=e, timeout=900)
            except subprocess.TimeoutExpired:
                rc, out = 124, "TIMEOUT"
            first = ""
            for line in out.splitlines():
                if line.startswith("  rule="):
                    first = line.strip()[:300]
                    break
            det[p] = {"exit": rc, "first": first}
        res["checks"] = det
        res["detected_by"] = [p for p, v in det.items() if v["exit"] == 1]
        res["analysis_error_in"] = [p for p, v in det.items() if v["exit"] not in (0, 1)]
        res["status"] = "confirmed" if res["confirmed"] else "not confirmed"
        return res
    finally:
        shutil.rmtree(clean, ignore_errors=True)
        shutil.rmtree(mut, ignore_errors=True)


PREV = {}


def main():
    mp = os.path.join(OUT, os.environ.get("SEED_TAG", "") + "matrix.json")
    if os.path.exists(mp) and os.environ.get("SEED_REUSE"):
        for r in json.load(open(mp)):
            PREV[r["candidate"]] = r
    cands = sorted(glob.glob(os.path.join(SRC, "C*", "m*")))
    os.makedirs(OUT, exist_ok=True)
    results = []
    with cf.ThreadPoolExecutor(max_workers=8) as ex:
        for r in ex.map(one, cands):
            results.append(r)
            print(r["property"], os.path.basename(r["candidate"]), r.get("status"), "detected_by=", r.get("detected_by"),
                  "errors=", r.get("analysis_error_in"), flush=True)
            if r.get("confirmed"):
                tag = os.environ.get("SEED_TAG", "")
                dst = os.path.join(OUT, f"{r['property']}_{tag}{os.path.basename(r['candidate'])}")
                os.makedirs(dst, exist_ok=True)
                shutil.copy(os.path.join(r["candidate"], "patch.diff"), dst)
                shutil.copy(os.path.join(r["candidate"], "demo.py"), dst)
                meta = {}
                mp = os.path.join(r["candidate"], "meta.json")
                if os.path.exists(mp):
                    try:
                        meta = json.load(open(mp))
                    except Exception:
                        meta = {"raw": open(mp).read()[:2000]}
                meta["breaks_property"] = r["property"]
                meta["confirmed_by_verif_author"] = {
                    "base": subprocess.run("git -C /repo rev-parse --short HEAD", shell=True, capture_output=True, text=True).stdout.strip(),
                    "what_was_run": ["git apply patch.diff on an export of /repo HEAD",
                                     "/venv/bin/python -m pytest -q -p no:cacheprovider --timeout=900 (full suite) with the patch",
                                     "demo.py on the clean export and on the patched export (PYTHONPATH/SPP_ROOT set to the copy)",
                                     "SPV_REPO=<patched copy> ./check Cnn for all 20 properties"],
                    "suite_with_mutant": r["suite_with_mutant"], "demo_clean_exit": r["demo_clean_exit"],
                    "demo_mutant_exit": r["demo_mutant_exit"], "demo_mutant_tail": r["demo_mutant_tail"]}
                meta["detected_by_checks"] = r["detected_by"]
                meta["first_report"] = {p: r["checks"][p]["first"] for p in r["detected_by"]}
                meta["analysis_error_in"] = r["analysis_error_in"]
                json.dump(meta, open(os.path.join(dst, "meta.json"), "w"), indent=1)
    json.dump(results, open(os.path.join(OUT, os.environ.get("SEED_TAG", "") + "matrix.json"), "w"), indent=1)
    conf = [r for r in results if r.get("confirmed")]
    own = [r for r in conf if r["property"] in r["detected_by"]]
    anyd = [r for r in conf if r["detected_by"]]
    print(f"candidates={len(results)} confirmed={len(conf)} detected_by_own_property={len(own)} detected_by_any={len(anyd)}")


if __name__ == "__main__":
    main()

#!/usr/bin/env python3
import sys
sys.path.insert(0, "/verif")
from spv.interp_stress import run
ok, msgs = run()
print("\n".join(msgs))
print("ok", ok, "bad", len(msgs))

#!/bin/bash
# usage: tools/try_mutant.sh <patch.diff> <Cnn> [<Cnn> ...]   - run checks against a scratch copy of /repo with the patch applied
patch=$1; shift
scr=$(mktemp -d /tmp/spvscr.XXXXXX)
cp -r /repo/space_packet_parser "$scr/"
( cd "$scr" && git apply "$patch" ) || { echo "PATCH DOES NOT APPLY: $patch"; rm -rf "$scr"; exit 3; }
rc=0
for p in "$@"; do
  out=$(cd /verif && SPV_REPO="$scr" ./check "$p" --no-write 2>&1); c=$?
  echo "$p exit=$c :: $(echo "$out" | grep -m1 -E '^(VIOLATION|  rule=)' | cut -c1-10) $(echo "$out" | grep -m1 '  rule=' | cut -c1-260)"
  [ $c -ne 0 ] && [ $c -ne 1 ] && echo "$out" | grep -m3 ANALYSIS-ERROR | cut -c1-300
done
rm -rf "$scr"

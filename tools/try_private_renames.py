#!/usr/bin/env python3
"""False-alarm probe: rename every private function / method / attribute name (`_name`, defined in the package) consistently
throughout the package (word-boundary text replace in a scratch copy) and run every quick check. Behaviour is unchanged
by construction, so no check may report a violation; exit 2 shows an anchor on a private name."""
import ast, concurrent.futures as cf, glob, json, os, re, shutil, subprocess, sys, tempfile
PKG = "/repo/space_packet_parser"
PROPS = ["C%02d" % i for i in range(1, 21)]
names = set()
for f in glob.glob(PKG + "/**/*.py", recursive=True):
    t = ast.parse(open(f).read())
    for n in ast.walk(t):
        if isinstance(n, (ast.FunctionDef, ast.ClassDef)) and n.name.startswith("_") and not n.name.startswith("__"):
            names.add(n.name)
        if isinstance(n, ast.Attribute) and n.attr.startswith("_") and not n.attr.startswith("__") and isinstance(n.ctx, ast.Store):
            names.add(n.attr)
        if isinstance(n, ast.Assign):
            for tg in n.targets:
                if isinstance(tg, ast.Name) and tg.id.startswith("_") and not tg.id.startswith("__"):
                    names.add(tg.id)
names = sorted(names)
if len(sys.argv) > 1:
    names = [n for n in names if n in sys.argv[1:]]


def one(name):
    scr = tempfile.mkdtemp(prefix="spvren.")
    try:
        shutil.copytree(PKG, scr + "/space_packet_parser")
        new = name + "_rn"
        for f in glob.glob(scr + "/**/*.py", recursive=True):
            s = open(f).read()
            s2 = re.sub(r"(?<![\w])" + re.escape(name) + r"(?![\w])", new, s)
            if s2 != s:
                open(f, "w").write(s2)
        res = {}
        for pr in PROPS:
            q = subprocess.run(f"./check {pr} --no-write", shell=True, cwd=os.environ.get("SPV_CHECK_ROOT", "/verif"), env=dict(os.environ, SPV_REPO=scr),
                               capture_output=True, text=True, timeout=900)
            if q.returncode != 0:
                lines = [l for l in q.stdout.splitlines() if l.startswith(("  rule=", "ANALYSIS-ERROR"))][:2]
                res[pr] = {"exit": q.returncode, "lines": [l[:260] for l in lines]}
        return name, res
    finally:
        shutil.rmtree(scr, ignore_errors=True)


print(len(names), "private names")
tot1 = tot2 = 0
with cf.ThreadPoolExecutor(max_workers=8) as ex:
    for name, res in ex.map(one, names):
        print(name, {k: v["exit"] for k, v in res.items()}, flush=True)
        for k, v in res.items():
            tot1 += v["exit"] == 1
            tot2 += v["exit"] != 1
            for l in v["lines"]:
                print("     ", k, l)
print(f"names={len(names)} exit1={tot1} exit2={tot2}")

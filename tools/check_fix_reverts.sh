#!/bin/bash
# For every "fixed:" entry of KNOWN_FINDINGS.txt: reverse the fix in a scratch copy and require the property's check
# to report a VIOLATION again (a fixed entry suppresses nothing).
cd "${SPV_CHECK_ROOT:-/verif}"
grep '^fixed:' KNOWN_FINDINGS.txt | sed -E 's/.*property=(C[0-9]+) commit=([0-9a-f]+) rule=([^ ]+).*/\1 \2 \3/' | sort -u | while read prop commit rule; do
  [ -f spv/props/$(echo $prop | tr A-Z a-z).py ] || { echo "$prop $commit: (no check yet)"; continue; }
  scr=$(mktemp -d /tmp/spvrev.XXXXXX); cp -r /repo/space_packet_parser $scr/
  git -C /repo show $commit -- space_packet_parser | (cd $scr && git apply -R - ) || { echo "$prop $commit: revert does not apply"; rm -rf $scr; continue; }
  out=$(SPV_REPO=$scr ./check $prop --no-write 2>&1); rc=$?
  hit=$(echo "$out" | grep -c "rule=$rule")
  echo "$prop $commit rule=$rule -> exit=$rc rule-hit=$hit"
  rm -rf $scr
done

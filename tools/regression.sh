#!/bin/bash
# Full regression from a SNAPSHOT of the committed /verif (so that editing /verif meanwhile cannot disturb it):
#   tools/regression.sh [tags...]      default tags: r1 r2 r3 r4 r5 r6 r7
# Results: /tmp/reg_*.log, matrices are copied back to /verif/seeded and /verif/refactors; /tmp/reg_done when finished.
SNAP=/tmp/verif_snap
rm -rf "$SNAP" /tmp/reg_done
git -C /verif worktree prune
git -C /verif worktree add -f --detach "$SNAP" HEAD -q || exit 3
export SPV_CHECK_ROOT="$SNAP"
cd "$SNAP" || exit 3
/venv/bin/python tools/try_refactors.py /verif/refactors > /tmp/reg_refactors.log 2>&1
/venv/bin/python tools/try_private_renames.py > /tmp/reg_renames.log 2>&1
tools/check_fix_reverts.sh > /tmp/reg_reverts.log 2>&1
for t in ${@:-r1 r2 r3 r4 r5 r6 r7 r8 r9 r10 r11}; do
  n=${t#r}; d=/tmp/mut$n/out; tag=$t
  [ "$t" = r1 ] && { d=/tmp/mut/out; tag=""; }
  [ -d "$d" ] && SEED_REUSE=1 SEED_TAG=$tag /venv/bin/python tools/seed_mutants.py $d > /tmp/reg_seed_$t.log 2>&1
done
git -C /verif worktree remove --force "$SNAP"
echo ALLDONE > /tmp/reg_done

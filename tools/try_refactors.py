#!/usr/bin/env python3
"""Run every quick check against each behaviour-preserving refactoring patch: exit codes must not be 1 (no false alarm);
exit 2 (construct outside the vocabulary) is recorded."""
import concurrent.futures as cf, glob, json, os, shutil, subprocess, sys, tempfile
SRC = sys.argv[1] if len(sys.argv) > 1 else "/verif/refactors"
PROPS = ["C%02d" % i for i in range(1, 21)]


def one(cand):
    patch = os.path.join(cand, "patch.diff")
    scr = tempfile.mkdtemp(prefix="spvref.")
    try:
        shutil.copytree("/repo/space_packet_parser", scr + "/space_packet_parser")
        p = subprocess.run(f"git apply {patch}", shell=True, cwd=scr, capture_output=True, text=True)
        if p.returncode:
            return cand, {"status": "patch does not apply"}
        res = {}
        for pr in PROPS:
            try:
                q = subprocess.run(f"./check {pr} --no-write", shell=True, cwd=os.environ.get("SPV_CHECK_ROOT", "/verif"), env=dict(os.environ, SPV_REPO=scr),
                                   capture_output=True, text=True, timeout=900)
                rc, out = q.returncode, q.stdout
            except subprocess.TimeoutExpired:
                rc, out = 124, "TIMEOUT"
            if rc != 0:
                lines = [l for l in out.splitlines() if l.startswith(("  rule=", "ANALYSIS-ERROR"))][:2]
                res[pr] = {"exit": rc, "lines": [l[:300] for l in lines]}
        return cand, {"status": "ok", "nonzero": res}
    finally:
        shutil.rmtree(scr, ignore_errors=True)


cands = sorted(d for d in glob.glob(os.path.join(SRC, "R*", "p*")) + glob.glob(os.path.join(SRC, "*_p*")) if os.path.isdir(d))
out = {}
with cf.ThreadPoolExecutor(max_workers=8) as ex:
    for cand, r in ex.map(one, cands):
        out[cand] = r
        nz = r.get("nonzero", {})
        print(cand.replace(SRC + "/", ""), r["status"], {k: v["exit"] for k, v in nz.items()}, flush=True)
        for k, v in nz.items():
            for l in v["lines"]:
                print("     ", k, l[:260])
json.dump({k.replace(SRC + "/", ""): v for k, v in out.items()}, open(os.path.join(SRC, "matrix.json") if SRC.startswith("/verif") else "/tmp/refactor_matrix.json", "w"), indent=1, sort_keys=True)
fa = sum(1 for r in out.values() for v in r.get("nonzero", {}).values() if v["exit"] == 1)
un = sum(1 for r in out.values() for v in r.get("nonzero", {}).values() if v["exit"] not in (0, 1))
print(f"patches={len(out)} false_alarms(exit1)={fa} analysis_errors(exit2)={un}")

#!/bin/sh
# usage: tools/try_patch.sh <patch.diff> <Cnn...>  - run quick checks against a scratch copy of the package with the patch applied
P="$1"; shift
S=$(mktemp -d /tmp/spvtry.XXXXXX)
cp -r /repo/space_packet_parser "$S/"
(cd "$S" && git apply "$P") || { rm -rf "$S"; exit 3; }
for c in "$@"; do (cd /verif && SPV_REPO="$S" ./check "$c" --no-write | grep -v "^  path" | cut -c1-400 | tail -${TAILN:-6}); done
rm -rf "$S"

#!/usr/bin/env python3
"""Markdown tables of the seeded-change matrices (seeded/<tag>matrix.json + seeded/<id>/meta.json) for DESIGN.md section 9."""
import json, os, sys
OUT = "/verif/seeded"
for tag, title in (("", "Round 1"), ("r2", "Round 2"), ("r3", "Round 3 (refactoring with a slip)"), ("r4", "Round 4 (optimisation / feature addition / modernisation)"), ("r5", "Round 5 (classic Python pitfalls)"), ("r6", "Round 6 (well-meant fixes after a misread specification)"), ("r7", "Round 7 (non-default options, unusual-but-legal API usage, error paths)"), ("r8", "Round 8 (near-equivalent API calls, environment assumptions)"), ("r9", "Round 9 (the bug a code review misses)"), ("r10", "Round 10 (contract drift between two places; 12 properties)"), ("r11", "Round 11 (contract drift; the other 8 properties)")):
    mp = os.path.join(OUT, tag + "matrix.json")
    if not os.path.exists(mp):
        continue
    rows = json.load(open(mp))
    conf = [r for r in rows if r.get("confirmed")]
    own = sum(1 for r in conf if r["property"] in r.get("detected_by", []))
    anyd = sum(1 for r in conf if r.get("detected_by"))
    print(f"\n**{title}: {len(conf)} confirmed changes, {anyd} detected (exit 1 + VIOLATION), {own} by the check of the property they were written for.**\n")
    print("| change | site | slip | detected by | exit 2 in |")
    print("|--------|------|------|-------------|-----------|")
    for r in conf:
        k = os.path.basename(r["candidate"])
        d = os.path.join(OUT, f"{r['property']}_{tag}{k}")
        meta = {}
        try:
            meta = json.load(open(os.path.join(d, "meta.json")))
        except Exception:
            pass
        site = f"{os.path.basename(str(meta.get('file', '?')))} `{str(meta.get('function', '?'))[:60]}`"
        slip = str(meta.get("the_slip") or meta.get("summary") or "")
        slip = slip.replace("|", "/").replace("\n", " ")
        slip = slip[:150] + ("…" if len(slip) > 150 else "")
        det = ", ".join(r.get("detected_by", [])) or "**none**"
        err = ", ".join(r.get("analysis_error_in", [])) or ""
        print(f"| {r['property']}_{tag}{k} | {site} | {slip} | {det} | {err} |")

#!/usr/bin/env python3
"""Regenerate /verif/MANIFEST.json from the property registry (spv.props) - run after adding/removing a check."""
import json
import os
import sys

HERE = os.path.dirname(os.path.dirname(os.path.abspath(__file__)))
sys.path.insert(0, HERE)
from spv import props  # noqa: E402

PENDING_REASON = ("no static check is registered for this property in this revision of /verif; "
                  "it is not claimed until its rules exist (see DESIGN.md section 5 for the planned rules)")

BASELINE = ("cd /repo && /venv/bin/python -m pytest -ra -q -p no:cacheprovider --timeout=900 "
            "--continue-on-collection-errors")


def main():
    fixes = []
    kf = os.path.join(HERE, "KNOWN_FINDINGS.txt")
    if os.path.exists(kf):
        for line in open(kf):
            if line.startswith("fixed:"):
                for tok in line.split():
                    if tok.startswith("commit="):
                        c = tok.split("=", 1)[1]
                        if c not in fixes:
                            fixes.append(c)
    checks, na = [], []
    avail = props.available()
    titles = {}
    for line in open(os.path.join(HERE, "properties.jsonl")):
        d = json.loads(line)
        titles[d["id"]] = d["title"]
    for pid in props.ALL:
        if pid not in avail:
            na.append({"property_id": pid, "reason": PENDING_REASON})
            continue
        spec = props.load(pid)
        if getattr(spec, "withdrawn", None):
            na.append({"property_id": pid, "reason": spec.withdrawn})
            continue
        checks.append({
            "property_id": pid,
            "quick_cmd": f"./check {pid} --tier quick",
            "thorough_cmd": f"./check {pid} --tier thorough",
            "evidence_file": f"/verif/evidence/{pid}.json",
            "replay_cmd_template": "./check --replay {path}",
            "engine": "spv",
            "level_claimed": {
                "category": "other",
                "text": spec.level_text or spec.explanation,
                "design_ref": spec.design_ref or f"DESIGN.md section 5, {pid}",
            },
            "level_note": spec.level_note or "; ".join(spec.assumptions),
            "technique": spec.technique or "static analysis (AST extraction, constant folding, table comparison)",
        })
    man = {
        "version": 1,
        "setup_cmd": "./check --selftest",
        "hooks": {
            "guard": "SPACE_PACKET_PARSER_VERIF",
            "enable": ("none needed: the checks only read /repo's source text (static analysis); no guarded hook or "
                       "instrumentation exists in /repo"),
            "baseline_off_cmd": BASELINE,
            "source_commits": fixes,
            "add_only": True,
        },
        "engines": [{
            "name": "spv",
            "path": "/verif/spv",
            "serves_properties": [c["property_id"] for c in checks],
            "kind_free_text": ("repository-specific static analyser on the Python stdlib ast module: source model with "
                               "MRO and constant folding, statement CFG with dominators/path witnesses, affine "
                               "must-facts with a div8/mod8 lemma base, bit-window domain, call graph + effect "
                               "analysis, XML reader/writer fact extraction, value-taint, decision tables by abstract "
                               "interpretation over ordering classes; never imports or runs the repository"),
        }],
        "checks": checks,
        "notes": ("Every check re-parses /repo/space_packet_parser on each run (SPV_REPO overrides the root for scratch "
                  "copies). Exit 0 = all obligations PROVED (open known findings printed as KNOWN-FINDING), exit 1 = a "
                  "REFUTED obligation not listed in KNOWN_FINDINGS.txt (VIOLATION line), exit 2 = ANALYSIS-ERROR "
                  "(vanished anchor, construct outside the extractor's vocabulary, instance floor, dead positive "
                  "control). Properties are decided at clause level; each level text says what is and is not decided."),
        "not_applicable": na,
    }
    with open(os.path.join(HERE, "MANIFEST.json"), "w") as fh:
        json.dump(man, fh, indent=1)
        fh.write("\n")
    print(f"MANIFEST.json: {len(checks)} checks, {len(na)} not_applicable")


if __name__ == "__main__":
    main()

#!/usr/bin/env python3
"""For every fix commit: revert it in a scratch copy, run the listed property's check and print the (rule, site) of the
first violation - used once to write the `fixed:` lines of KNOWN_FINDINGS.txt with the real rule/site names."""
import os, re, shutil, subprocess, tempfile
FIXES = [
 ("C10","aae5c6e"),("C10","1adcdff"),("C19","1adcdff"),("C14","c5f83ca"),("C06","ad8b51e"),("C06","028c87e"),("C06","8cd9849"),("C07","8cd9849"),
 ("C08","24a2739"),("C12","02aeeb4"),("C05","1668f64"),("C16","cbf4c72"),("C09","402002e"),("C18","c0b847a"),("C19","67e50d3"),("C19","5a68991"),
 ("C16","584ac0b"),("C07","2692117"),("C09","2692117"),
]
for prop, c in FIXES:
    scr = tempfile.mkdtemp(prefix="spvrev.")
    shutil.copytree("/repo/space_packet_parser", scr + "/space_packet_parser")
    diff = subprocess.run(f"git -C /repo show {c} -- space_packet_parser", shell=True, capture_output=True, text=True).stdout
    p = subprocess.run("git apply -R -", shell=True, cwd=scr, input=diff, capture_output=True, text=True)
    if p.returncode:
        print(prop, c, "REVERT FAILED", p.stderr[:200]); shutil.rmtree(scr); continue
    out = subprocess.run(f"./check {prop} --no-write", shell=True, cwd="/verif", env=dict(os.environ, SPV_REPO=scr), capture_output=True, text=True)
    lines = [l for l in out.stdout.splitlines() if l.startswith("  rule=")]
    rules = []
    for l in lines:
        m = re.match(r"  rule=(\S+) site=(.*?) (?:space_packet_parser/\S+ )?:: (.*)", l)
        if m: rules.append((m.group(1), m.group(2).strip(), m.group(3)[:160]))
    print(f"{prop} {c} exit={out.returncode} n={len(rules)}")
    for r in rules[:3]:
        print("    ", r)
    shutil.rmtree(scr)
